"""Extractor items for C20 (trace tools): the normalised statements of snap_command's per-row arithmetic,
of jitter_command's draw / addition / sort / re-emission and of the seed plumbing of sensitivity-sample
(eudoxia/tools.py, eudoxia/workload/workload.py). Fail-closed as in extract.py: anything outside the
recognised shape raises Fail. Compared by bridge obligations with the constants of coq/Model/Tools.v."""
import ast

from harness.extract import Fail, parse, find, strip_doc, src, coq_list, qstr


def is_call(node, name):
    return isinstance(node, ast.Expr) and isinstance(node.value, ast.Call) and src(node.value.func) == name


def is_guard(st):
    """`if <cond>: print(...); sys.exit(1)` - an argument/format check that ends the program"""
    return isinstance(st, ast.If) and not st.orelse and len(st.body) == 2 \
        and is_call(st.body[0], 'print') and src(st.body[1]) == 'sys.exit(1)'


def flat(stmts, depth=0):
    """simple statements as normalised source, compound ones as header + indented body ('> ' per level);
    error guards and bare print calls are dropped, anything else unrecognised fails"""
    pre = '> ' * depth
    out = []
    for st in stmts:
        if is_guard(st) or is_call(st, 'print'):
            continue
        if isinstance(st, (ast.Assign, ast.AugAssign, ast.Expr, ast.Return)):
            out.append(pre + src(st))
        elif isinstance(st, ast.While) and not st.orelse:
            out.append(pre + 'while ' + src(st.test) + ':')
            out += flat(st.body, depth + 1)
        elif isinstance(st, ast.For) and not st.orelse:
            out.append(pre + 'for ' + src(st.target) + ' in ' + src(st.iter) + ':')
            out += flat(st.body, depth + 1)
        elif isinstance(st, ast.If):
            out.append(pre + 'if ' + src(st.test) + ':')
            out += flat(st.body, depth + 1)
            if st.orelse:
                out.append(pre + 'else:')
                out += flat(st.orelse, depth + 1)
        else:
            raise Fail('unrecognised statement in a trace tool: ' + src(st)[:80])
    return out


def tools_fn(name):
    return find(parse('eudoxia/tools.py'), ast.FunctionDef, name)


def loops_over(fn, iter_src):
    return [n for n in ast.walk(fn) if isinstance(n, ast.For) and src(n.iter) == iter_src]


def strs(items):
    return 'list string', coq_list([qstr(s) + '%string' for s in items])


def item_snap_stmts():
    fn = tools_fn('snap_command')
    if [a.arg for a in fn.args.args] != ['input_workload', 'output_file', 'ticks_per_second', 'force']:
        raise Fail('snap_command: unexpected parameters')
    loops = loops_over(fn, 'reader')
    if len(loops) != 1:
        raise Fail('snap_command: expected exactly one loop over the reader')
    # outside the loop only the paths, the reader and the writer are set up
    extra = [s for s in flat_outside(fn, loops[0])
             if s.split(' = ')[0] not in ('input_path', 'output_path', 'reader', 'writer')]
    if extra:
        raise Fail('snap_command: unexpected statement outside the row loop: ' + extra[0])
    return strs(flat(loops[0].body))


def flat_outside(fn, loop):
    """simple statements of fn that are not inside loop"""
    inside = {id(n) for n in ast.walk(loop)}
    out = []
    for n in ast.walk(fn):
        if id(n) in inside:
            continue
        if isinstance(n, (ast.Assign, ast.AugAssign)):
            out.append(src(n))
    return out


def item_jitter_stmts():
    fn = tools_fn('jitter_command')
    if [a.arg for a in fn.args.args] != ['input_workload', 'output_file', 'delta', 'seed', 'force']:
        raise Fail('jitter_command: unexpected parameters')
    body = strip_doc(fn.body)
    start = [i for i, st in enumerate(body) if src(st).startswith('seed = ')]
    if len(start) != 1:
        raise Fail('jitter_command: seed defaulting statement not found')
    out = []
    for st in body[start[0]:]:
        if isinstance(st, ast.With):
            for inner in st.body:
                if isinstance(inner, ast.For) and src(inner.iter) == 'reader':
                    out += flat(inner.body)
                elif isinstance(inner, ast.For):
                    out += flat([inner])
                elif isinstance(inner, ast.If):
                    out += flat([inner])
                elif isinstance(inner, ast.Assign) and src(inner.targets[0]) in (
                        'reader', 'fieldnames', 'writer', 'pipelines', 'current_pipeline_rows',
                        'current_pipeline_id', 'current_arrival'):
                    if src(inner.targets[0]).startswith('current') and src(inner.value) not in ('None', '[]'):
                        raise Fail('jitter_command: unexpected initial value ' + src(inner))
                elif is_call(inner, 'writer.writeheader'):
                    pass
                else:
                    raise Fail('jitter_command: unrecognised statement ' + src(inner)[:80])
        else:
            out += flat([st])
    return strs(out)


def item_seed_stmts():
    task = tools_fn('_sensitivity_task')
    want = ('params_with_seed', 'WorkloadGenerator(')
    a = [s for _, s in sorted((n.lineno, src(n)) for n in ast.walk(task)
                              if isinstance(n, ast.Assign) and any(w in src(n) for w in want))]
    samp = tools_fn('sensitivity_sample_command')
    loops = loops_over(samp, 'range(sample_size)')
    loops = [l for l in loops if any('SensitivityTask' in src(s) for s in l.body)]
    if len(loops) != 1:
        raise Fail('sensitivity_sample_command: task construction loop not found')
    b = flat([loops[0]])
    c = [src(n) for n in ast.walk(samp) if isinstance(n, ast.Assign) and 'pool.map' in src(n)]
    gen = find(parse('eudoxia/workload/workload.py'), ast.ClassDef, 'WorkloadGenerator')
    init = find(gen, ast.FunctionDef, '__init__')
    d = [src(n) for n in ast.walk(init) if isinstance(n, ast.Assign) and 'default_rng' in src(n)]
    return strs(a + b + c + d)


def item_seed_key():
    """the dictionary key under which _sensitivity_task stores task.seed before WorkloadGenerator(**...)"""
    task = tools_fn('_sensitivity_task')
    keys = []
    for n in ast.walk(task):
        if isinstance(n, ast.Assign) and len(n.targets) == 1 and isinstance(n.targets[0], ast.Subscript) \
                and src(n.value) == 'task.seed':
            t = n.targets[0]
            if src(t.value) != 'params_with_seed' or not (isinstance(t.slice, ast.Constant) and isinstance(t.slice.value, str)):
                raise Fail('_sensitivity_task: task.seed is stored somewhere unexpected: ' + src(n))
            keys.append(t.slice.value)
    calls = [n for n in ast.walk(task) if isinstance(n, ast.Call) and src(n.func) == 'WorkloadGenerator']
    if len(calls) != 1 or src(calls[0]) != 'WorkloadGenerator(**params_with_seed)':
        raise Fail('_sensitivity_task: WorkloadGenerator is not built from params_with_seed')
    if len(keys) != 1:
        raise Fail('_sensitivity_task: expected exactly one store of task.seed')
    return 'string', qstr(keys[0]) + '%string'


def item_seed_param():
    """the __init__ parameter WorkloadGenerator seeds its random generator with"""
    gen = find(parse('eudoxia/workload/workload.py'), ast.ClassDef, 'WorkloadGenerator')
    init = find(gen, ast.FunctionDef, '__init__')
    params = [a.arg for a in init.args.args]
    rngs = [n for n in ast.walk(init) if isinstance(n, ast.Assign) and src(n.targets[0]) == 'self.rng']
    if len(rngs) != 1:
        raise Fail('WorkloadGenerator.__init__: expected exactly one assignment to self.rng')
    v = rngs[0].value
    if not (isinstance(v, ast.Call) and src(v.func) == 'np.random.default_rng' and len(v.args) == 1
            and not v.keywords and isinstance(v.args[0], ast.Name)):
        raise Fail('WorkloadGenerator.__init__: self.rng is not np.random.default_rng(<parameter>)')
    name = v.args[0].id
    if name not in params:
        raise Fail('WorkloadGenerator.__init__: the seed is not a parameter: ' + name)
    for n in ast.walk(init):
        if isinstance(n, (ast.Assign, ast.AugAssign)) and any(
                isinstance(t, ast.Name) and t.id == name
                for t in (n.targets if isinstance(n, ast.Assign) else [n.target])):
            raise Fail('WorkloadGenerator.__init__: the seed parameter is reassigned')
    return 'string', qstr(name) + '%string'


ITEMS = [
    ('snap_stmts', item_snap_stmts),
    ('jitter_stmts', item_jitter_stmts),
    ('seed_stmts', item_seed_stmts),
    ('seed_key', item_seed_key),
    ('seed_param', item_seed_param),
]
