"""Extractor items for the shipped schedulers: the decision expressions (tests of every `if`/`while`, the
assignments that size a container, the Assignment(...) keyword arguments, module constants) as normalised source
text, compared by bridge obligations with the lists recorded in coq/Model/SchedSrc.v next to the transcription."""
import ast

from harness.extract import Fail, parse, find, src, coq_list, qstr

SIZING = {'job_cpu', 'job_ram', 'cpu_ratio', 'ram_ratio', 'num_to_suspend', 'op_list', 'avail_cpu_pool', 'avail_ram_pool',
          'avail_cpu', 'avail_ram', 'has_failures', 'pool_id', 'max_ram', 'id_'}


def decisions(fn):
    out = []
    for n in ast.walk(fn):
        if isinstance(n, (ast.If, ast.While)):
            out.append((n.lineno, 0, 'test: ' + src(n.test)))
        elif isinstance(n, ast.Assign) and len(n.targets) == 1 and isinstance(n.targets[0], ast.Name) \
                and n.targets[0].id in SIZING:
            out.append((n.lineno, 1, 'set: ' + src(n)))
        elif isinstance(n, ast.Call) and isinstance(n.func, ast.Name) and n.func.id in ('Assignment', 'Suspend'):
            kw = ', '.join(f'{k.arg}={src(k.value)}' for k in n.keywords)
            pos = ', '.join(src(a) for a in n.args)
            out.append((n.lineno, 2, f'{n.func.id}({pos}{", " if pos and kw else ""}{kw})'))
        elif isinstance(n, ast.Break):
            out.append((n.lineno, 3, 'break'))
        elif isinstance(n, ast.Continue):
            out.append((n.lineno, 3, 'continue'))
    return [s for _, _, s in sorted(out)]


def fn_item(rel, names, template=False):
    def item():
        if template:
            t = parse('eudoxia/__main__.py')
            val = None
            for n in t.body:
                if isinstance(n, ast.Assign) and isinstance(n.targets[0], ast.Name) and n.targets[0].id == 'SCHEDULER_TEMPLATE':
                    val = n.value
            if val is None or not isinstance(val, ast.Constant):
                raise Fail('SCHEDULER_TEMPLATE not found')
            tree = ast.parse(val.value.replace('{scheduler_name}', 'starter'))
        else:
            tree = parse(rel)
        out = []
        for name in names:
            out += [f'{name}: {s}' for s in decisions(find(tree, ast.FunctionDef, name))]
        if not template:
            for n in tree.body:
                if isinstance(n, ast.Assign) and isinstance(n.targets[0], ast.Name) and n.targets[0].id.isupper() \
                        and isinstance(n.value, ast.Constant):
                    out.append(f'const: {src(n)}')
        return 'list string', coq_list([qstr(s) + '%string' for s in out])
    return item


ITEMS = [
    ('sched_naive', fn_item('eudoxia/scheduler/naive.py', ['naive_pipeline'])),
    ('sched_starter', fn_item(None, ['starter_scheduler'], template=True)),
    ('sched_overbook', fn_item('eudoxia/scheduler/overbook.py', ['overbook_scheduler', 'update_state', 'try_make_assignment',
                                                                  'make_assignments'])),
    ('sched_priority', fn_item('eudoxia/scheduler/priority.py', ['get_pool_with_max_avail_ram', 'priority_scheduler'])),
    ('sched_priority_pool', fn_item('eudoxia/scheduler/priority_pool.py', ['init_priority_pool_scheduler',
                                                                            'priority_pool_scheduler'])),
]
