"""Extractor items for C14 (see extract.py): the CSV header CSVWorkloadWriter emits and the per-column
parse expressions of CSVWorkloadReader._parse_row, both as `list string`. Fail-closed."""
import ast

from harness.extract import Fail, parse, find, strip_doc, src, coq_list, qstr


def item_csv_fields():
    t = parse('eudoxia/workload/csv_io.py')
    cls = find(t, ast.ClassDef, 'CSVWorkloadWriter')
    init = find(cls, ast.FunctionDef, '__init__')
    calls = [n for n in ast.walk(init) if isinstance(n, ast.Call) and src(n.func) == 'csv.DictWriter']
    if len(calls) != 1:
        raise Fail('CSVWorkloadWriter.__init__: expected exactly one csv.DictWriter call')
    call = calls[0]
    if len(call.args) != 1 or [k.arg for k in call.keywords] != ['fieldnames']:
        raise Fail('csv.DictWriter call has unexpected arguments: ' + src(call))
    v = call.keywords[0].value
    if not isinstance(v, ast.List) or not all(isinstance(e, ast.Constant) and isinstance(e.value, str) for e in v.elts):
        raise Fail('fieldnames is not a list of string literals')
    if not any(src(s) == 'self.writer.writeheader()' for s in init.body):
        raise Fail('CSVWorkloadWriter.__init__ does not write the header')
    return 'list string', coq_list([qstr(e.value) + '%string' for e in v.elts])


def item_csv_parse_exprs():
    t = parse('eudoxia/workload/csv_io.py')
    cls = find(t, ast.ClassDef, 'CSVWorkloadReader')
    fn = find(cls, ast.FunctionDef, '_parse_row')
    if [a.arg for a in fn.args.args] != ['self', 'row_dict']:
        raise Fail('_parse_row: unexpected parameters')
    out = []
    body = strip_doc(fn.body)
    for i, st in enumerate(body):
        if isinstance(st, ast.Assign) and len(st.targets) == 1 and isinstance(st.targets[0], ast.Name):
            out.append(src(st))
        elif isinstance(st, ast.Return) and i == len(body) - 1 and isinstance(st.value, ast.Call) \
                and src(st.value.func) == 'CSVOperatorRow' and not st.value.args:
            for kw in st.value.keywords:
                if kw.arg is None:
                    raise Fail('_parse_row: ** argument in CSVOperatorRow(...)')
                out.append(f'{kw.arg}={src(kw.value)}')
        else:
            raise Fail('_parse_row: unrecognised statement ' + src(st))
    return 'list string', coq_list([qstr(s) + '%string' for s in out])


ITEMS = [
    ('csv_fields', item_csv_fields),
    ('csv_parse_exprs', item_csv_parse_exprs),
]
