"""C10 Suspension only between operators, lasts RAM/20 s, returns work intact."""
import math
from fractions import Fraction as F

from harness import execdrv as X
from harness import execprops as P
from harness.impl import E_SUSP

ID = 'C10'
MASK = X.M_LISTS | X.M_STATES | X.M_RES
ASSUMPTIONS = ['suspension length floor(ram/20*tps) is accepted one lower when ram/20*tps is within float rounding of an '
               'integer (boundary rule of C05); the model computes it with the three float operations of the code']
REL = F(4, 2 ** 53)


def expected_durations(ram, tps):
    x = F(ram) * tps / 20
    fl = math.floor(x)
    cands = {max(1, fl)}
    if x - fl <= x * REL:          # on (or within rounding above) a boundary: may fall one lower
        cands.add(max(1, fl - 1))
    if (fl + 1) - x <= x * REL:
        cands.add(max(1, fl + 1))
    return cands


def monitor(run):
    r = run.r
    tps = r['tps']
    susp_at = {}       # cid -> tick of the accepted command
    frozen = {}        # cid -> (opidx, states of its ops) at suspension
    done = set()
    res_cids = set()
    # operator script lengths per container
    for t, e in enumerate(run.trace):
        prev = e.get('pre_pools') or []
        prev_active = {c['cid']: (pi, c) for pi, p in enumerate(prev) for c in p['active']}
        cmds = e['cmd']['susp']
        unacceptable = None
        seen = set()
        for (cid, pool) in cmds:
            if not 0 <= pool < r['npools']:
                continue   # pool range is C09
            if cid not in prev_active or prev_active[cid][0] != pool or not prev_active[cid][1]['can_suspend'] or cid in seen:
                unacceptable = cid
            seen.add(cid)
        if e['err']:
            if e['err'] == E_SUSP and unacceptable is None and cmds:
                yield f'tick {t}: admissible suspension rejected'
            # a rejected request has no effect on a write-out in progress: the remaining ticks of a suspending
            # container never go up, and it stays where it is
            after = {c['cid']: c for p in (e.get('pools_after_err') or []) for c in p['suspending']}
            for p in prev:
                for c in p['suspending']:
                    a = after.get(c['cid'])
                    gone = a is None and c['cid'] not in {x for q in (e.get('pools_after_err') or []) for x in q['suspended']}
                    if e.get('pools_after_err') is not None and (gone or (a is not None and a['left'] > c['left'])):
                        yield (f'tick {t}: rejected command ({e.get("exc", "")[:60]}) changed the write-out of suspending '
                               f'container {c["cid"]}: {c["left"]} ticks left before, '
                               f'{"container gone" if a is None else str(a["left"]) + " after"}')
            continue
        if unacceptable is not None:
            yield f'tick {t}: suspension of container {unacceptable} accepted although it is not running at an operator boundary'
        if prev:
            for pi, pb in enumerate(prev):
                batch = [a for a in e['cmd']['asg'] if a[4] == pi]
                held = [c for c in pb['suspending']] + [c for c in pb['active'] if c['cid'] in {x[0] for x in cmds}]
                if batch and held and (sum(a[1] for a in batch) > pb['avail_cpu'] or
                                       (not r['over'] and sum(F(a[2]) for a in batch) > F(pb['avail_ram']))):
                    yield (f'tick {t} pool {pi}: a batch needing {sum(a[1] for a in batch)} CPUs / '
                           f'{float(sum(F(a[2]) for a in batch))} GB was accepted with {pb["avail_cpu"]} CPUs / {pb["avail_ram"]} GB '
                           f'free: the allocation of a container that is still being written out was handed out early')
        # can_suspend exactly at operator boundaries (independent recount from the probed scripts)
        for p in e['pools']:
            for c in p['active']:
                inf = run.info[c['cid']]
                lens = [len(run.used[(o, inf['cpu'])]) for o in inf['ops']]
                acc, bnd = 0, set()
                for L in lens[:-1]:
                    acc += L
                    bnd.add(acc)
                age = e['age'].get(c['cid'])
                want = age in bnd
                if c['can_suspend'] != want:
                    yield (f'tick {t}: container {c["cid"]} can_suspend={c["can_suspend"]} after {age} ticks; '
                           f'operator boundaries at {sorted(bnd)}')
        for x in e['results']:
            res_cids.add(x['cid'])
        # exactly the allocation is freed: free + allocated(running, suspending) = capacity after every tick
        for pi, p in enumerate(e['pools']):
            livec = p['active'] + p['suspending']
            if p['avail_cpu'] + sum(c['cpu'] for c in livec) != p['max_cpu'] or \
                    F(p['avail_ram']) + sum(F(c['ram']) for c in livec) != F(p['max_ram']):
                yield (f'tick {t} pool {pi}: after suspensions ended the pool has {p["avail_cpu"]} CPUs / {p["avail_ram"]} GB '
                       f'free with {sum(c["cpu"] for c in livec)} CPUs / {float(sum(F(c["ram"]) for c in livec))} GB allocated, '
                       f'capacity {p["max_cpu"]} / {p["max_ram"]}')
            for c in p['suspending']:
                if c['left'] is not None and c['left'] <= 0:
                    yield f'tick {t} pool {pi}: container {c["cid"]} finished suspending but was not released'
        for (cid, pool) in cmds:
            if 0 <= pool < r['npools']:
                susp_at[cid] = t
                c = prev_active[cid][1] if cid in prev_active else None
                if c:
                    frozen[cid] = (c['opidx'], c['mem'])
        suspending = {c['cid']: c for p in e['pools'] for c in p['suspending']}
        suspended = {cid for p in e['pools'] for cid in p['suspended']}
        for cid, t0 in susp_at.items():
            if cid in done:
                continue
            inf = run.info[cid]
            opidx = frozen[cid][0] if cid in frozen else None
            if cid in suspending:
                c = suspending[cid]
                if opidx is not None and (c['opidx'] != opidx or c['mem'] != frozen[cid][1]):
                    yield f'tick {t}: suspending container {cid} made progress'
                sts = [e['states'][o] for o in inf['ops']]
                if opidx is not None and (any(s != 4 for s in sts[:opidx]) or any(s != 3 for s in sts[opidx:])):
                    yield f'tick {t}: suspending container {cid} has operator states {sts} (boundary at {opidx})'
            elif cid in suspended:
                d = t - t0 + 1
                done.add(cid)
                if d not in expected_durations(inf['ram'], tps):
                    yield (f'tick {t}: suspension of container {cid} (ram {inf["ram"]}, {tps} ticks/s) lasted {d} ticks, '
                           f'expected {sorted(expected_durations(inf["ram"], tps))}')
                sts = [e['states'][o] for o in inf['ops']]
                if opidx is not None and (any(s != 4 for s in sts[:opidx]) or any(s != 0 for s in sts[opidx:])):
                    yield f'tick {t}: after suspension container {cid} has operator states {sts}, want completed prefix and pending rest'
            else:
                yield f'tick {t}: suspended container {cid} is in no list'
            if cid in res_cids:
                yield f'tick {t}: suspended container {cid} reported a result'


def replay(recipe):
    case, hits, _ = P.drive(recipe, MASK, monitor, 'suspension')
    return case, hits


def gen_sweep(rng, i):
    """one chain container on a roomy pool, suspension requested at tick k of its life (every k in turn),
    RAM and tick rate chosen so that the write-out rounds to 0, 1, 2, ... ticks"""
    tps = rng.choice([1, 2, 3, 7, 10, 20, 60, 100])
    nops = rng.randint(2, 4)
    segs = [[X.gen_segments(rng, tps, 64.0) for _ in range(nops)]]
    dag = [[j - 1] if j else [] for j in range(nops)]
    ram = rng.choice([0.125, 0.5, 1, 2, 5, 10, 19.5, 20, 20.5, 25, 40, 64, 100, 128])
    recipe = dict(gen='G-susp-sweep', tps=tps, over=0, multi=1, npools=1, cpu=4, ram=256, pipes=[(3, dag)], segs=segs,
                  ticks=[], bad=None)
    run = X.ExecRun(recipe)
    k = i % 12
    t = dict(susp=[], asg=[(list(range(nops)), rng.randint(1, 4), ram, 3, 0)])
    recipe['ticks'].append(t)
    run.step(t)
    for j in range(1, 40):
        t = dict(susp=[], asg=[])
        act = run.ex.pools[0].active_containers
        if j == k and act:
            t['susp'] = [(run.cid(act[0]), 0)]
        elif j > k and act and act[0].can_suspend_container() and rng.random() < 0.5:
            t['susp'] = [(run.cid(act[0]), 0)]
        st = run.w.states()
        if not act and not run.ex.pools[0].suspending_containers and any(s == 0 for s in st) and j > 1:
            ops = [o for o in range(nops) if st[o] == 0]
            t['asg'] = [(ops, 1, ram, 3, 0)]      # re-assign what came back
        recipe['ticks'].append(t)
        ent = run.step(t)
        if ent['err'] or all(s in (4, 5) for s in run.w.states()):
            break
    return recipe


def run(ctx):
    out = P.run_property(ctx, MASK, monitor, 'suspension', [
        ('G-exec', 200, 3000, dict(p_bad=0.4)),
        ('G-exec-twins', 80, 1200, dict(twins=True)),
        ('G-exec-overlap', 80, 1200, dict(overlap=True)),
        ('G-exec-twins-odd', 60, 1000, dict(twins='odd')),
        ('G-exec-early-reuse', 120, 2000, dict(p_bad=1.0, bad_kinds=['asg-early-reuse'])),
        ('G-exec-badsusp', 120, 2000, dict(p_bad=1.0, bad_kinds=['susp-mid', 'susp-mid', 'susp-suspending', 'susp-suspending', 'susp-suspended', 'susp-suspended', 'susp-dup',
                                                                   'susp-unknown', 'susp-wrongpool', 'asg-resume-suspending'])),
    ], nontrivial=lambda run: any(e['cmd']['susp'] for e in run.trace))
    import collections
    st = collections.Counter(out['dist'])
    nt = 0
    for i in range(ctx.budget(240, 4000)):
        rng = ctx.case_rng('G-susp-sweep', i)
        recipe = gen_sweep(rng, i)
        case, h, run_ = P.drive(recipe, MASK, monitor, 'suspension')
        out['cases'].append(case)
        out['hits'] += h
        P.stats_of(run_, st)
        nt += any(e['cmd']['susp'] for e in run_.trace)
    out['dist'] = dict(st)
    out['distinct_nontrivial'] += nt
    out['rule'] = ('G-exec (see C03) with 40% of histories carrying one inadmissible command, plus the sweep: one chain '
                   'container, suspension requested at every tick k=0..11 of its life, RAM x tick rate such that the '
                   'write-out is 0,1,2,.. ticks, returned work re-assigned; projection: container lists, can_suspend, '
                   'ticks left, operator states, free resources. non-trivial = histories with a suspend command')
    return out
