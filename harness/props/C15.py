"""C15 The workload generator emits well-formed pipelines that follow its parameters.

The real WorkloadGenerator is driven tick by tick; a proxy installed on `generator.rng` records every
`choice` / `normal` call (arguments and result). The recorded results are the DRAW STREAM that the Coq
model (Model/Generator.v, kind 15) consumes; what the generator returned per tick (ids, priorities, operator
chains, segment prototypes - read from the REAL objects) must be what the model computes from the stream.

Three generators:
  G-gen     the real numpy Generator behind the proxy: seeds x parameter grid;
  G-script  the rng is replaced by a scripted one that answers every call with a boundary-heavy value
            (ladder thresholds +- an ulp, operator counts 0.99 / 1 / -3 / large, gaps 0 / negative / 1):
            streams a seeded rng would practically never produce;
  G-bad     a recorded stream is truncated or has one draw of the wrong kind and is replayed strictly:
            the implementation stops there and the model must answer bad_input.
  G-gen-u   the class draw is COMPUTED by the model (kind 25): before forwarding `choice` the proxy clones the state
            of the bit generator and asks the clone for `random()` - the one double u that numpy's choice is
            about to consume -, records u, forwards the call and checks that the real generator's state then
            equals the clone's. The model gets the three user probabilities and the u's; it normalises the
            probabilities (prio_probs), runs numpy's float cumsum / division / right-side search (choice_float)
            and must reproduce self.priority_probs and every priority the real generator produced. In a third
            of these cases the proxy first SETS the PCG64 state so that the next double is a float cdf entry or
            one of its 2^-53 grid neighbours (boundary u's that a seeded run would never hit).
S-stat (no model involved) are STATISTICAL TESTS over long seeded runs, reported in `dist`; they only
become hits when grossly violated."""
import collections
import copy
import math
from fractions import Fraction as F

import numpy as np

from harness.impl import Q, enc_list
from eudoxia.simulator import get_param_defaults
from eudoxia.utils import Priority
from eudoxia.workload.pipeline import Segment
from eudoxia.workload.workload import WorkloadGenerator

ID = 'C15'
BRIDGE_IMPORTS = 'From Eudoxia Require Import Model.Generator.\n'
KIND = 15
KIND_U = 25
BRIDGE = [
    ('gen_ladder', 'ext_gen_ladder = map rung_row ladder', 'reflexivity.'),
    ('gen_query_proto', 'ext_gen_query_proto = (r_cpu query_rung, law_name (r_law query_rung), r_read query_rung)',
     'reflexivity.'),
    ('gen_clip', 'ext_gen_clip = clip_consts', 'reflexivity.'),
    ('gen_source', 'ext_gen_source = generator_source', 'reflexivity.'),
    ('priorities', 'In (Query, query_value) ext_priorities', 'simpl; tauto.'),
    ('priority_values', 'In (Interactive, nth 0 priority_values 0%Z) ext_priorities /\\ '
     'In (Query, nth 1 priority_values 0%Z) ext_priorities /\\ In (Batch, nth 2 priority_values 0%Z) ext_priorities',
     'simpl; tauto.'),
    ('law_names', 'forall r, In r (query_rung :: ladder) -> In (law_name (r_law r)) ext_law_names',
     'intros r H; simpl in H; repeat (destruct H as [H|H]; [subst r; simpl; tauto|]); destruct H.'),
]
ASSUMPTIONS = [
    'G-gen / G-script / G-bad (kind 15): the generator is a function of its draw stream: the values returned by rng.choice / '
    'rng.normal (recorded by a proxy on generator.rng) enter the model',
    'G-gen-u (kind 25): the class draw is NOT an input any more: the model gets the three configured probabilities and the uniform '
    'double u that choice consumes (predicted from a clone of the bit generator state, and the state after choice is checked to be '
    'the state after one random()); it computes priority_probs (left-to-right float sum, rounded divisions) and the class '
    '(choice_float: float cumsum, division by the last entry, right-side search) and must reproduce self.priority_probs and every '
    'priority of every pipeline bit-exactly. So "numpy.Generator.choice(a, p) = a[choice_float p u]" is CHECKED on every class draw '
    'of that stream (numpy ' + np.__version__ + '), including u forced onto float cdf entries and their grid neighbours; it is not proved '
    '(numpy is compiled code)',
    'choice_float vs the exact inverse CDF choice_of: proved equal whenever u is not within the float error bound of an exact '
    'boundary (C15_choice_float_close_to_exact*), in range, monotone, never a zero-probability class (C15_choice_float_*)',
    'what remains trusted about numpy: that the doubles of the bit generator (random()) are uniform on the 2^-53 grid of [0,1) and '
    'independent, and everything about normal(): ratio_monotone reads normal(loc) as loc + z with z standard normal (exact addition; '
    'float addition is monotone too), symmetric about its mean; class frequencies, mean gap, mean operator count and the prototype '
    'shift are additionally TESTED statistically over seeded runs (dist: stat_*)',
    'waiting_ticks_mean and num_operators are read from the real generator object and passed to the model',
]
TRUSTED = ['rng proxy / scripted rng of harness/props/C15.py (records arguments and results of choice and normal; for G-gen-u clones '
           'the bit generator state to predict the uniform double, and sets the PCG64 state to place u on cdf boundaries - both '
           'verified on the spot: prediction vs. state after the call, forced value vs. a clone)',
           "numpy's bit generator (PCG64) and normal(): their outputs are recorded, not modelled"]

# the documented prototypes (docstring of generate_segment_from_val, most I/O-heavy first) and the query one
PROTOS = [(1, 'const', 55), (2, 'sqrt', 55), (5, 'linear3', 45), (15, 'linear3', 37.5),
          (20, 'linear7', 30), (40, 'linear7', 20), (80, 'squared', 10)]
QUERY_PROTO = (15, 'linear3', 35)
LADDER = [F(-1), F(-1, 2), F(0), F(1, 2), F(1), F(3, 2)]     # val < t0 -> 0; t_{i-1} <= val < t_i -> i; val >= t5 -> 6
LAW_OF_FUNC = {id(f): n for n, f in Segment.SCALING_FUNCS.items()}
QUERY, INTERACTIVE, BATCH = Priority.QUERY.value, Priority.INTERACTIVE.value, Priority.BATCH_PIPELINE.value


class StreamError(Exception):
    pass


class Recorder:
    """stands in for generator.rng; log entries: (kind, args tuple, kwargs dict, result)"""

    def __init__(self, real=None, script=None, replay=None, predict_u=False, force=None):
        self.real, self.script, self.replay = real, script, replay
        self.log = []
        self.pos = 0
        self.predict_u, self.force = predict_u, force
        self.uinfo = {}          # log index of a choice -> (u predicted from a clone, state after == clone's state, forced)

    def _answer(self, kind, a, kw):
        if self.replay is not None:
            if self.pos >= len(self.replay):
                raise StreamError('stream exhausted')
            k, v = self.replay[self.pos]
            self.pos += 1
            if k != kind:
                raise StreamError('wrong kind of draw')
            return v
        if self.script is not None:
            return self.script(kind, a, kw)
        return getattr(self.real, kind)(*a, **kw)

    def choice(self, *a, **kw):
        if self.predict_u and self.real is not None:
            forced = False
            if self.force is not None:
                forced = self.force(self.real, kw.get('p'))
            twin = clone_rng(self.real)
            u = float(twin.random())
            r = self.real.choice(*a, **kw)
            self.uinfo[len(self.log)] = (u, self.real.bit_generator.state == twin.bit_generator.state, forced)
            self.log.append(('choice', a, kw, r))
            return r
        r = self._answer('choice', a, kw)
        self.log.append(('choice', a, kw, r))
        return r

    def normal(self, *a, **kw):
        r = self._answer('normal', a, kw)
        self.log.append(('normal', a, kw, r))
        return r

    def __getattr__(self, name):
        def other(*a, **kw):
            self.log.append((name, a, kw, None))
            if self.real is None:
                raise StreamError('unexpected rng method ' + name)
            return getattr(self.real, name)(*a, **kw)
        return other


def clone_rng(real):
    """a second numpy Generator in the same state (the twin's draws are what `real` would draw next)"""
    twin = np.random.default_rng()
    twin.bit_generator.state = copy.deepcopy(real.bit_generator.state)
    return twin


PCG_MULT = 0x2360ED051FC65DA44385DF649FCCF645          # PCG64's 128-bit LCG multiplier
PCG_INV = pow(PCG_MULT, -1, 1 << 128)


def force_next_double(real, u, salt):
    """set the PCG64 state of `real` so that its next random() is u (a multiple of 2^-53 in [0,1)): PCG64 steps its
    128-bit LCG and outputs rotr64(hi ^ lo, hi >> 58) of the new state; random() is (output >> 11) * 2^-53.
    Verified on a clone; returns False (state untouched) when the prediction is not met."""
    st = copy.deepcopy(real.bit_generator.state)
    if st.get('bit_generator') != 'PCG64':
        return False
    k = int(F(u) * 2 ** 53)
    if not (0 <= k < 2 ** 53) or F(k, 2 ** 53) != F(u):
        return False
    out = (k << 11) | (salt & 0x7ff)
    m64 = (1 << 64) - 1
    hi = (st['state']['state'] >> 64) & m64
    rot = hi >> 58
    lo = ((((out << rot) | (out >> (64 - rot))) & m64) if rot else out) ^ hi
    st['state']['state'] = ((((hi << 64) | lo) - st['state']['inc']) * PCG_INV) & ((1 << 128) - 1)
    twin = np.random.default_rng()
    twin.bit_generator.state = copy.deepcopy(st)
    if float(twin.random()) != u:
        return False
    real.bit_generator.state = st
    return True


def boundary_forcer(rng):
    """for G-gen-u: with probability 1/2 per class draw move the generator onto a boundary of the float cdf of p
    (the entry rounded down to the 2^-53 grid, or a grid neighbour), or onto 0 / the largest double below 1"""
    def force(real, p):
        if p is None or rng.random() < 0.5:
            return False
        cdf = np.asarray(p, dtype=float).cumsum()
        cdf = cdf / cdf[-1]
        c = F(float(rng.choice(list(cdf))))
        k = int(c * 2 ** 53) + rng.choice([0, 0, -1, 1])
        if rng.random() < 0.1:
            k = rng.choice([0, 1, 2 ** 53 - 1, 2 ** 52])
        k = min(max(k, 0), 2 ** 53 - 1)
        return force_next_double(real, k / 2 ** 53, rng.randrange(2048))
    return force


def scripted(rng):
    """answers for G-script: boundary-heavy values chosen with the case rng"""
    eps = [0.0, 0.0, 2.0 ** -52, -2.0 ** -52, 1e-9, -1e-9, 0.25, -0.25]

    def answer(kind, a, kw):
        if kind == 'choice':
            return np.int64(rng.choice([QUERY, INTERACTIVE, BATCH, INTERACTIVE, BATCH]))
        mu = float(a[0] if a else kw.get('loc', 0.0))
        if len(a) + len(kw) == 1:                       # prototype draw
            t = rng.choice([-3.0, -2.0, -1.0, -0.5, 0.0, 0.5, 1.0, 1.5, 2.0, 7.0, mu])
            v = t + rng.choice(eps) * (abs(t) if t else 1.0)
            return float(np.nextafter(t, rng.choice([-9, 9]))) if rng.random() < 0.2 else v
        sigma = float(a[1] if len(a) > 1 else kw.get('scale', 1.0))
        pick = rng.random()
        if pick < 0.35:
            return mu + sigma * rng.gauss(0, 1)
        if pick < 0.6:
            base = float(rng.choice([0, 1, 2, 3, -1, -3, round(mu), round(mu) + 1, max(round(mu) - 1, 0)]))
            return base + rng.choice(eps + [0.999999, -0.999999, 0.5])
        if pick < 0.75:
            return float(rng.choice([0.0, -0.0, 0.99, 1.0, 1.01, -0.5, -7.25, 2.0 - 2.0 ** -51]))
        return mu + rng.choice([-1, 1]) * rng.choice([0.0, 0.5, sigma, 2 * sigma, 3.9 * sigma, 4.1 * sigma, mu - 1, mu])
    return answer


# ------------------------------------------------------------------------------------------------
# driving the implementation

def make_params(recipe):
    p = get_param_defaults()
    p.update(waiting_seconds_mean=recipe['wsm'], num_pipelines=recipe['np'], num_operators=recipe['nops'],
             cpu_io_ratio=recipe['ratio'], random_seed=recipe['seed'], interactive_prob=recipe['probs'][0],
             query_prob=recipe['probs'][1], batch_prob=recipe['probs'][2], ticks_per_second=recipe['tps'])
    return p


def seg_proto(seg):
    """index of a real Segment in the documented table, None when it is none of them"""
    key = (seg.baseline_cpu_seconds, LAW_OF_FUNC.get(id(seg.scaling_func)), seg.storage_read_gb)
    if seg.memory_gb is not None:
        return None
    for i, pr in enumerate(PROTOS + [QUERY_PROTO]):
        if key == pr:
            return i
    return None


def pipe_struct(p):
    """(id string, priority value, [(parent indices, [prototype index or None per segment])]) of a real Pipeline"""
    ops = [p.values.node_lookup[i] for i in p.values.node_ids]
    pos = {id(o): k for k, o in enumerate(ops)}
    out = []
    for o in ops:
        out.append(([pos.get(id(q), 97) for q in o.parents], [seg_proto(s) for s in o.values]))
    return p.pipeline_id, int(p.priority.value), out


def drive(recipe, rec_factory):
    """-> (generator, recorder, per-tick list of pipe_struct lists, stopped_early)"""
    g = WorkloadGenerator(**make_params(recipe))
    rec = rec_factory(g.rng)
    g.rng = rec
    ticks = []
    stopped = False
    for _ in range(recipe['nticks']):
        try:
            ticks.append([pipe_struct(p) for p in g.run_one_tick()])
        except StreamError:
            stopped = True
            break
    return g, rec, ticks, stopped


def enc_draws(log):
    out = [len(log)]
    for kind, a, kw, r in log:
        if kind == 'choice':
            out += [0, int(r)]
        elif kind == 'normal':
            mu = a[0] if a else kw.get('loc', 0.0)
            out += [1] + Q(mu) + Q(float(r))
        else:
            out += [2]
    return out


def enc_udraws(log, uinfo):
    out = [len(log)]
    for i, (kind, a, kw, r) in enumerate(log):
        if kind == 'choice' and i in uinfo:
            out += [2] + Q(uinfo[i][0])
        elif kind == 'normal':
            mu = a[0] if a else kw.get('loc', 0.0)
            out += [1] + Q(mu) + Q(float(r))
        else:
            out += [3]
    return out


def id_number(s):
    return int(s[1:]) if isinstance(s, str) and s[:1] == 'p' and s[1:].isdigit() else -1


def enc_ticks(ticks):
    def op(o):
        parents, protos = o
        pr = 98 if len(protos) != 1 else (99 if protos[0] is None else protos[0])
        return enc_list(parents) + [pr]
    return enc_list(ticks, lambda b: enc_list(b, lambda p: [id_number(p[0]), p[1]] + enc_list(p[2], op)))


def ladder_index(v):
    v = F(v)
    for i, t in enumerate(LADDER):
        if v < t:
            return i
    return 6


# ------------------------------------------------------------------------------------------------
# the monitor: the property statement on what the implementation did (no model involved)

def monitor(recipe, g, log, ticks, seeded, uinfo=None):
    np_, probs = recipe['np'], [F(x) for x in recipe['probs']]
    hits = []

    def hit(sig, desc):
        hits.append(dict(desc=desc, signature=sig, recipe=recipe, gen=recipe['gen']))

    exact = F(recipe['wsm']) * recipe['tps']
    if not (exact - 1 - abs(exact) * F(1, 2 ** 50) <= g.waiting_ticks_mean <= exact + abs(exact) * F(1, 2 ** 50)):
        hit('wait-mean', f'waiting_ticks_mean={g.waiting_ticks_mean} for waiting_seconds_mean*tps={float(exact)}')
    seen = set()
    cur = [0]
    events = [t for t, b in enumerate(ticks) if b]

    def nxt(kind):
        if cur[0] >= len(log):
            return None
        e = log[cur[0]]
        cur[0] += 1
        return e if e[0] == kind else None

    def args(e):
        return tuple(float(x) for x in e[1]) + tuple(sorted((k, float(v)) for k, v in e[2].items()))

    stream_ok = True
    for n, t in enumerate(events):
        b = ticks[t]
        if len(b) != np_:
            hit('batch-size', f'tick {t}: arrival event delivers {len(b)} pipelines, num_pipelines={np_}')
        for pid, prio, ops in b:
            if pid in seen:
                hit('fresh-ids', f'tick {t}: pipeline id {pid} was already used')
            seen.add(pid)
            for k, (parents, protos) in enumerate(ops):
                if len(protos) != 1:
                    hit('one-segment', f'tick {t}: {pid} operator {k} has {len(protos)} segments')
                elif protos[0] is None:
                    hit('prototype', f'tick {t}: {pid} operator {k} has a segment that is none of the documented prototypes')
            if prio == QUERY:
                if len(ops) != 1 or ops[0][0]:
                    hit('query-single-op', f'tick {t}: query pipeline {pid} has {len(ops)} operators')
                elif ops[0][1] != [7]:
                    hit('query-proto', f'tick {t}: query pipeline {pid} does not use the query prototype')
            else:
                if len(ops) < 1:
                    hit('chain', f'tick {t}: pipeline {pid} has no operator')
                for k, (parents, protos) in enumerate(ops):
                    if parents != ([k - 1] if k else []):
                        hit('chain', f'tick {t}: {pid} operator {k} has parents {parents}, a chain needs {[k - 1] if k else []}')
                if ops and ops[0][1] != [0]:
                    hit('first-op-io-heavy', f'tick {t}: {pid} first operator has prototype {ops[0][1]}, not the I/O-heavy one')
            if seeded and sum(probs) > 0:
                pv = dict(zip([INTERACTIVE, QUERY, BATCH], probs))
                if pv.get(prio) == 0:
                    hit('prob-zero', f'tick {t}: {pid} has priority {prio} whose configured probability is 0')
                for v, pr in pv.items():
                    if pr == sum(probs) and prio != v:
                        hit('prob-one', f'tick {t}: {pid} has priority {prio} although class {v} has probability 1')
            # the draws behind this pipeline, by the documented rule
            if not stream_ok:
                continue
            e = nxt('choice')
            if e is None:
                stream_ok = False
                hit('rng-calls', f'tick {t}: {pid} was not preceded by a class draw')
                continue
            a_arg = list(e[2].get('a', e[1][0] if e[1] else []))
            p_arg = [float(x) for x in e[2].get('p', [])]
            want_p = [float(x / sum(probs)) for x in probs] if sum(probs) else None
            if a_arg != [INTERACTIVE, QUERY, BATCH] or want_p is None or len(p_arg) != 3 or \
                    any(abs(x - y) > 1e-12 for x, y in zip(p_arg, want_p)):
                hit('rng-calls', f'class draw with a={a_arg} p={p_arg}, configured (interactive, query, batch)={recipe["probs"]}')
            if int(e[3]) != prio:
                hit('rng-calls', f'tick {t}: {pid} has priority {prio}, the class draw returned {int(e[3])}')
            if uinfo is not None:
                # the class drawn from the uniform double u that choice consumed: class k is chosen exactly when
                # cdf_{k-1} <= u < cdf_k for the cumulative configured probabilities (exact rationals of the configured
                # doubles, divided by their sum), up to a relative slack of 1e-12 for the float rounding of the cdf;
                # a class of probability 0 never
                info = uinfo.get(cur[0] - 1)
                order = [INTERACTIVE, QUERY, BATCH]
                fp = [F(float(x)) for x in recipe['probs']]
                if info is None:
                    hit('choice-u', f'tick {t}: class draw of {pid} without a predicted uniform')
                elif int(e[3]) not in order or sum(fp) <= 0:
                    hit('choice-cdf', f'tick {t}: class draw returned {e[3]!r}, not one of {order}')
                else:
                    u, same_state, _ = info
                    k = order.index(int(e[3]))
                    lo, hi, slack = sum(fp[:k]) / sum(fp), sum(fp[:k + 1]) / sum(fp), F(1, 10 ** 12)
                    if not same_state:
                        hit('choice-state', f'tick {t}: class draw of {pid}: the generator state after choice is not the '
                            'state after one random()')
                    if fp[k] == 0:
                        hit('choice-zero', f'tick {t}: u={u!r} selected class {k} (priority {int(e[3])}) whose configured '
                            f'probability is 0, probs={recipe["probs"]}')
                    if not (lo * (1 - slack) <= F(u) < hi * (1 + slack)):
                        hit('choice-cdf', f'tick {t}: u={u!r} selected class {k} (priority {int(e[3])}), whose interval is '
                            f'[{float(lo)!r}, {float(hi)!r}) for probs={recipe["probs"]}')
                    if [float(x) for x in e[2].get('p', [])] != [float(x) for x in g.priority_probs]:
                        hit('rng-calls', f'tick {t}: class draw with p={p_arg}, priority_probs={list(g.priority_probs)}')
            if prio == QUERY:
                continue
            e = nxt('normal')
            nops = g.num_operators
            if e is None or args(e) != (float(nops), float(nops) / 4):
                stream_ok = False
                hit('rng-calls', f'tick {t}: operator count of {pid} not drawn as normal(num_operators, num_operators/4)')
                continue
            want = max(1, int(e[3]))
            if len(ops) != want:
                hit('op-count', f'tick {t}: {pid} has {len(ops)} operators, the draw {e[3]!r} gives {want}')
            for k in range(1, len(ops)):
                e = nxt('normal')
                if e is None or args(e) != (float(recipe['ratio']),):
                    stream_ok = False
                    hit('rng-calls', f'tick {t}: {pid} operator {k}: prototype not drawn as normal(cpu_io_ratio)')
                    break
                w = max(ladder_index(e[3]), 1)
                if ops[k][1] != [w]:
                    hit('ladder', f'tick {t}: {pid} operator {k} has prototype {ops[k][1]}, the draw {e[3]!r} selects {w}')
        if not stream_ok:
            continue
        e = nxt('normal')
        wm = g.waiting_ticks_mean
        if e is None or args(e) != (float(wm), float(wm) / 4):
            stream_ok = False
            hit('rng-calls', f'tick {t}: gap not drawn as normal(waiting_ticks_mean, waiting_ticks_mean/4)')
            continue
        w = int(e[3]) if int(e[3]) > 0 else wm
        if n + 1 < len(events):
            gap = events[n + 1] - t
            if gap < 1:
                hit('gap', f'events at ticks {t} and {events[n + 1]}')
            if gap != w + 1:
                hit('gap', f'events at ticks {t} and {events[n + 1]}: gap {gap}, the draw {e[3]!r} (mean {wm}) gives {w + 1}')
        elif len(ticks) - t > w + 1:
            hit('gap', f'no event within {len(ticks) - t} ticks after tick {t}, the draw {e[3]!r} (mean {wm}) gives {w + 1}')
    if events and events[0] != 0:
        hit('gap', f'first arrival at tick {events[0]}, not 0')
    if stream_ok and cur[0] != len(log):
        hit('rng-calls', f'{len(log) - cur[0]} rng calls beyond those the documented procedure makes')
    if any(e[0] not in ('choice', 'normal') for e in log):
        hit('rng-calls', 'rng method other than choice/normal used: ' + str({e[0] for e in log} - {'choice', 'normal'}))
    return hits


# ------------------------------------------------------------------------------------------------
# cases

def run_case(recipe):
    mode = recipe['gen']
    if mode == 'G-bad':
        base = dict(recipe, gen='G-gen')
        g0, rec0, ticks0, _ = drive(base, lambda real: Recorder(real=real))
        stream = [(k, r) for k, a, kw, r in rec0.log]
        cut = recipe['cut'] % max(1, len(stream))
        if recipe['how'] == 'truncate':
            stream = stream[:cut]
        else:
            k, r = stream[cut]
            stream[cut] = ('normal', 0.5) if k == 'choice' else ('choice', np.int64(3))
            stream = stream[:cut + 1] + stream[cut + 1:]
        g, rec, ticks, stopped = drive(base, lambda real: Recorder(replay=stream))
        # the model gets the stream with the real mus of the recorded run
        log = []
        for i, (k, r) in enumerate(stream):
            _, a, kw, _ = rec0.log[i]
            if k == rec0.log[i][0]:
                log.append((k, a, kw, r))
            else:
                log.append((k, (0.0,), {}, r) if k == 'normal' else (k, (), {}, r))
        inp = [recipe['np']] + Q(g.num_operators) + Q(recipe['ratio']) + [g.waiting_ticks_mean, recipe['nticks']] + enc_draws(log)
        obs = [-1] if stopped else enc_ticks(ticks) + [len(stream) - rec.pos]
        return dict(kind=KIND, inp=inp, obs=obs, recipe=recipe, gen=mode), [], dict(stopped=stopped, ticks=ticks, log=log, g=g)
    if mode == 'G-gen-u':
        import random
        force = None
        if recipe.get('fseed') is not None:
            force = boundary_forcer(random.Random(f'force/{recipe["seed"]}/{recipe["fseed"]}'))
        g, rec, ticks, stopped = drive(recipe, lambda real: Recorder(real=real, predict_u=True, force=force))
        hits = monitor(recipe, g, rec.log, ticks, seeded=True, uinfo=rec.uinfo)
        user = [x for p in recipe['probs'] for x in Q(float(p))]
        inp = [recipe['np']] + Q(g.num_operators) + Q(recipe['ratio']) + [g.waiting_ticks_mean, recipe['nticks']] + user + \
            enc_udraws(rec.log, rec.uinfo)
        obs = [x for p in g.priority_probs for x in Q(float(p))] + enc_ticks(ticks) + [0]
        return dict(kind=KIND_U, inp=inp, obs=obs, recipe=recipe, gen=mode), hits, \
            dict(stopped=stopped, ticks=ticks, log=rec.log, g=g, uinfo=rec.uinfo)
    if mode == 'G-script':
        import random
        srng = random.Random(f'script/{recipe["seed"]}/{recipe["sseed"]}')
        g, rec, ticks, stopped = drive(recipe, lambda real: Recorder(script=scripted(srng)))
    else:
        g, rec, ticks, stopped = drive(recipe, lambda real: Recorder(real=real))
    hits = monitor(recipe, g, rec.log, ticks, seeded=(mode == 'G-gen'))
    inp = [recipe['np']] + Q(g.num_operators) + Q(recipe['ratio']) + [g.waiting_ticks_mean, recipe['nticks']] + enc_draws(rec.log)
    obs = enc_ticks(ticks) + [0]
    return dict(kind=KIND, inp=inp, obs=obs, recipe=recipe, gen=mode), hits, dict(stopped=stopped, ticks=ticks, log=rec.log, g=g)


PROBS = [(0.3, 0.1, 0.6), (1, 0, 0), (0, 1, 0), (0, 0, 1), (0.5, 0.5, 0), (0, 0.5, 0.5), (0.5, 0, 0.5),
         (1, 1, 1), (0.7, 0.2, 0.1), (0.001, 0.001, 0.998), (0.0, 0.9, 0.1), (2, 1, 1)]
# for G-gen-u: tiny / huge ratios, unnormalised, triples whose float sum depends on the order of the additions
PROBS_U = [(1e-9, 0, 1), (1e-17, 1e-17, 1), (3, 5, 7), (0.1, 0.2, 0.3), (1e-12, 1e-12, 1e-12), (0.124, 0.433, 0.562),
           (0.719, 0.19, 0.342), (1e-200, 1, 1), (1, 1e-16, 1e-16), (0, 1e-20, 1), (1e6, 1, 3), (0.1, 0.7, 0.2),
           (1 / 3, 1 / 3, 1 / 3), (0.25, 0.25, 0.5)]       # (subnormal quotients are outside rnd64's domain)
TPS = [1, 2, 10, 60, 100, 1000, 10 ** 4, 10 ** 5]
GAPS = [0, 0, 1, 1, 2, 3, 5, 8, 13, 25, 60, 120]


def gen_recipe(rng, mode):
    probs = rng.choice(PROBS) if rng.random() < 0.8 else tuple(round(rng.random(), 3) for _ in range(3))
    if sum(probs) == 0:
        probs = (0.3, 0.1, 0.6)
    tps = rng.choice(TPS)
    gap = rng.choice(GAPS)
    if gap == 0:
        wsm = rng.choice([0.4, 0.9, 0.01, 0.0]) / tps          # below one tick
    else:
        wsm = (gap + rng.choice([0, 0, 0.5, 0.25])) / tps        # tps=1: gap 60 / 120 are one / two minutes
    np_ = rng.choice([1, 1, 2, 3, 4, 5, 6])
    nops = rng.choice([1, 2, 3, 4, 5, 6, 7, 8]) if rng.random() < 0.9 else rng.choice([1.5, 2.5, 4.75])
    ratio = rng.choice([0, 0.25, 0.5, 0.75, 1, 0.0, 1.0])
    many = rng.random() < 0.12
    if many:
        # wide arrival events and enough of them for the running counter to pass 100: ids must stay fresh whatever
        # their digits are (an id built from two numbers written next to each other collides only here)
        np_ = rng.choice([10, 11, 12, 13, 21, 25])
        nops = rng.choice([1, 1, 2])
        gap = rng.choice([0, 1, 2])
        wsm = (gap + 0.0) / tps if gap else 0.0
    long_wait = (not many) and rng.random() < 0.06
    if long_wait:
        # minutes of mean wait at the finest tick rates: tens of millions of ticks (only the first event fits the run)
        tps = rng.choice([10 ** 4, 10 ** 5, 10 ** 5])
        wsm = float(rng.choice([150, 180, 600, 3600]))
        gap = 0
    per_event = np_ * (2 + nops) + 1
    n_events = max(2, min(40, int(450 // per_event)))
    if many:
        n_events = rng.randint(12, 16)
    nticks = int(min(400, max(gap + 1, 1) * n_events + rng.choice([0, 1, 3])))
    rec = dict(gen=mode, seed=rng.randrange(2 ** 31), wsm=wsm, np=np_, nops=nops, ratio=ratio, probs=list(probs),
               tps=tps, nticks=nticks)
    if mode == 'G-script':
        rec['sseed'] = rng.randrange(2 ** 31)
        rec['nticks'] = min(nticks, 120)
    if mode == 'G-gen-u':
        k = rng.random()
        if k < 0.25:
            pr = rng.choice(PROBS_U)
        elif k < 0.5:
            pr = tuple(rng.random() * 10 ** rng.randint(-9, 3) for _ in range(3))      # full mantissas, unnormalised
        elif k < 0.65:
            pr = [rng.random(), rng.random(), rng.random()]
            pr[rng.randrange(3)] = 0
            if rng.random() < 0.3:
                pr[rng.randrange(3)] = 0
        else:
            pr = rec['probs']
        if not sum(pr) > 0:
            pr = (0.3, 0.1, 0.6)
        rec['probs'] = list(pr)
        rec['fseed'] = rng.randrange(2 ** 31) if rng.random() < 0.35 else None
    if mode == 'G-bad':
        rec['how'] = rng.choice(['truncate', 'truncate', 'kind'])
        rec['cut'] = rng.randrange(10 ** 6)
        rec['nticks'] = min(nticks, 60)
    return rec


def replay(recipe):
    case, hits, _ = run_case(recipe)
    return case, hits


# ------------------------------------------------------------------------------------------------
# statistical tests (reported; hits only when grossly off)

def stat_run(over, nticks):
    rec = dict(gen='S-stat', seed=1, wsm=1.0, np=4, nops=5, ratio=0.5, probs=[0.3, 0.1, 0.6], tps=10, nticks=nticks)
    rec.update(over)
    g, r, ticks, _ = drive(rec, lambda real: Recorder(real=real))
    return rec, g, ticks


def statistics(ctx, st, hits):
    seed0 = ctx.case_rng('S-stat', 0).randrange(2 ** 31)

    def hit(sig, desc, rec):
        hits.append(dict(desc='statistical test: ' + desc, signature=sig, recipe=rec, gen='S-stat'))
    # class frequencies
    for k, probs in enumerate([(0.3, 0.1, 0.6), (0.7, 0.2, 0.1), (0.5, 0.5, 0), (1, 1, 1), (0.05, 0.9, 0.05)]):
        rec, g, ticks = stat_run(dict(seed=seed0 + k, probs=list(probs), wsm=0.0, np=5, nops=1), 600)
        pr = [p[1] for b in ticks for p in b]
        tot = sum(probs)
        if not pr:
            hit('stat-empty', 'no pipeline in 600 ticks with waiting_seconds_mean=0', rec)
            continue
        for v, name, pv in ((INTERACTIVE, 'interactive', probs[0]), (QUERY, 'query', probs[1]), (BATCH, 'batch', probs[2])):
            f = pr.count(v) / len(pr)
            st[f'stat_class_freq probs={probs} {name}'] = f'{f:.3f} over {len(pr)} pipelines (configured {pv / tot:.3f})'
            if len(pr) >= 2000 and abs(f - pv / tot) > 0.05:
                hit('stat-class-freq', f'class {name} frequency {f:.3f} over {len(pr)} pipelines, configured {pv / tot:.3f}', rec)
    # mean gap
    for k, (tps, m) in enumerate([(10, 8), (100, 20), (1, 60), (1000, 33)]):
        rec, g, ticks = stat_run(dict(seed=seed0 + 10 + k, tps=tps, wsm=m / tps, np=1, nops=1), 260 * (m + 1))
        ev = [t for t, b in enumerate(ticks) if b]
        gaps = [b - a for a, b in zip(ev, ev[1:])]
        if not gaps:
            hit('stat-empty', f'fewer than two arrival events in {len(ticks)} ticks with a mean gap of {m} ticks', rec)
            continue
        mean = sum(gaps) / len(gaps)
        st[f'stat_mean_gap tps={tps} mean_ticks={m}'] = f'{mean:.2f} ticks over {len(gaps)} gaps (min {min(gaps)})'
        if len(gaps) >= 200 and abs(mean - m) > 0.25 * m:
            hit('stat-mean-gap', f'mean gap {mean:.2f} ticks over {len(gaps)} gaps, waiting_seconds_mean is {m} ticks', rec)
    # mean operator count
    for k, n in enumerate([4, 5, 8]):
        rec, g, ticks = stat_run(dict(seed=seed0 + 20 + k, probs=[0.5, 0, 0.5], wsm=0.0, np=4, nops=n), 250)
        cnt = [len(p[2]) for b in ticks for p in b]
        if not cnt:
            hit('stat-empty', 'no pipeline in 250 ticks with waiting_seconds_mean=0', rec)
            continue
        mean = sum(cnt) / len(cnt)
        st[f'stat_mean_ops num_operators={n}'] = f'{mean:.2f} over {len(cnt)} pipelines (min {min(cnt)})'
        if len(cnt) >= 500 and abs(mean - n) > 0.25 * n:
            hit('stat-op-mean', f'mean operator count {mean:.2f} over {len(cnt)} non-query pipelines, num_operators={n}', rec)
    # prototype shift with cpu_io_ratio
    means = []
    for k, r in enumerate([0, 0.5, 1]):
        rec, g, ticks = stat_run(dict(seed=seed0 + 30 + k, probs=[0.5, 0, 0.5], wsm=0.0, np=4, nops=6, ratio=r), 200)
        idx = [o[1][0] for b in ticks for p in b for o in p[2][1:] if len(o[1]) == 1 and o[1][0] is not None]
        m = sum(idx) / max(1, len(idx))
        means.append((r, m, len(idx), rec))
        st[f'stat_mean_proto_later_ops cpu_io_ratio={r}'] = f'{m:.3f} over {len(idx)} operators'
    for (r1, m1, n1, _), (r2, m2, n2, rec) in zip(means, means[1:]):
        if min(n1, n2) >= 2000 and m2 < m1 + 0.1:
            hit('stat-ratio-shift', f'mean prototype index of later operators {m1:.3f} at cpu_io_ratio={r1} and {m2:.3f} at {r2}: '
                'raising the ratio does not shift the mix towards CPU-heavy prototypes', rec)


def run(ctx):
    cases, hits = [], []
    st = collections.Counter()
    seen = set()
    plan = [('G-gen', ctx.budget(500, 12000)), ('G-script', ctx.budget(300, 8000)), ('G-bad', ctx.budget(80, 1500)),
            ('G-gen-u', ctx.budget(400, 10000))]
    for mode, n in plan:
        for i in range(n):
            rng = ctx.case_rng(mode, i)
            rec = gen_recipe(rng, mode)
            try:
                case, h, info = run_case(rec)
            except Exception as e:   # the generator (or reading its objects) raised: report, keep going
                st['driver_exceptions'] += 1
                hits.append(dict(desc=f'driving the generator raised {e!r}', signature='driver-exception',
                                 recipe=rec, gen=mode))
                continue
            if len(case['inp']) + len(case['obs']) > 5000:
                st['dropped_too_large'] += 1
                continue
            cases.append(case)
            hits += h
            st[f'cases_{mode}'] += 1
            if mode == 'G-bad':
                st['bad_stream_stopped'] += info['stopped']
                st['bad_' + rec['how']] += 1
                continue
            ticks, log = info['ticks'], info['log']
            if mode == 'G-gen-u' and len(info['g'].priority_probs) != 3:
                st['u_cases_with_wrong_number_of_classes'] += 1    # (reported by the monitor / the correspondence)
            elif mode == 'G-gen-u':
                pp = [float(x) for x in info['g'].priority_probs]
                fc = np.asarray(pp).cumsum()
                fc = [float(x) for x in fc / fc[-1]]
                st['u_cases_with_forced_boundaries'] += rec['fseed'] is not None
                st['u_cases_sum_order_matters'] += (pp[0] + pp[1]) + pp[2] != pp[0] + (pp[1] + pp[2])
                for i, (u, same, forced) in info['uinfo'].items():
                    st['u_class_draws'] += 1
                    st['u_forced'] += forced
                    st['u_equal_to_cdf_entry'] += u in fc
                    st['u_within_2^-52_of_cdf_entry'] += any(abs(u - c) <= 2.0 ** -52 for c in fc)
                    st['u_zero'] += u == 0.0
                    st['u_largest_below_one'] += u == 1 - 2.0 ** -53
            ev = [t for t, b in enumerate(ticks) if b]
            st['ticks'] += len(ticks)
            st['events'] += len(ev)
            st['draws'] += len(log)
            st[f'tps_{rec["tps"]}'] += 1
            st[f'ratio_{float(rec["ratio"])}'] += 1
            st['mean_below_one_tick'] += info['g'].waiting_ticks_mean == 0
            st['mean_at_least_60_ticks'] += info['g'].waiting_ticks_mean >= 60
            st['zero_probability_configs'] += 0 in rec['probs']
            st['certain_class_configs'] += sorted(rec['probs'])[:2] == [0, 0]
            for a, b in zip(ev, ev[1:]):
                st['gap_1' if b - a == 1 else 'gap_2_9' if b - a < 10 else 'gap_10plus'] += 1
            for b in ticks:
                for pid, prio, ops in b:
                    st['pipelines'] += 1
                    st[f'priority_{prio}'] += 1
                    if prio != QUERY:
                        st['ops_1' if len(ops) == 1 else 'ops_2_5' if len(ops) < 6 else 'ops_6plus'] += 1
                        for o in ops[1:]:
                            st[f'later_op_proto_{o[1][0] if len(o[1]) == 1 else "x"}'] += 1
            for k, a, kw, r in log:
                if k == 'normal' and float(r) in (-1.0, -0.5, 0.0, 0.5, 1.0, 1.5):
                    st['draw_exactly_on_threshold'] += 1
            if len(ev) >= 2:
                seen.add(tuple(case['inp']))
    try:
        statistics(ctx, st, hits)
    except Exception as e:
        hits.append(dict(desc=f'statistical runs raised {e!r}', signature='driver-exception', recipe=None, gen='S-stat'))
    return dict(cases=cases, hits=hits, dist={k: st[k] for k in sorted(st)}, distinct_nontrivial=len(seen),
                rule='G-gen: WorkloadGenerator(**get_param_defaults() overridden) behind a recording rng proxy; seeds x '
                     '(probability triples incl. zeros / certain classes / unnormalised, num_pipelines 1..6 and 10..25, num_operators 1..8 '
                     'and fractional, cpu_io_ratio 0..1, tick rates 1..1e5, mean gap from below one tick to 120 ticks (two '
                     'minutes at 1 tick/s)), <= 400 ticks; G-script: the same with a scripted rng answering boundary values '
                     '(ladder thresholds +- ulp, counts and gaps around 0 and 1); G-bad: truncated / wrong-kind streams replayed '
                     'strictly. Model (kind 15) fed the recorded draws vs. structure read from the real Pipeline objects. '
                     'G-gen-u: as G-gen (plus tiny / unnormalised / order-sensitive probability triples) but the model (kind 25) gets '
                     'the three configured probabilities and, per class draw, the uniform double predicted from a clone of the bit '
                     'generator; it computes priority_probs and every priority itself (float cumsum, division, right-side search); '
                     'in 35% of the cases the PCG64 state is set before class draws so that u is a float cdf entry or a 2^-53 grid '
                     'neighbour. Monitor rule for these: cdf_{k-1} <= u < cdf_k (exact rationals, relative slack 1e-12), no class of '
                     'probability 0, state after choice == state after one random(). '
                     'S-stat: statistical tests of class frequencies, mean gap, mean operator count, prototype shift '
                     '(dist stat_*). non-trivial = distinct inputs with >= 2 arrival events',
                samples=[cases[0]['recipe'], cases[-1]['recipe']] if cases else [])
