"""C12 priority: strict priority order, work conservation, query-only preemption."""
import collections
from fractions import Fraction as F

from harness import simdrv as S
from harness import simprops as SP

ID = 'C12'
BRIDGE_IMPORTS = 'From Eudoxia Require Import Model.SchedSrc.\n'
BRIDGE = [('sched_priority', 'ext_sched_priority = sched_priority_src', 'reflexivity.'),
          ('sched_priority_pool', 'ext_sched_priority_pool = sched_priority_pool_src', 'reflexivity.')]
MASK = S.M_DEC | S.M_RES | S.M_POOLS | S.M_STATES
ASSUMPTIONS = ['"ready, pending operator": state PENDING with all parents COMPLETED, of a pipeline that has arrived; '
               'operators of a retry that the scheduler dropped (FAILED) are not pending']


def waiting_ready(run, rd):
    """ready pending operators left unassigned after the round, per priority class"""
    out = collections.defaultdict(list)
    for k in SP.arrived(run, rd.t):
        lo, n = run.w.first[k], len(run.r['pipes'][k][1])
        for o in range(lo, lo + n):
            if rd.pre[o] == 0 and SP.parents_done(run, rd.pre, o):
                out[run.r['pipes'][k][0]].append(o)
    return out


def fifo_within_class(run, first):
    """first containers in arrival order within a priority class"""
    r = run.r
    order = [k for (_, k) in r['arrivals']]
    for cls in (1, 2, 3):
        served = [k for k in order if r['pipes'][k][0] == cls and k in first]
        for a, b in zip(served, served[1:]):
            if first[a] > first[b]:
                yield (f'priority {cls}: pipeline {b} (arrived later) got its first container at {first[b]} before pipeline {a} '
                       f'at {first[a]}')
        # an earlier arrival of the class that never got a container although a later one did
        for i, k in enumerate(order):
            if r['pipes'][k][0] == cls and k not in first and r['pipes'][k][1]:
                later = [j for j in order[i + 1:] if r['pipes'][j][0] == cls and j in first]
                arr = dict((kk, tt) for tt, kk in r['arrivals'])
                later = [j for j in later if first[j][0] >= arr[k]]
                if later:
                    yield (f'priority {cls}: pipeline {k} never got a container although pipeline {later[0]}, which arrived '
                           f'later, got its first one at {first[later[0]]}')
                    break


def monitor_pp(run):
    """the clauses of C12 that apply to priority-pool: strict order within the shared pool 0 (query before
    interactive) and work conservation: a ready pending operator waits only if the pool it may use (0 for query and
    interactive, 1 for batch) has no free CPU or no free RAM after the round; never a suspension"""
    first = {}
    for rd in SP.rounds(run):
        t = rd.t
        wait = waiting_ready(run, rd)
        for i, a in enumerate(rd.asg):
            if a[0]:
                first.setdefault(SP.pipe_of(run, a[0][0]), (t, i))
        if rd.susp:
            yield f'tick {t}: priority-pool issued {len(rd.susp)} suspension(s)'
        if wait[1] and any(a[3] == 2 for a in rd.asg):
            yield (f'tick {t}: interactive work assigned on the shared pool while ready pending query operators '
                   f'{wait[1][:3]} are left waiting')
        for cls, pi in ((1, 0), (2, 0), (3, 1)):
            if wait[cls]:
                fc, fr = rd.free_after(pi)
                if fc > 0 and fr > 0:
                    yield (f'tick {t}: ready pending operator {wait[cls][0]} of priority {cls} left waiting although '
                           f'pool {pi}, the pool it may use, still has {fc} CPUs and {float(fr)} GB free after the round')
    yield from fifo_within_class(run, first)


def monitor(run):
    r = run.r
    if r['algo'] == 'priority-pool':
        yield from monitor_pp(run)
        return
    first = {}
    susp_cids = set()
    for rd in SP.rounds(run):
        t = rd.t
        wait = waiting_ready(run, rd)
        classes = sorted({a[3] for a in rd.asg})
        # operators that became PENDING again in the previous executor tick (a suspension just ended) are
        # offered from the next round on: the scheduler first has to see the container in suspended_containers
        for hi in (1, 2):
            for lo_ in classes:
                if lo_ > hi and wait[hi]:
                    yield (f'tick {t}: priority-{lo_} work assigned while ready pending operators {wait[hi][:3]} of '
                           f'priority {hi} are left waiting')
        if any(wait.values()):
            for pi in range(r['npools']):
                fc, fr = rd.free_after(pi)
                if fc > 0 and fr > 0:
                    o = [x for v in wait.values() for x in v][0]
                    yield (f'tick {t}: ready pending operator {o} left waiting although pool {pi} still has '
                           f'{fc} CPUs and {float(fr)} GB free after the round')
                    break
        for i, a in enumerate(rd.asg):
            if a[0]:
                first.setdefault(SP.pipe_of(run, a[0][0]), (t, i))
        # suspensions
        if rd.susp:
            active = {c['cid']: c for p in rd.pools_before for c in p['active']}
            for (cid, pool) in rd.susp:
                c = active.get(cid)
                if c is None:
                    yield f'tick {t}: suspension of container {cid} which is not running'
                elif c['prio'] == 1:
                    yield f'tick {t}: query container {cid} suspended'
                elif not c['can_suspend']:
                    yield f'tick {t}: container {cid} suspended away from an operator boundary'
                if cid in susp_cids:
                    yield f'tick {t}: container {cid} suspended twice'
                susp_cids.add(cid)
            # assignable query work left unassigned after the round (an upper bound on waiting query jobs)
            qwait = 0
            for k in SP.arrived(run, t):
                if r['pipes'][k][0] != 1:
                    continue
                lo, n = run.w.first[k], len(r['pipes'][k][1])
                ops = [o for o in range(lo, lo + n) if rd.pre[o] in (0, 5)]
                qwait += (1 if ops else 0) if r['multi'] else len(ops)
            if qwait == 0:
                yield f'tick {t}: {len(rd.susp)} suspension(s) although no query work is waiting'
            elif len(rd.susp) > qwait:
                yield f'tick {t}: {len(rd.susp)} suspensions for {qwait} waiting query job(s)'
    # first containers in arrival order within a priority class (and no earlier arrival left out for good)
    yield from fifo_within_class(run, first)


def replay(recipe):
    return SP.replay(recipe, MASK, monitor, 'priority-contract')


def run(ctx):
    out = SP.run_streams(ctx, MASK, monitor, 'priority-contract', [
        ('G-sim-priority', 200, 3000, dict(algo='priority')),
        ('G-sim-saturate-priority', 60, 1000, dict(saturate='priority')),
        ('G-sim-priority-siblings', 60, 1000, dict(abandon='priority')),
        ('G-sim-priority-branches', 60, 1000, dict(branches='priority')),
        ('G-sim-priority-failready', 40, 800, dict(failready='priority')),
        ('G-sim-twin-preempt', 60, 1200, dict(twin_preempt=True)),
        ('G-sim-ppool', 80, 1500, dict(algo='priority-pool')),
        ('G-sim-saturate-ppool', 60, 1000, dict(saturate='priority-pool')),
    ])
    st = collections.Counter(out['dist'])
    nt = 0
    for i in range(ctx.budget(200, 3000)):
        rng = ctx.case_rng('G-sim-preempt', i)
        recipe = S.gen_preempt(rng)
        case, run_ = S.drive(recipe, MASK)
        out['cases'].append(case)
        SP.stats_of(run_, st)
        st['runs_with_suspension'] += any(d['susp'] for d in run_.ticks)
        for desc in monitor(run_):
            out['hits'].append(dict(desc=desc, signature='priority-contract', recipe=recipe, gen='G-sim-preempt'))
            break
        nt += any(d['susp'] for d in run_.ticks)
    out['dist'] = dict(st)
    out['distinct_nontrivial'] += nt
    out['rule'] = ('whole run_simulator runs with the priority scheduler: G-sim (mixed priorities, OOM retries, both container '
                   'modes, 1-4 pools) and G-sim-preempt (pools saturated by batch chains with frequent operator boundaries, '
                   'query arrivals while nothing is free; tick rates such that suspensions last 1, 2, 10.. ticks); compared '
                   'per tick: decisions, results, free resources, operator states. non-trivial = runs with an assignment '
                   '(+ runs with a suspension)')
    return out
