"""C14 Trace files round-trip: what is written is what is read, for any pipeline DAG.

Correspondence at the level of parsed cells (coq/Model/Csv.v): kind 24 = the rows the real writer emits
for real Pipeline objects, kind 14 = the pipelines (or the refusal) the real reader produces for a file.
The monitor judges the property text directly on what the implementation did."""
import collections
import copy
import csv
import io
import json
import math
from fractions import Fraction

from harness.impl import Q, enc_list, PRIO
from eudoxia.workload.pipeline import Pipeline, Segment
from eudoxia.workload.csv_io import CSVWorkloadReader, CSVWorkloadWriter, WorkloadTraceGenerator
from eudoxia.workload.workload import WorkloadTrace

ID = 'C14'
KIND_READ, KIND_WRITE = 14, 24
KIND_LAZY = 34
LAWS = ['const', 'log', 'sqrt', 'linear3', 'linear7', 'squared', 'exp']     # Timing.law_table order
LAW_IDX = {n: i for i, n in enumerate(LAWS)}
PRIO_NAME = {1: 'QUERY', 2: 'INTERACTIVE', 3: 'BATCH_PIPELINE'}
PRIO_CODE = {v: k for k, v in PRIO_NAME.items()}
FIELDS = ['pipeline_id', 'arrival_seconds', 'priority', 'operator_id', 'parents', 'baseline_cpu_seconds',
          'cpu_scaling', 'memory_gb', 'storage_read_gb']
NUMERIC = ['arrival_seconds', 'baseline_cpu_seconds', 'memory_gb', 'storage_read_gb']

BRIDGE = [
    ('law_names', 'ext_law_names = map fst law_table', 'reflexivity.'),
    ('priorities', 'ext_priorities = [(Query, 1%Z); (Interactive, 2%Z); (Batch, 3%Z)]', 'reflexivity.'),
    ('csv_fields', 'ext_csv_fields = csv_fields', 'reflexivity.'),
    ('csv_parse_exprs', 'ext_csv_parse_exprs = csv_parse_exprs', 'reflexivity.'),
]
BRIDGE_IMPORTS = 'From Eudoxia Require Import Model.Timing Model.Csv.\n'
ASSUMPTIONS = [
    'cell level: the csv module (quoting, DictReader/DictWriter), float(str) and repr(float) are below the model; '
    'they are exercised by every case but not modelled',
    'operators hold exactly one segment (the writer raises otherwise) and pipelines at least one operator '
    '(a pipeline without operators produces no row and is therefore absent after a round trip)',
    'a refusal is any exception raised while the whole file is consumed (batch_by_pipeline is a generator: pipelines '
    'before the offending one have already been yielded)',
]
# the extractor items live in harness/extract_c14.py until they are merged into extract_more.py; the two csv
# obligations need Model.Csv imported in the bridge files (common.build_bridge(..., extra_imports))
import inspect                                                   # noqa: E402
from harness import common as _C, extract_more as _EM, extract_c14 as _E14   # noqa: E402
for _it in _E14.ITEMS:
    if _it[0] not in [n for n, _ in _EM.ITEMS]:
        _EM.ITEMS.append(_it)
if 'extra_imports' not in inspect.signature(_C.build_bridge).parameters:
    BRIDGE = BRIDGE[:2]
    ASSUMPTIONS.append('bridge obligations csv_fields / csv_parse_exprs NOT checked: common.build_bridge has no '
                       'extra_imports parameter')

MUST_REFUSE = ('first_no_priority', 'first_no_arrival', 'later_priority', 'later_arrival', 'unknown_priority',
               'unknown_law', 'undefined_parent')
SAME_STRUCTURE = ('none', 'ws_parents', 'ws_priority', 'ws_arrival', 'reorder_columns', 'blank_pieces',
                  'number_format', 'rename_ids', 'semicolon_only')
OTHER_VARIATIONS = ('duplicate_operator_id', 'repeat_pipeline_id', 'merge_adjacent', 'memory_text',
                    'duplicate_parent', 'drop_memory_column', 'space_in_operator_id')


# ----------------------------------------------------------------------------------------------
# real objects

def build_pipeline(spec, name):
    p = Pipeline(name, PRIO[spec['prio']])
    ops = []
    for o in spec['ops']:
        op = p.new_operator([ops[j] for j in o['parents']] if o['parents'] else None)
        op.add_segment(Segment(baseline_cpu_seconds=o['cpu'], cpu_scaling=o['law'], memory_gb=o['mem'],
                               storage_read_gb=o['read']))
        ops.append(op)
    return p


def struct_of(pipeline, arrival):
    """what the property talks about, read off a real Pipeline object"""
    ops = list(pipeline.values.node_lookup.values())
    idx = {id(o): i for i, o in enumerate(ops)}
    out = []
    for o in ops:
        segs = o.get_segments()
        if len(segs) != 1:
            raise RuntimeError('operator without exactly one segment')
        s = segs[0]
        names = [n for n, f in Segment.SCALING_FUNCS.items() if f == s.scaling_func]
        out.append(dict(parents=[idx[id(q)] for q in o.parents], cpu=s.baseline_cpu_seconds, law=names[0],
                        mem=s.memory_gb, read=s.storage_read_gb))
    return dict(pid=pipeline.pipeline_id, prio=PRIO_CODE[pipeline.priority.name], arrival=arrival, ops=out)


class StubWorkload:
    def __init__(self, per_tick):
        self.per_tick, self.t = per_tick, 0

    def run_one_tick(self):
        r = self.per_tick[self.t] if self.t < len(self.per_tick) else []
        self.t += 1
        return r


def write_real(recipe):
    """real writer; returns (text, [(arrival, spec)] in writing order)"""
    buf = io.StringIO()
    w = CSVWorkloadWriter(buf)
    flat = []
    if recipe['mode'] == 'generate':
        tps = recipe['tps']
        per_tick = [[build_pipeline(s, 'x') for s in tick] for tick in recipe['ticks']]
        g = WorkloadTraceGenerator(StubWorkload(per_tick), tps, (len(per_tick) + 0.5) / tps)
        n = 0
        for row in g.generate_rows():
            w.write_row(row)
            n += 1
        for t, tick in enumerate(recipe['ticks']):
            flat += [(t * (1.0 / tps), s) for s in tick]
        if n != sum(len(s['ops']) for _, s in flat):
            raise RuntimeError('generate_rows did not emit one row per operator')
    else:
        g = WorkloadTraceGenerator(StubWorkload([]), 1, 0)
        for k, (arr, s) in enumerate(recipe['pipes']):
            for row in g._pipeline_to_rows(build_pipeline(s, 'x'), f'p{k + 1}', arr):
                w.write_row(row)
            flat.append((arr, s))
    return buf.getvalue(), flat


def read_real(text):
    """real reader: ('ok', [struct]) or ('refused', exception text)"""
    try:
        arrivals = list(CSVWorkloadReader(io.StringIO(text)).batch_by_pipeline())
    except Exception as e:                                       # noqa: BLE001  any exception = refused
        return 'refused', f'{type(e).__name__}: {e}'
    return 'ok', [struct_of(a.pipeline, a.arrival_seconds) for a in arrivals]


def rewrite_real(text):
    """read with the real reader, write again with the real writer (pipeline k named p{k+1}, arrival as read)"""
    arrivals = list(CSVWorkloadReader(io.StringIO(text)).batch_by_pipeline())
    buf = io.StringIO()
    w = CSVWorkloadWriter(buf)
    g = WorkloadTraceGenerator(StubWorkload([]), 1, 0)
    for k, a in enumerate(arrivals):
        for row in g._pipeline_to_rows(a.pipeline, f'p{k + 1}', a.arrival_seconds):
            w.write_row(row)
    return buf.getvalue()


# ----------------------------------------------------------------------------------------------
# cells: the harness's own reading of a file text (csv module + float), tokens by first appearance

class Unparseable(Exception):
    pass


def cells_of_text(text):
    rd = csv.DictReader(io.StringIO(text))
    pid_tok, op_tok = {}, {}
    rows = []
    for d in rd:
        if any(v is None for v in d.values()) or None in d:
            raise Unparseable('ragged row')

        def num(s):
            try:
                return float(s)
            except ValueError:
                raise Unparseable('non-numeric cell ' + repr(s))
        arr = d.get('arrival_seconds', '').strip()
        prio = d.get('priority', '').strip()
        parents = d.get('parents', '').strip()
        mem = d.get('memory_gb')
        law = d['cpu_scaling']
        rows.append(dict(
            pid=pid_tok.setdefault(d['pipeline_id'], len(pid_tok)),
            arr=num(arr) if arr else None,
            prio=0 if not prio else PRIO_CODE.get(prio, 4),
            op=op_tok.setdefault(d['operator_id'], len(op_tok)),
            parents=[op_tok.setdefault(p.strip(), len(op_tok)) for p in parents.split(';') if p.strip()],
            cpu=num(d['baseline_cpu_seconds']),
            law=LAW_IDX.get(law, 7),
            mem=num(mem) if mem else None,
            read=num(d['storage_read_gb'])))
    return rows, pid_tok


def enc_opt(x):
    return [0] if x is None else [1] + Q(x)


def enc_row(r):
    return [r['pid']] + enc_opt(r['arr']) + [r['prio'], r['op']] + enc_list(r['parents']) + Q(r['cpu']) \
        + [r['law']] + enc_opt(r['mem']) + Q(r['read'])


def enc_op(o):
    return enc_list(o['parents']) + Q(o['cpu']) + [LAW_IDX[o['law']]] + enc_opt(o['mem']) + Q(o['read'])


def enc_pipe_in(arr, spec):
    return [spec['prio']] + Q(arr) + enc_list(spec['ops'], enc_op)


def enc_read_result(status, structs, pid_tok):
    if status != 'ok':
        return [11]
    return [0] + enc_list(structs, lambda s: [pid_tok[s['pid']], s['prio']] + Q(s['arrival'])
                          + enc_list(s['ops'], enc_op))


# ----------------------------------------------------------------------------------------------
# monitor (model-independent)

def same_num(a, b):
    if a is None or b is None:
        return a is None and b is None
    return a == b


def struct_diff(want, got):
    """first difference between the pipelines written and the pipelines read, in the property's terms"""
    if len(want) != len(got):
        return f'{len(want)} pipelines written, {len(got)} read'
    for k, (w, g) in enumerate(zip(want, got)):
        if w['prio'] != g['prio']:
            return f'pipeline {k}: priority {PRIO_NAME[w["prio"]]} became {PRIO_NAME[g["prio"]]}'
        if not same_num(w['arrival'], g['arrival']):
            return f'pipeline {k}: arrival {w["arrival"]!r} became {g["arrival"]!r}'
        if len(w['ops']) != len(g['ops']):
            return f'pipeline {k}: {len(w["ops"])} operators became {len(g["ops"])}'
        for i, (a, b) in enumerate(zip(w['ops'], g['ops'])):
            if set(a['parents']) != set(b['parents']):
                return f'pipeline {k} operator {i}: parents {sorted(set(a["parents"]))} became {sorted(set(b["parents"]))}'
            if not same_num(a['cpu'], b['cpu']):
                return f'pipeline {k} operator {i}: cpu seconds {a["cpu"]!r} became {b["cpu"]!r}'
            if a['law'] != b['law']:
                return f'pipeline {k} operator {i}: scaling law {a["law"]} became {b["law"]}'
            if not same_num(a['mem'], b['mem']):
                return f'pipeline {k} operator {i}: memory_gb {a["mem"]!r} became {b["mem"]!r}'
            if not same_num(a['read'], b['read']):
                return f'pipeline {k} operator {i}: read size {a["read"]!r} became {b["read"]!r}'
    return None


def table_of(text):
    rd = csv.reader(io.StringIO(text))
    rows = list(rd)
    return rows[0] if rows else [], rows[1:]


def rows_diff(orig, again):
    """read->write: every row equals the original apart from the arrival column; a numeric cell is compared
    as text when the original is in repr(float) form, by value otherwise"""
    h1, r1 = table_of(orig)
    h2, r2 = table_of(again)
    if h1 != h2:
        return f'header {h1} became {h2}'
    if len(r1) != len(r2):
        return f'{len(r1)} rows became {len(r2)}'
    for n, (a, b) in enumerate(zip(r1, r2)):
        for col, x, y in zip(h1, a, b):
            if col == 'arrival_seconds':
                continue
            if x == y:
                continue
            if col in NUMERIC and x.strip() and y.strip():
                try:
                    if repr(float(x)) != x and float(x) == float(y):
                        continue
                except ValueError:
                    pass
            return f'row {n + 1} column {col}: {x!r} became {y!r}'
    return None


def monitor_roundtrip(recipe, text, flat, status, structs):
    hits = []

    def hit(desc, sig):
        hits.append(dict(desc=desc, signature=sig, recipe=recipe, gen=recipe['gen']))
    want = [dict(prio=s['prio'], arrival=arr, ops=s['ops']) for arr, s in flat if s['ops']]
    if status != 'ok':
        hit(f'a file produced by the writer is refused by the reader: {structs}', 'written-file-refused')
        return hits
    d = struct_diff(want, structs)
    if d:
        hit('write->read changes the workload: ' + d, 'write-read-differs')
    try:
        again = rewrite_real(text)
        d = rows_diff(text, again)
        if d:
            hit('read->write does not reproduce the file: ' + d, 'read-write-differs')
        third = rewrite_real(again)
        if third != again:
            d = rows_diff(again, third) or 'arrival column differs'
            hit('read->write of a file in repr(float) form is not the identity: ' + d, 'read-write-differs')
    except Exception as e:                                       # noqa: BLE001
        hit(f'read->write raised {type(e).__name__}: {e}', 'read-write-raises')
    return hits


# ----------------------------------------------------------------------------------------------
# generators

def gen_number(rng, allow_int=True):
    c = rng.random()
    if c < 0.12:
        return rng.choice([0, 0.0]) if allow_int else 0.0
    if c < 0.30:
        v = rng.randint(1, 500)
        return v if (allow_int and rng.random() < 0.5) else float(v)
    if c < 0.55:
        return round(rng.uniform(0, 100), rng.randint(1, 6))
    if c < 0.70:
        return rng.random() * rng.choice([1, 10, 1000])            # full 53-bit mantissa
    if c < 0.80:
        return rng.choice([1e-9, 2.5e-7, 1e-12, 3.3e-9])
    if c < 0.90:
        return rng.choice([1e12, 123456789012.345, 1e15, 2.0 ** 40])
    return rng.choice([0.1, 0.2 + 0.1, 1 / 3, 55, 0.57, 1e-3])


def gen_spec(rng, nmax=8):
    n = rng.choice([1, 1, 2, 3, 4, 5, 6, 7, 8][:nmax + 1])
    p = rng.choice([0.15, 0.4, 0.7])
    ops = []
    for j in range(n):
        parents = [i for i in range(j) if rng.random() < p]
        rng.shuffle(parents)
        if parents and rng.random() < 0.05:
            parents.append(rng.choice(parents))                     # new_operator([a, b, a])
        m = rng.random()
        mem = None if m < 0.4 else (rng.choice([0, 0.0]) if m < 0.6 else gen_number(rng))
        ops.append(dict(parents=parents, cpu=gen_number(rng), law=rng.choice(LAWS), mem=mem, read=gen_number(rng)))
    return dict(prio=rng.choice([1, 2, 3]), ops=ops)


def gen_valid(rng, small=False):
    nmax = 5 if small else 8
    if rng.random() < 0.5:
        tps = rng.choice([1, 2, 3, 7, 10, 60, 100, 1000])
        ticks = [[gen_spec(rng, nmax) for _ in range(rng.choice([0, 0, 1, 1, 2, 3]))]
                 for _ in range(rng.randint(1, 3 if small else 5))]
        if rng.random() < 0.9 and not any(ticks):
            ticks[-1].append(gen_spec(rng, nmax))
        return dict(gen='G-csv', mode='generate', tps=tps, ticks=ticks)
    pipes = []
    arr = float(gen_number(rng))
    for _ in range(rng.randint(1, 3 if small else 6)):
        if rng.random() < 0.5:
            arr = gen_number(rng)                                   # otherwise: same arrival time again
        pipes.append([arr, gen_spec(rng, nmax)])
    return dict(gen='G-csv', mode='direct', pipes=pipes)


def text_of_table(header, rows):
    buf = io.StringIO()
    w = csv.writer(buf)
    w.writerow(header)
    for r in rows:
        w.writerow([r[c] for c in header])
    return buf.getvalue()


def mutate(text, mut):
    """apply one malformation / variation to a valid file; returns (text, kind actually applied)"""
    rd = csv.DictReader(io.StringIO(text))
    header = list(rd.fieldnames or FIELDS)
    rows = [dict(r) for r in rd]
    kind, a, b = mut['kind'], mut['a'], mut['b']
    groups = []
    for i, r in enumerate(rows):
        if groups and rows[groups[-1][0]]['pipeline_id'] == r['pipeline_id']:
            groups[-1].append(i)
        else:
            groups.append([i])
    firsts = [g[0] for g in groups]
    laters = [i for g in groups for i in g[1:]]
    with_parents = [i for i, r in enumerate(rows) if r['parents']]

    def pick(l, k=a):
        return l[k % len(l)]
    if not rows:
        return text, 'none'
    if kind == 'first_no_priority':
        rows[pick(firsts)]['priority'] = pick(['', ' ', '  '], b)
    elif kind == 'first_no_arrival':
        rows[pick(firsts)]['arrival_seconds'] = pick(['', ' '], b)
    elif kind == 'later_priority':
        if not laters:
            return text, 'none'
        rows[pick(laters)]['priority'] = pick(['QUERY', 'INTERACTIVE', 'BATCH_PIPELINE', 'junk'], b)
    elif kind == 'later_arrival':
        if not laters:
            return text, 'none'
        rows[pick(laters)]['arrival_seconds'] = pick(['0', '0.0', '1.5', ' 2 '], b)
    elif kind == 'unknown_priority':
        rows[pick(firsts)]['priority'] = pick(['URGENT', 'query', 'Query', 'BATCH', '1', 'Priority.QUERY'], b)
    elif kind == 'unknown_law':
        rows[pick(list(range(len(rows))))]['cpu_scaling'] = pick(['cubic', 'Const', ' const', 'linear', 'linear3 ', ''], b)
    elif kind == 'undefined_parent':
        i = pick(list(range(len(rows))))
        g = [g for g in groups if i in g][0]
        own = rows[i]['operator_id']
        later_ids = [rows[j]['operator_id'] for j in g if j > i]
        other = [rows[j]['operator_id'] for gg in groups if gg is not g for j in gg
                 if rows[j]['operator_id'] not in [rows[x]['operator_id'] for x in g if x < i]]
        cands = ['op99', own] + later_ids[:1] + other[:1]
        bad = pick(cands, b)
        if bad in [rows[j]['operator_id'] for j in g if j < i]:
            bad = 'op99'
        rows[i]['parents'] = (rows[i]['parents'] + ';' + bad) if (rows[i]['parents'] and b % 2) else bad
    elif kind == 'ws_parents':
        if not with_parents:
            return text, 'none'
        i = pick(with_parents)
        rows[i]['parents'] = pick(['  {} ', ' {}', '{}\t'], b).format(' ; '.join(rows[i]['parents'].split(';')))
    elif kind == 'ws_priority':
        i = pick(firsts)
        rows[i]['priority'] = pick([' {}', '{} ', '\t{}  '], b).format(rows[i]['priority'])
        if laters:
            rows[pick(laters)]['priority'] = ' '
    elif kind == 'ws_arrival':
        i = pick(firsts)
        rows[i]['arrival_seconds'] = pick([' {}', '{} ', '  {}  '], b).format(rows[i]['arrival_seconds'])
        if laters:
            rows[pick(laters)]['arrival_seconds'] = '  '
    elif kind == 'reorder_columns':
        import random
        random.Random(a * 31 + b).shuffle(header)
    elif kind == 'blank_pieces':
        if not with_parents:
            return text, 'none'
        i = pick(with_parents)
        ps = rows[i]['parents'].split(';')
        rows[i]['parents'] = pick([';' + ';;'.join(ps), ';;'.join(ps) + ';', '; ;'.join(ps) + '; '], b)
    elif kind == 'semicolon_only':
        roots = [i for i, r in enumerate(rows) if not r['parents']]
        rows[pick(roots)]['parents'] = pick([';', ' ; ', ';;'], b)
    elif kind == 'number_format':
        i = pick(list(range(len(rows))))
        for c in NUMERIC:
            if rows[i][c]:
                v = float(rows[i][c])
                forms = ['%r' % v, '%.17g' % v, ' %r ' % v, '%.20e' % v]
                if v == int(v) and abs(v) < 1e15:
                    forms.append(str(int(v)))
                rows[i][c] = pick(forms, b)
    elif kind == 'rename_ids':
        names = ['load data', 'a,b', 'say "hi"', 'join-3', 'OP1', '7', 'ünï']
        i = pick(list(range(len(rows))))
        g = [g for g in groups if i in g][0]
        old, new = rows[i]['operator_id'], pick(names, b)
        for j in g:
            if rows[j]['operator_id'] == old:
                rows[j]['operator_id'] = new
            rows[j]['parents'] = ';'.join(new if p == old else p for p in rows[j]['parents'].split(';'))
        newp = pick(['night batch', 'P,1', 'x'], b)
        g2 = pick(groups, a + 1)
        if all(rows[gg[0]]['pipeline_id'] != newp for gg in groups):
            for j in g2:
                rows[j]['pipeline_id'] = newp
    elif kind == 'duplicate_operator_id':
        big = [g for g in groups if len(g) >= 2]
        if not big:
            return text, 'none'
        g = pick(big)
        pos = 1 + b % (len(g) - 1)
        rows[g[pos]]['operator_id'] = rows[g[(b // 7) % pos]]['operator_id']
    elif kind == 'repeat_pipeline_id':
        if len(groups) < 3:
            return text, 'none'
        k = 2 + a % (len(groups) - 2)
        for j in groups[k]:
            rows[j]['pipeline_id'] = rows[groups[b % (k - 1)][0]]['pipeline_id']
    elif kind == 'merge_adjacent':
        if len(groups) < 2:
            return text, 'none'
        k = 1 + a % (len(groups) - 1)
        for j in groups[k]:
            rows[j]['pipeline_id'] = rows[groups[k - 1][0]]['pipeline_id']
        if b % 2:                                                   # ... and make it look like a continuation
            rows[groups[k][0]]['priority'] = ''
            rows[groups[k][0]]['arrival_seconds'] = ''
    elif kind == 'memory_text':
        rows[pick(list(range(len(rows))))]['memory_gb'] = pick(['0', '0.0', '', '-0.0', '0e0', ' 0', '00', '1e-9'], b)
    elif kind == 'duplicate_parent':
        if not with_parents:
            return text, 'none'
        i = pick(with_parents)
        ps = rows[i]['parents'].split(';')
        rows[i]['parents'] = ';'.join(ps + [ps[b % len(ps)]])
    elif kind == 'drop_memory_column':
        header.remove('memory_gb')
        if b % 2 and not with_parents:
            header.remove('parents')
    elif kind == 'space_in_operator_id':
        i = pick(list(range(len(rows))))
        rows[i]['operator_id'] = pick([' {}', '{} '], b).format(rows[i]['operator_id'])
    elif kind != 'none':
        raise ValueError(kind)
    return text_of_table(header, rows), kind


def base_specs(base):
    return [s for t in base['ticks'] for s in t] if base['mode'] == 'generate' else [s for _, s in base['pipes']]


def suitable(base, kind):
    """does the valid file offer a place where this mutation applies?"""
    specs = base_specs(base)
    if not specs:
        return False
    if kind in ('later_priority', 'later_arrival', 'duplicate_operator_id'):
        return any(len(s['ops']) >= 2 for s in specs)
    if kind in ('ws_parents', 'blank_pieces', 'duplicate_parent'):
        return any(o['parents'] for s in specs for o in s['ops'])
    if kind == 'repeat_pipeline_id':
        return len(specs) >= 3
    if kind == 'merge_adjacent':
        return len(specs) >= 2
    return True


def gen_malformed(rng):
    kinds = MUST_REFUSE * 2 + SAME_STRUCTURE + OTHER_VARIATIONS
    kind = rng.choice(kinds)
    for _ in range(40):
        base = gen_valid(rng, small=True)
        if suitable(base, kind):
            break
    return dict(gen='G-csv-malformed', base=base, mut=dict(kind=kind, a=rng.randint(0, 999), b=rng.randint(0, 999)))


# ----------------------------------------------------------------------------------------------
# cases

def read_case(recipe, text, expect=None):
    """kind 14 for a file text; returns (case or None, status, structs)"""
    status, structs = read_real(text)
    try:
        rows, pid_tok = cells_of_text(text)
    except Unparseable:
        return None, status, structs
    obs = enc_read_result(status, structs, pid_tok)
    return dict(kind=KIND_READ, inp=enc_list(rows, enc_row), obs=obs, recipe=recipe, gen=recipe['gen']), status, structs


def valid_cases(recipe):
    """both cases of a valid recipe and the round-trip monitor"""
    text, flat = write_real(recipe)
    rows, _ = cells_of_text(text)
    wcase = dict(kind=KIND_WRITE, inp=enc_list(flat, lambda p: enc_pipe_in(p[0], p[1])), obs=enc_list(rows, enc_row),
                 recipe=dict(recipe, part='write'), gen=recipe['gen'])
    rcase, status, structs = read_case(dict(recipe, part='read'), text)
    hits = monitor_roundtrip(recipe, text, flat, status, structs)
    return wcase, rcase, hits, (text, status, structs)


def malformed_case(recipe):
    text, _ = write_real(recipe['base'])
    base_status, base_structs = read_real(text)
    mtext, kind = mutate(text, recipe['mut'])
    case, status, structs = read_case(recipe, mtext)
    hits = []

    def hit(desc, sig):
        hits.append(dict(desc=desc, signature=sig, recipe=recipe, gen=recipe['gen'], detail=mtext[:2000]))
    if kind in MUST_REFUSE and status == 'ok':
        hit(f'a file that breaks the format rule "{kind}" is accepted and loaded as {len(structs)} pipelines '
            f'(mutation {recipe["mut"]})', 'malformed-accepted-' + kind)
    if kind in SAME_STRUCTURE and base_status == 'ok':
        if status != 'ok':
            hit(f'benign variation "{kind}" of a valid file is refused: {structs}', 'variation-refused-' + kind)
        else:
            d = struct_diff(base_structs, structs)
            if d:
                hit(f'benign variation "{kind}" of a valid file is loaded differently: {d}', 'variation-differs-' + kind)
    return case, hits, kind, status


# ----------------------------------------------------------------------------------------------
# the reader as the chain of lazy generators it is (kind 34, coq/Model/CsvLazy.v)

def drive(gen, item):
    """call next() on a real generator until it ends or raises: (items delivered, exception text or None,
    what a further next() after the exception did)"""
    out, raised, after = [], None, None
    while True:
        try:
            x = next(gen)
        except StopIteration:
            break
        except Exception as e:                                   # noqa: BLE001  any exception = refused
            raised = f'{type(e).__name__}: {e}'
            try:
                next(gen)
                after = 'delivered another item'
            except StopIteration:
                after = 'stopped'
            except Exception as e2:                              # noqa: BLE001
                after = f'raised again {type(e2).__name__}'
            break
        out.append(item(x))
    return out, raised, after


def lazy_real(text):
    """what a consumer of batch_by_arrival() and a consumer of batch_by_pipeline() receive, step by step"""
    def one(a):
        return struct_of(a.pipeline, a.arrival_seconds)
    batches, braised, bafter = drive(CSVWorkloadReader(io.StringIO(text)).batch_by_arrival(),
                                     lambda b: [one(a) for a in b])
    pipes, praised, pafter = drive(CSVWorkloadReader(io.StringIO(text)).batch_by_pipeline(), one)
    return dict(batches=batches, braised=braised, bafter=bafter, pipes=pipes, praised=praised, pafter=pafter)


def trace_real(text):
    """the consumer: a real WorkloadTrace over the file (ticks_per_second 1, so get_next_batch_tick() is the
    arrival time), run_one_tick called with current_tick set to thresholds derived from the text (any order,
    the last one infinite): (pipeline ids each call returned, exception text or None, 'init' / call number)"""
    import random
    import zlib
    rng = random.Random(zlib.crc32(text.encode()))
    try:
        arrs = sorted({float(r['arrival_seconds']) for r in csv.DictReader(io.StringIO(text))
                       if (r.get('arrival_seconds') or '').strip()})
    except ValueError:
        arrs = []
    marks = [rng.choice(arrs + [-1.0]) for _ in range(rng.randint(0, 4))] if arrs else []
    if rng.random() < 0.5:
        marks.sort()
    marks.append(float('inf'))
    try:
        wt = CSVWorkloadReader(io.StringIO(text)).get_workload(1)
    except Exception as e:                                       # noqa: BLE001
        return [], f'{type(e).__name__}: {e}', 'init'
    calls = []
    for n, t in enumerate(marks):
        wt.current_tick = t
        try:
            ps = wt.run_one_tick()
        except Exception as e:                                   # noqa: BLE001
            return calls, f'{type(e).__name__}: {e}', n
        calls.append([p.pipeline_id for p in ps])
    return calls, None, None


def monitor_trace(recipe, text, obs, file_is_bad):
    """WorkloadTrace keeps one batch of look-ahead: what run_one_tick returns, call after call, is the
    concatenation of the first m batches batch_by_arrival delivers; if the constructor or a call raises, the file
    breaks a format rule and m is below the number of delivered batches (the batch handed out in the raising call
    is dropped); a good file is returned completely by the final catch-up call"""
    hits = []

    def hit(desc):
        hits.append(dict(desc=desc, signature='trace-lookahead-wrong', recipe=recipe, gen=recipe['gen'],
                         detail=text[:2000]))
    calls, raised, where = trace_real(text)
    got = [x for c in calls for x in c]
    ids = [[s['pid'] for s in b] for b in obs['batches']]
    m, flat = 0, []
    while m < len(ids) and len(flat) < len(got):
        flat += ids[m]
        m += 1
    if flat != got:
        hit(f'run_one_tick returned pipelines {got}, not a concatenation of leading batches of {ids}')
    elif raised and not file_is_bad:
        hit(f'WorkloadTrace raises {raised} at {where} on a file that breaks no format rule')
    elif raised and m > max(0, len(ids) - 1):
        hit(f'WorkloadTrace raised at {where} after returning all {len(ids)} delivered batches {ids}')
    elif not raised and file_is_bad:
        hit(f'a file that breaks a format rule is replayed to the end without an error; returned {got}')
    elif not raised and m != len(ids):
        hit(f'a good file is not returned completely by the catch-up call: {got} of {ids}')
    return hits, dict(raised_at=where if raised else None, returned=len(got), dropped=sum(map(len, ids)) - len(got))


def enc_struct(s, pid_tok):
    return [pid_tok[s['pid']], s['prio']] + Q(s['arrival']) + enc_list(s['ops'], enc_op)


def enc_lazy_result(obs, pid_tok):
    return (enc_list(obs['batches'], lambda b: enc_list(b, lambda s: enc_struct(s, pid_tok)))
            + [11 if obs['braised'] else 0]
            + enc_list(obs['pipes'], lambda s: enc_struct(s, pid_tok))
            + [11 if obs['praised'] else 0])


# the monitor's own reading of the format rules (property text / CSVWorkloadReader docstring), on the cells
def cell_batches(rows):
    out = []
    for r in rows:
        if out and out[-1][0]['pid'] == r['pid']:
            out[-1].append(r)
        else:
            out.append([r])
    return out


def broken_rule(batch):
    """the first format rule the rows of one pipeline break, or None"""
    first = batch[0]
    if first['prio'] == 0:
        return 'first_no_priority'
    if first['prio'] not in (1, 2, 3):
        return 'unknown_priority'
    if first['arr'] is None:
        return 'first_no_arrival'
    for r in batch[1:]:
        if r['prio'] != 0:
            return 'later_priority'
        if r['arr'] is not None:
            return 'later_arrival'
    for i, r in enumerate(batch):
        if r['law'] >= len(LAWS):
            return 'unknown_law'
        if any(all(q['op'] != p for q in batch[:i]) for p in r['parents']):
            return 'undefined_parent'
    return None


def expected_struct(batch, pid_name):
    """the pipeline a well-formed batch describes (a re-used operator id names the latest earlier row)"""
    ops = []
    for i, r in enumerate(batch):
        parents = [max(j for j in range(i) if batch[j]['op'] == p) for p in r['parents']]
        ops.append(dict(parents=parents, cpu=r['cpu'], law=LAWS[r['law']], mem=r['mem'], read=r['read']))
    return dict(pid=pid_name, prio=batch[0]['prio'], arrival=batch[0]['arr'], ops=ops)


def struct_same(w, g):
    if w['pid'] != g['pid']:
        return f'pipeline id {w["pid"]!r} became {g["pid"]!r}'
    d = struct_diff([w], [g])
    if d:
        return d
    for i, (a, b) in enumerate(zip(w['ops'], g['ops'])):
        if a['parents'] != b['parents']:
            return f'operator {i}: parent list {a["parents"]} became {b["parents"]}'
    return None


def monitor_lazy(recipe, text, rows, pid_tok, obs):
    """the pipelines delivered before the error are exactly the leading well-formed pipelines of the file, in
    file order; an error surfaces iff the file breaks a format rule; arrival batches are the runs of equal
    arrival time of those pipelines, delivered up to (not including) the run being accumulated when the error
    comes through; a generator that has raised delivers nothing more"""
    hits = []

    def hit(desc, sig):
        hits.append(dict(desc=desc, signature=sig, recipe=recipe, gen=recipe['gen'], detail=text[:2000]))
    name_of = {v: k for k, v in pid_tok.items()}
    bs = cell_batches(rows)
    rules = [broken_rule(b) for b in bs]
    nbad = next((k for k, r in enumerate(rules) if r), None)
    lead = bs if nbad is None else bs[:nbad]
    want = [expected_struct(b, name_of[b[0]['pid']]) for b in lead]
    where = '' if nbad is None else f' (pipeline {nbad} of {len(bs)} breaks rule "{rules[nbad]}")'
    for level, got, raised, after in (('batch_by_pipeline', obs['pipes'], obs['praised'], obs['pafter']),
                                      ('batch_by_arrival', [s for b in obs['batches'] for s in b], obs['braised'],
                                       obs['bafter'])):
        if nbad is not None and not raised:
            hit(f'{level}: the file breaks a format rule{where} but no error surfaces; {len(got)} pipelines delivered',
                'lazy-error-missing')
        if nbad is None and raised:
            hit(f'{level}: a file that breaks no format rule raises {raised} after {len(got)} pipelines',
                'lazy-error-spurious')
        if raised and after != 'stopped':
            hit(f'{level}: after raising {raised} the generator {after}', 'lazy-continues-after-error')
    got = obs['pipes']
    if len(got) != len(want):
        hit(f'batch_by_pipeline delivers {len(got)} pipelines before it ends, the file has {len(want)} leading '
            f'well-formed pipelines{where}', 'lazy-prefix-wrong')
    for k, (w, g) in enumerate(zip(want, got)):
        d = struct_same(w, g)
        if d:
            hit(f'batch_by_pipeline delivers pipeline {k} differently from its rows: {d}{where}', 'lazy-loaded-differently')
            break
    # arrival batches: runs of equal arrival among the leading well-formed pipelines; the last run is dropped
    # when an error follows
    runs = []
    for w in want:
        if runs and runs[-1][0]['arrival'] == w['arrival']:
            runs[-1].append(w)
        else:
            runs.append([w])
    if nbad is not None:
        runs = runs[:-1]
    gotb = obs['batches']
    if [len(b) for b in gotb] != [len(b) for b in runs]:
        hit(f'batch_by_arrival delivers batches of sizes {[len(b) for b in gotb]}, expected {[len(b) for b in runs]}'
            f'{where}', 'lazy-batches-wrong')
    else:
        for j, (wb, gb) in enumerate(zip(runs, gotb)):
            ds = [struct_same(w, g) for w, g in zip(wb, gb)]
            if any(ds):
                hit(f'batch_by_arrival batch {j} differs from the rows: {[d for d in ds if d][0]}{where}',
                    'lazy-loaded-differently')
                break
    info = dict(nbatches=len(bs), nbad=nbad, delivered=len(got), batches=len(gotb),
                lost=len(got) - sum(len(b) for b in gotb),
                shared_arrival=any(len(b) > 1 for b in gotb) or len(runs) < len(want))
    h, tinfo = monitor_trace(recipe, text, obs, nbad is not None)
    info.update(tinfo)
    return hits + h, info


def lazy_case(recipe, text):
    """kind 34 for a file text; returns (case or None, hits, info)"""
    obs = lazy_real(text)
    try:
        rows, pid_tok = cells_of_text(text)
    except Unparseable:
        return None, [], None
    hits, info = monitor_lazy(recipe, text, rows, pid_tok, obs)
    case = dict(kind=KIND_LAZY, inp=enc_list(rows, enc_row), obs=enc_lazy_result(obs, pid_tok), recipe=recipe,
                gen=recipe['gen'])
    return case, hits, info


def gen_lazy(rng):
    """longer files (3-10 small pipelines, runs of 1-3 pipelines per arrival time, arrival times not necessarily
    increasing or distinct across runs) with 0, 1 or 2 malformations at random positions"""
    pipes = []
    pool = [float(gen_number(rng)) for _ in range(3)]
    n = rng.randint(3, 10)
    while len(pipes) < n:
        arr = rng.choice(pool) if rng.random() < 0.35 else gen_number(rng)
        for _ in range(rng.choice([1, 1, 2, 2, 3])):
            if len(pipes) < n:
                pipes.append([arr, gen_spec(rng, 4)])
    base = dict(gen='G-csv', mode='direct', pipes=pipes)
    c = rng.random()
    nm = 0 if c < 0.1 else (1 if c < 0.8 else 2)
    muts = []
    for _ in range(nm):
        kinds = MUST_REFUSE * 3 + tuple(k for k in OTHER_VARIATIONS if k != 'drop_memory_column') \
            + ('ws_priority', 'blank_pieces')         # (a dropped column would break a second mutation)
        for _ in range(20):
            kind = rng.choice(kinds)
            if suitable(base, kind):
                break
        muts.append(dict(kind=kind, a=rng.randint(0, 999), b=rng.randint(0, 999)))
    return dict(gen='G-csv-lazy', base=base, muts=muts)


def lazy_stream_case(recipe):
    text, _ = write_real(recipe['base'])
    applied = []
    for m in recipe['muts']:
        text, kind = mutate(text, m)
        applied.append(kind)
    case, hits, info = lazy_case(recipe, text)
    return case, hits, info, applied


# ----------------------------------------------------------------------------------------------
# replaying a file (kind 44, coq/Model/TraceFile.v): the real WorkloadTrace over the real CSVWorkloadReader, one
# run_one_tick per tick

KIND_TRACEFILE = 44
TF_TPS = [1, 2, 10, 100, 1000]
U4 = Fraction(4, 2 ** 53)


class SpyReader:
    """pass-through around the real reader: notes the arrival_seconds of every PipelineArrival when batch_by_arrival
    hands its batch on (run_one_tick returns bare Pipeline objects); exceptions and StopIteration pass through"""

    def __init__(self, inner):
        self.inner, self.arrival = inner, {}

    def batch_by_arrival(self):
        for b in self.inner.batch_by_arrival():
            for pa in b:
                self.arrival[id(pa.pipeline)] = (pa.pipeline, pa.arrival_seconds)
            yield b


def tracefile_real(text, tps, nticks, spy):
    """WorkloadTrace(CSVWorkloadReader(file), tps), nticks calls of run_one_tick:
    (what each call that returned returned, exception text or None, number of the raising call / -1 = constructor)"""
    rd = CSVWorkloadReader(io.StringIO(text))
    if spy:
        rd = SpyReader(rd)
    try:
        wt = WorkloadTrace(rd, tps)
    except Exception as e:                                       # noqa: BLE001  any exception = refused
        return [], f'{type(e).__name__}: {e}', -1
    calls = []
    for t in range(nticks):
        try:
            ps = wt.run_one_tick()
        except Exception as e:                                   # noqa: BLE001
            return calls, f'{type(e).__name__}: {e}', t
        calls.append([(p.pipeline_id, rd.arrival[id(p)][1] if spy else None) for p in ps])
    return calls, None, None


def tick_window(a, tps):
    """ticks in which a batch whose parsed arrival_seconds is the float a may be due: the first tick at or after
    a * tps, up to the rounding of the two float operations (relative 4 * 2^-53)"""
    x = Fraction(a) * tps
    if x <= 0:
        return 0, 0
    return max(0, math.ceil(x * (1 - U4))), max(0, math.ceil(x * (1 + U4)))


def monitor_tracefile(recipe, text, rows, pid_tok, tps, nticks, calls, raised, where):
    """the property on one replay of a file, without the model: the calls return, in file order and each once, whole
    runs of equal arrival time of the leading well-formed pipelines; a run comes out in the first tick at or after
    its arrival (float slack as in C13), or when the run before it comes out if that is later; an exception surfaces
    only on a file that breaks a format rule, in the tick in which the last run before the lost one is due (from the
    constructor if there is none), and then it does surface"""
    hits = []

    def hit(desc, sig):
        hits.append(dict(desc=desc + f' (tps={tps}, {nticks} calls)', signature=sig, recipe=recipe, gen=recipe['gen'],
                         detail=text[:2000]))
    name_of = {v: k for k, v in pid_tok.items()}
    bs = cell_batches(rows)
    rules = [broken_rule(b) for b in bs]
    nbad = next((k for k, r in enumerate(rules) if r), None)
    lead = bs if nbad is None else bs[:nbad]
    want = [(name_of[b[0]['pid']], b[0]['arr']) for b in lead]
    runs = []
    for w in want:
        if runs and runs[-1][0][1] == w[1]:
            runs[-1].append(w)
        else:
            runs.append([w])
    lost = []
    if nbad is not None and runs:
        lost = runs.pop()
    lo, hi, l, h = [], [], 0, 0
    for r in runs:
        a, b = tick_window(r[0][1], tps)
        l, h = max(l, a), max(h, b)
        lo.append(l)
        hi.append(h)
    info = dict(nbad=nbad, runs=len(runs), lost=len(lost), raised_at=where if raised else None, delivered=0,
                dropped=0, late=0, early=0, late_decimal=0, shared_tick=0)
    # the calls that returned: whole runs, in order
    j = 0
    for t, c in enumerate(calls):
        rest = list(c)
        k = 0
        while rest:
            if j >= len(runs) or rest[:len(runs[j])] != runs[j]:
                hit(f'call {t} returned {c}; expected next the run {runs[j] if j < len(runs) else "nothing (all delivered)"} '
                    f'of {runs}', 'tracefile-order')
                return hits, info
            if not lo[j] <= t <= hi[j]:
                hit(f'the run {runs[j]} (arrival_seconds {runs[j][0][1]!r}) came out of call {t}; it is due in tick '
                    f'{lo[j]}' + (f'..{hi[j]}' if hi[j] != lo[j] else ''), 'tracefile-tick')
            x = Fraction(runs[j][0][1]) * tps
            own = max(0, math.ceil(x))
            info['late'] += t > max([own] + [max(0, math.ceil(Fraction(r[0][1]) * tps)) for r in runs[:j]])
            info['early'] += t < own
            info['late_decimal'] += t > max([math.ceil(Fraction(repr(r[0][1])) * tps) for r in runs[:j + 1]] + [0])
            rest = rest[len(runs[j]):]
            j += 1
            k += 1
        info['shared_tick'] += k > 1
    info['delivered'] = j
    if raised:
        if nbad is None:
            hit(f'WorkloadTrace raises {raised} in ' + ('the constructor' if where < 0 else f'call {where}')
                + ' on a file that breaks no format rule', 'tracefile-refusal-spurious')
        elif not runs:
            if where != -1:
                hit(f'no arrival batch precedes the refused pipeline {nbad}: the constructor must raise, but call {where} '
                    f'raised {raised}', 'tracefile-refusal-moment')
        elif where < 0:
            hit(f'the constructor raises {raised} although {len(runs)} arrival batches precede the lost one',
                'tracefile-refusal-moment')
        else:
            L = len(runs) - 1
            if not lo[L] <= where <= hi[L]:
                hit(f'call {where} raised {raised}; the last run before the lost one, {runs[L]}, is due in tick {lo[L]}'
                    + (f'..{hi[L]}' if hi[L] != lo[L] else ''), 'tracefile-refusal-moment')
            for i in range(j, len(runs)):
                if hi[i] < where:
                    hit(f'the run {runs[i]} due in tick {hi[i]} was not returned before call {where} raised',
                        'tracefile-lost')
                    break
            info['dropped'] = len(runs) - j
    else:
        if nbad is not None and (not runs or hi[-1] < nticks):
            hit(f'the file breaks a format rule at pipeline {nbad} ("{rules[nbad]}"), the look-ahead reaches it '
                + (f'in tick {hi[-1]}' if runs else 'in the constructor') + f', but {len(calls)} calls returned without '
                'an error', 'tracefile-refusal-missing')
        for i in range(j, len(runs)):
            if hi[i] < nticks:
                hit(f'the run {runs[i]} is due in tick {hi[i]} < {nticks} but was never returned', 'tracefile-lost')
                break
        if len(calls) != nticks:
            hit(f'{len(calls)} answers for {nticks} calls', 'tracefile-order')
    return hits, info


def enc_tracefile_result(calls, raised, where, pid_tok):
    return (enc_list(calls, lambda c: enc_list(c, lambda pa: [pid_tok[pa[0]]] + Q(pa[1])))
            + ([11, where] if raised else [0]))


def tracefile_case(recipe):
    """kind 44 for one recipe; returns (case or None, hits, info)"""
    text, _ = write_real(recipe['base'])
    applied = []
    for m in recipe['muts']:
        text, kind = mutate(text, m)
        applied.append(kind)
    tps, nticks = recipe['tps'], recipe['nticks']
    try:
        rows, pid_tok = cells_of_text(text)
    except Unparseable:
        return None, [], None
    calls, raised, where = tracefile_real(text, tps, nticks, True)
    plain = tracefile_real(text, tps, nticks, False)
    hits = []
    if ([[p for p, _ in c] for c in calls], raised, where) != ([[p for p, _ in c] for c in plain[0]], plain[1], plain[2]):
        hits.append(dict(desc='the replay through the arrival-recording pass-through differs from the plain replay',
                         signature='harness-spy-differs', recipe=recipe, gen=recipe['gen']))
    h, info = monitor_tracefile(recipe, text, rows, pid_tok, tps, nticks, calls, raised, where)
    info['applied'] = applied
    case = dict(kind=KIND_TRACEFILE, inp=[tps, nticks] + enc_list(rows, enc_row),
                obs=enc_tracefile_result(calls, raised, where, pid_tok), recipe=recipe, gen=recipe['gen'])
    return case, hits + h, info


def tf_arrival(rng, tps, k):
    """an arrival time on or off the tick grid of rate tps, near grid point k"""
    c = rng.random()
    if c < 0.25:
        return k / tps                                              # the double nearest to the grid point
    if c < 0.42:
        return k * (1.0 / tps)                                      # what generate_rows writes
    if c < 0.57:
        return math.nextafter(k / tps, rng.choice([-1.0, math.inf]))   # one ulp off
    if c < 0.70:
        return max(0.0, k / tps + rng.choice([1e-9, -1e-9, 1e-12, -1e-12, 1e-15 / tps]))
    if c < 0.92:
        return (k + rng.choice([0.25, 0.5, 0.3, 0.9, 0.999, 0.001])) / tps
    if c < 0.97:
        return round(rng.uniform(0, 30 / tps), rng.randint(1, 6))
    return rng.choice([-0.5, -1.0 / tps, 0.0])                      # before time 0


def gen_tracefile(rng):
    """a file of 1-12 small pipelines in runs of 1-3 per arrival time; arrival times on and off the tick grid of the
    replay rate (several spellings, one ulp off, several values inside one tick, sometimes out of order), or a file
    written by generate_rows at the same or another rate; 0, 1 or 2 malformations; a run long enough, exactly long
    enough, or too short to reach the last batch"""
    tps = rng.choice(TF_TPS * 4 + [3, 7, 60])
    if rng.random() < 0.2:
        wtps = tps if rng.random() < 0.7 else rng.choice(TF_TPS)
        ticks = [[gen_spec(rng, 3) for _ in range(rng.choice([0, 0, 0, 1, 1, 2]))] for _ in range(rng.randint(1, 14))]
        if not any(ticks):
            ticks[-1].append(gen_spec(rng, 3))
        base = dict(gen='G-csv', mode='generate', tps=wtps, ticks=ticks)
        arrs = [t * (1.0 / wtps) for t, tk in enumerate(ticks) if tk]
    else:
        pipes = []
        n = rng.choice([1, 2, 3, 4, 5, 6, 7, 8, 9, 10, 12])
        k = rng.choice([0, 0, 1, 2, 3, 7])
        over = [j for j in range(1, 60) if (j / tps) / (1.0 / tps) > j]   # grid points whose float quotient overshoots (F7)
        while len(pipes) < n:
            if over and rng.random() < 0.2:
                k = min([j for j in over if j >= k] or [k])
                arr = k / tps
            else:
                arr = float(tf_arrival(rng, tps, k))
            for _ in range(rng.choice([1, 1, 1, 1, 2, 3])):
                if len(pipes) < n:
                    pipes.append([arr, gen_spec(rng, 3)])
            k += rng.choice([0, 0, 1, 1, 1, 2, 5])
        if rng.random() < 0.8:
            order = sorted(range(len(pipes)), key=lambda i: pipes[i][0])
            pipes = [pipes[i] for i in order]
        elif len(pipes) > 1 and rng.random() < 0.5:
            i, j = rng.sample(range(len(pipes)), 2)
            pipes[i][0], pipes[j][0] = pipes[j][0], pipes[i][0]
        base = dict(gen='G-csv', mode='direct', pipes=pipes)
        arrs = [a for a, _ in pipes]
    c = rng.random()
    nm = 0 if c < 0.35 else (1 if c < 0.85 else 2)
    muts = []
    for _ in range(nm):
        kinds = MUST_REFUSE * 3 + ('duplicate_operator_id', 'repeat_pipeline_id', 'merge_adjacent', 'ws_priority')
        for _ in range(20):
            kind = rng.choice(kinds)
            if suitable(base, kind):
                break
        a = rng.randint(0, 999)
        npipes = len(base_specs(base))
        if kind in ('first_no_priority', 'first_no_arrival', 'unknown_priority') and rng.random() < 0.6:
            a = npipes - 1 - rng.randint(0, npipes // 2)            # a pipeline of the second half of the file
        muts.append(dict(kind=kind, a=a, b=rng.randint(0, 999)))
    last = min(60, max(0, math.ceil(max(arrs) * tps)))
    nticks = rng.choice([last + 2] * 4 + [last + 1, last + 1, last, max(0, last - 1), last // 2, 1, 0])
    return dict(gen='G-tracefile', tps=tps, nticks=nticks, base=base, muts=muts)


def replay(recipe):
    if recipe['gen'] == 'G-tracefile':
        case, hits, _ = tracefile_case(recipe)
        return case, hits
    if recipe['gen'] == 'G-csv-lazy':
        case, hits, _, _ = lazy_stream_case(recipe)
        return case, hits
    if recipe.get('part') == 'lazy':
        base = {k: v for k, v in recipe.items() if k != 'part'}
        if recipe['gen'] == 'G-csv':
            text, _ = write_real(base)
        else:
            text, _ = mutate(write_real(base['base'])[0], base['mut'])
        case, hits, _ = lazy_case(recipe, text)
        return case, hits
    if recipe['gen'] == 'G-csv':
        part = recipe.get('part', 'read')
        base = {k: v for k, v in recipe.items() if k != 'part'}
        wcase, rcase, hits, _ = valid_cases(base)
        return (wcase if part == 'write' else rcase), hits
    case, hits, _, _ = malformed_case(recipe)
    return case, hits


def run(ctx):
    cases, hits = [], []
    st = collections.Counter()
    seen = set()

    def note(c, nontrivial):
        cases.append(c)
        if nontrivial:
            seen.add((c['kind'], tuple(c['inp'])))

    def note_lazy(stream, info):
        st[f'lazy_{stream}_files'] += 1
        if info['nbad'] is None:
            st[f'lazy_{stream}_ended_normally'] += 1
        else:
            st[f'lazy_{stream}_bad_pipeline_' + ('first' if info['nbad'] == 0 else
                                                  'last' if info['nbad'] == info['nbatches'] - 1 else 'inside')] += 1
            st[f'lazy_{stream}_delivered_before_error_{min(info["delivered"], 6)}'] += 1
            st[f'lazy_{stream}_lost_batch_of_{min(info["lost"], 3)}'] += 1
            st[f'lazy_{stream}_error_with_batches_delivered'] += info['batches'] > 0
            st[f'lazy_{stream}_trace_raised_in_' + ('constructor' if info['raised_at'] == 'init' else 'run_one_tick')] += 1
            st[f'lazy_{stream}_trace_returned_some_before_error'] += info['returned'] > 0
            st[f'lazy_{stream}_trace_dropped_delivered_batch'] += info['dropped'] > 0
        st[f'lazy_{stream}_files_with_shared_arrival'] += bool(info['shared_arrival'])
    for i in range(ctx.budget(500, 12000)):
        rng = ctx.case_rng('G-csv', i)
        rec = gen_valid(rng)
        wcase, rcase, h, (text, status, structs) = valid_cases(rec)
        hits += h
        specs = [s for t in rec['ticks'] for s in t] if rec['mode'] == 'generate' else [s for _, s in rec['pipes']]
        big = any(len(s['ops']) >= 2 for s in specs)
        note(wcase, big)
        if rcase:
            note(rcase, big)
        lcase, h, info = lazy_case(dict(rec, part='lazy'), text)
        hits += h
        if lcase:
            note(lcase, len(specs) >= 2)
            note_lazy('valid', info)
        st['files_' + rec['mode']] += 1
        st['pipelines'] += len(specs)
        st['roundtrip_' + status] += 1
        if rec['mode'] == 'generate':
            st['ticks_with_several_pipelines'] += sum(len(t) > 1 for t in rec['ticks'])
        else:
            arrs = [a for a, _ in rec['pipes']]
            st['files_with_equal_arrivals'] += len(set(arrs)) < len(arrs)
        st['empty_files'] += not specs
        for s in specs:
            st[f'dag_size_{len(s["ops"])}'] += 1
            st[f'priority_{PRIO_NAME[s["prio"]]}'] += 1
            st['multi_root_dags'] += sum(not o['parents'] for o in s['ops']) > 1
            st['dags_with_multi_parent_operator'] += any(len(set(o['parents'])) > 1 for o in s['ops'])
            for o in s['ops']:
                st['operators'] += 1
                st['law_' + o['law']] += 1
                st['memory_unset'] += o['mem'] is None
                st['memory_zero'] += o['mem'] is not None and o['mem'] == 0
                st['memory_positive'] += o['mem'] is not None and o['mem'] > 0
                st['duplicate_parent_entries'] += len(set(o['parents'])) < len(o['parents'])
                for v in (o['cpu'], o['read']):
                    st['value_int'] += isinstance(v, int)
                    st['value_zero'] += v == 0
                    st['value_tiny'] += 0 < v < 1e-6
                    st['value_huge'] += v >= 1e12
    for i in range(ctx.budget(900, 20000)):
        rng = ctx.case_rng('G-csv-malformed', i)
        rec = gen_malformed(rng)
        case, h, kind, status = malformed_case(rec)
        hits += h
        st[f'mut_{kind}'] += 1
        st[f'mut_{kind}_{status}'] += 1
        st['mutated_' + status] += 1
        if case:
            note(case, kind != 'none')
        else:
            st['mutated_below_cell_level'] += 1
        lcase, h, info = lazy_case(dict(rec, part='lazy'), mutate(write_real(rec['base'])[0], rec['mut'])[0])
        hits += h
        if lcase:
            note(lcase, kind != 'none')
            note_lazy('mutated', info)
    for i in range(ctx.budget(900, 20000)):
        rng = ctx.case_rng('G-csv-lazy', i)
        rec = gen_lazy(rng)
        lcase, h, info, applied = lazy_stream_case(rec)
        hits += h
        for kind in applied:
            st[f'lazy_mut_{kind}'] += 1
        st[f'lazy_files_with_{len(applied)}_mutations'] += 1
        if lcase:
            note(lcase, True)
            note_lazy('long', info)
        else:
            st['lazy_below_cell_level'] += 1
    for i in range(ctx.budget(800, 16000)):
        rng = ctx.case_rng('G-tracefile', i)
        rec = gen_tracefile(rng)
        tcase, h, info = tracefile_case(rec)
        hits += h
        if not tcase:
            st['tracefile_below_cell_level'] += 1
            continue
        note(tcase, True)
        st['tracefile_files'] += 1
        st[f'tracefile_tps_{rec["tps"]}'] += 1
        st['tracefile_written_by_generate_rows'] += rec['base']['mode'] == 'generate'
        st[f'tracefile_{len(rec["muts"])}_mutations'] += 1
        if info['nbad'] is None:
            st['tracefile_good'] += 1
        elif info['raised_at'] is None:
            st['tracefile_bad_not_reached_in_run'] += 1
        elif info['raised_at'] < 0:
            st['tracefile_raised_in_constructor'] += 1
        else:
            st['tracefile_raised_in_call_' + ('0' if info['raised_at'] == 0 else 'later')] += 1
            st['tracefile_raise_dropped_batches_' + str(min(info['dropped'], 3))] += 1
            st['tracefile_raised_after_deliveries'] += info['delivered'] > 0
        st['tracefile_runs_delivered'] += info['delivered']
        st['tracefile_runs_after_their_own_exact_tick'] += info['late']
        st['tracefile_runs_before_their_own_exact_tick'] += info['early']
        st['tracefile_runs_after_the_tick_of_the_decimal_cell'] += info['late_decimal']
        st['tracefile_calls_returning_several_runs'] += info['shared_tick']
        st['tracefile_lost_batch_nonempty'] += info['lost'] > 0
    return dict(cases=cases, hits=hits, dist=dict(st), distinct_nontrivial=len(seen),
                rule='G-csv: files of 0-10 real Pipeline objects (DAGs of 1-8 operators, multi-parent, multi-root, shuffled '
                     'and duplicated parent entries, all seven laws, int/decimal/53-bit/tiny/huge/zero values, memory_gb '
                     'unset/0/positive, several pipelines per tick or per arrival value) written by the real '
                     'generate_rows/_pipeline_to_rows + CSVWorkloadWriter (kind 24: rows as parsed cells) and read by the '
                     'real batch_by_pipeline (kind 14: pipelines read off the objects); G-csv-malformed: one of '
                     f'{len(MUST_REFUSE)} malformations or {len(SAME_STRUCTURE) + len(OTHER_VARIATIONS)} variations applied '
                     'to a valid file, accept/refuse and loaded structure vs the model. non-trivial = distinct inputs '
                     'with a multi-operator pipeline or an applied mutation. kind 34 (lazy reader): for every file of the '
                     'two streams above and for G-csv-lazy (3-10 pipelines, runs of 1-3 pipelines per arrival time, 0/1/2 '
                     'malformations at random positions) the real batch_by_arrival() and batch_by_pipeline() generators are '
                     'driven one next() at a time; compared: the batches / pipelines delivered before the end or the '
                     'exception, and whether an exception came. kind 44 (G-tracefile): the real '
                     'WorkloadTrace(CSVWorkloadReader(file), tps) driven one run_one_tick at a time, tps in {1,2,10,100,1000,3,7,60}, '
                     'arrival cells on the tick grid (k/tps, k*(1.0/tps)), one ulp / 1e-9..1e-15 off it, inside a tick, before 0, '
                     'equal and out-of-order arrivals, files written by generate_rows at the same or another rate, 0-2 '
                     'malformations, runs that end before / at / after the last batch; compared: the pipelines (id, arrival) '
                     'each call returned and the call (or the constructor) out of which the refusal came',
                samples=[cases[0]['recipe'], cases[-1]['recipe'].get('muts', cases[-1]['recipe'].get('mut'))] if cases else [])
