"""C09 Every accepted assignment becomes exactly one container with exactly one outcome."""
from harness import execdrv as X
from harness import execprops as P
from harness.impl import E_POOL

ID = 'C09'
MASK = X.M_RESULTS | X.M_LISTS | X.M_STATES
ASSUMPTIONS = ['container ids are renumbered by creation order']
from fractions import Fraction as F


def monitor(run):
    r = run.r
    seen_results = set()
    accepted = 0
    succ = fail = 0
    for t, e in enumerate(run.trace):
        bad_pool = [c for c in e['cmd']['susp'] if not 0 <= c[1] < r['npools']] + \
                   [a for a in e['cmd']['asg'] if not 0 <= a[4] < r['npools']]
        if e['err']:
            if e['err'] == E_POOL and e.get('pools_after_err') is not None and e.get('pre_pools') is not None \
                    and e['pools_after_err'] != e['pre_pools']:
                # the pool numbers of a batch are validated before anything else happens: a batch refused for an
                # unknown pool must not have ticked any pool, created any container or swallowed any result
                pi = next(i for i, (a, b) in enumerate(zip(e['pre_pools'], e['pools_after_err'])) if a != b)
                a, b = e['pre_pools'][pi], e['pools_after_err'][pi]
                what = [k for k in a if a[k] != b[k]]
                yield (f'tick {t}: the batch was refused ({e.get("exc", "")[:40]}) but pool {pi} changed all the same '
                       f'({", ".join(what[:4])}): containers ran or were created and their results are lost')
            continue
        if bad_pool:
            yield f'tick {t}: a command naming pool {bad_pool[0][-1] if len(bad_pool[0]) > 2 else bad_pool[0][1]} was accepted (silently dropped)'
        accepted += len(e['cmd']['asg'])
        active = {c['cid'] for p in e['pools'] for c in p['active']}
        suspending = {c['cid'] for p in e['pools'] for c in p['suspending']}
        suspended = [cid for p in e['pools'] for cid in p['suspended']]
        prev = e['pre_pools'] or []
        prev_active = {c['cid'] for p in prev for c in p['active']}
        prev_suspending = {c['cid'] for p in prev for c in p['suspending']}
        res = [x['cid'] for x in e['results']]
        for cid in e['new']:
            if cid not in active and cid not in res:
                yield f'tick {t}: accepted assignment created no container (expected container {cid})'
        if len(set(e['new'])) != len(e['cmd']['asg']):
            yield f'tick {t}: {len(e["cmd"]["asg"])} assignments but {len(e["new"])} containers'
        for cid in res:
            if cid in seen_results:
                yield f'tick {t}: container {cid} reported a second result'
            seen_results.add(cid)
            if cid not in prev_active and cid not in e['new']:
                yield f'tick {t}: result for container {cid} that was not running'
            if cid in active or cid in suspending:
                yield f'tick {t}: container {cid} reported a result but is still live'
            if cid in suspended:
                yield f'tick {t}: suspended container {cid} reported a result'
        just_suspended = {c[0] for c in e['cmd']['susp']}
        for cid in (prev_active | set(e['new'])) - active - set(res):
            if cid not in just_suspended:
                yield f'tick {t}: container {cid} left the running list without a result or a suspension'
        for cid in prev_suspending - suspending:
            if cid not in suspended:
                yield f'tick {t}: suspending container {cid} vanished'
        # a write-out in progress advances by one tick in every executor tick (whether or not the pool got commands)
        prev_left = {c['cid']: c['left'] for p in prev for c in p['suspending']}
        for p in e['pools']:
            for c in p['suspending']:
                if c['cid'] in prev_left and c['left'] != prev_left[c['cid']] - 1:
                    yield (f'tick {t}: suspending container {c["cid"]} has {c["left"]} ticks left, had {prev_left[c["cid"]]} '
                           f'before this tick: its write-out did not advance (it can never reach its outcome)')
            for c in p['suspending']:
                if c['left'] is not None and c['left'] <= 0:
                    yield (f'tick {t}: the write-out of container {c["cid"]} is over ({c["left"]} ticks left) but it is still '
                           f'listed as suspending: it never reaches its outcome')
            for c in p['active'] + p['suspending']:
                want = run.info.get(c['cid'], {}).get('ops')
                if want is not None and c['ops'] != want:
                    yield (f'tick {t}: container {c["cid"]} holds operators {c["ops"]}, the accepted assignment listed '
                           f'{want} (a container runs exactly the operators of its assignment, in that order)')
            for c in p['active']:
                d = e.get('demand', {}).get(c['cid'])
                ram = run.info.get(c['cid'], {}).get('ram')
                if d is not None and ram is not None and F(d) > F(ram):
                    yield (f'tick {t}: container {c["cid"]} demands {float(F(d))} GB, above its allocation {float(F(ram))} GB, '
                           f'and is still running after the tick: a container over its limit ends (OOM) in that tick, '
                           f'frozen like this it never reaches an outcome')
            for c in p['active']:
                if c['completed']:
                    yield (f'tick {t}: container {c["cid"]} is finished but still sits in the running list: '
                           f'no result was delivered for it')
        for x in e['results']:
            sts = [e['states'][o] for o in x['ops']]
            if x['err'] == 0:
                succ += 1
                if any(s != 4 for s in sts):
                    yield f'tick {t}: success result of container {x["cid"]} with operator states {sts}'
            else:
                fail += 1
                k = 0
                while k < len(sts) and sts[k] == 4:
                    k += 1
                if k == len(sts) or any(s != 5 for s in sts[k:]):
                    yield f'tick {t}: failure result of container {x["cid"]} with operator states {sts} (want completed prefix, failed rest)'
        live = len(active) + len(suspending)
        if accepted != succ + fail + len(suspended) + live:
            yield (f'tick {t}: assignments {accepted} != successes {succ} + failures {fail} + suspended '
                   f'{len(suspended)} + live {live}')


def replay(recipe):
    case, hits, _ = P.drive(recipe, MASK, monitor, 'ledger')
    if recipe.get('gen') == 'G-exec-decimal-fill':
        return None, hits          # monitor only (non-dyadic sizes are outside the model's domain)
    return case, hits


def run(ctx):
    out = P.run_property(ctx, MASK, monitor, 'ledger', [
        ('G-exec', 250, 4000, {}),
        ('G-exec-over', 120, 2000, dict(overcommit=True)),
        ('G-exec-overlap', 40, 600, dict(overlap=True)),
        ('G-exec-burst', 60, 1000, dict(burst=True)),
        ('G-exec-waves', 60, 1000, dict(waves=True)),
        ('G-exec-badpool', 60, 1000, dict(p_bad=1.0, bad_kinds=['asg-pool', 'susp-badpool'], bad_early=False)),
    ], nontrivial=lambda run: any(e.get('results') for e in run.trace))
    # monitor-only: decimal (non-dyadic) RAM sizes filling the pool exactly; outside the model's exact-arithmetic domain
    import collections
    st = collections.Counter(out['dist'])
    for i in range(ctx.budget(150, 2000)):
        rng = ctx.case_rng('G-exec-decimal-fill', i)
        cfg, run_ = X.gen_decimal_fill(rng)
        st['decimal_fill_histories'] += 1
        st['decimal_fill_batches_accepted'] += not run_.trace[0]['err']
        for desc in monitor(run_):
            out['hits'].append(dict(desc=desc, signature='ledger', recipe=cfg, gen='G-exec-decimal-fill'))
            break
    out['dist'] = dict(st)
    out['rule'] = ('G-exec command fuzzer (see C03) incl. simultaneous completions, kills and suspensions and commands with '
                   'out-of-range pool numbers; projection: results per tick, container lists per pool, operator states. '
                   'non-trivial = histories with at least one result')
    return out
