"""C01 Operators never start before their parents have completed; DAG iteration is topological."""
from harness.impl import OST, OST_IDX, World, all_dags, random_dag, enc_pipes, enc_list, enc_dag, err_code, E_DEP
from harness.props import C02
from harness import execdrv as X
from harness import execprops as P

ID = 'C01'
KIND_DAG, KIND_LIFE = 1, 2
BRIDGE = [
    ('check_prog', 'ext_check_prog = check_prog', 'reflexivity.'),
    ('valid_transitions', 'ext_valid_transitions = valid_table', 'reflexivity.'),
]


def K_ALL_KINDS(ctx):
    """thorough tier: the exhaustive enumerations are evaluated in the kernel as well, not only by extraction"""
    return (1,) if ctx.thorough else ()


ASSUMPTIONS = ['DAGs as add_node accepts them from new_operator / the CSV reader: parents are earlier '
               'operators, no duplicate parent entries (note N1 in DESIGN.md)']
R, Cc = 2, 4


def drive_dag(recipe):
    dag = recipe['dag']
    w = World([(3, dag)])
    order = [w.gid[o] for o in list(w.pipes[0].values)]
    hits = []
    pos = {o: i for i, o in enumerate(order)}
    desc = None
    if sorted(order) != list(range(len(dag))):
        desc = f'iteration {order} is not a permutation of the {len(dag)} operators'
    else:
        for j, ps in enumerate(dag):
            for p in ps:
                if pos[p] >= pos[j]:
                    desc = f'operator {j} iterated before its parent {p}: {order}'
    if desc:
        hits.append(dict(desc=desc, signature='dag-iteration', recipe=recipe, gen=recipe.get('gen')))
    if not desc and len(dag) >= 2:
        # walks that overlap: a walk started inside another one, two walks side by side, a walk whose body asks for
        # operator states (which builds the runtime status, itself a walk). Every walk is its own complete iteration
        vals = w.pipes[0].values
        outer, inners = [], []
        for o in vals:
            outer.append(w.gid[o])
            inners.append([w.gid[x] for x in vals])
        left, right = zip(*[(w.gid[a], w.gid[b]) for a, b in zip(vals, vals)]) if len(dag) else ((), ())
        w2 = World([(3, dag)])
        lazy = []
        for o in w2.pipes[0].values:
            o.state()
            lazy.append(w2.gid[o])
        # a DAG that is walked WHILE it is being built (a walk after every added operator): the final walk still visits
        # every operator once, parents first
        from eudoxia.workload.pipeline import Pipeline
        from eudoxia.utils import Priority
        pb = Pipeline('grown', Priority.QUERY)
        built, inc = [], None
        for j, ps in enumerate(dag):
            built.append(pb.new_operator([built[q] for q in ps] or None))
            inc = [built.index(o) for o in pb.values]
        for name, got in [('the walk of a DAG that was walked after every added operator', inc),
                          ('a walk with another walk started in its body', outer), ('a walk started inside another', inners[0]),
                          ('the left of two side-by-side walks', list(left)), ('the right of two side-by-side walks', list(right)),
                          ('a walk whose body reads operator states', lazy)]:
            if got != order:
                desc = f'{name} visited {got}, a plain walk visits {order}'
                break
    if desc and not hits:
        hits.append(dict(desc=desc, signature='dag-iteration', recipe=recipe, gen=recipe.get('gen')))
    return dict(kind=KIND_DAG, inp=enc_dag(dag), obs=enc_list(order), recipe=recipe, gen=recipe.get('gen')), hits


def drive_life(recipe):
    """request history; monitor: started operators have completed parents after every request, and a
    start with an unfinished parent is refused."""
    pipes, reqs = recipe['pipes'], recipe['reqs']
    w = World(pipes)
    out, hits = [], []
    peek = recipe.get('peek')
    for n, (op, tgt) in enumerate(reqs):
        if peek is not None and (n * 7 + peek) % 3 == 0:
            # a scheduler listing the assignable operators (both ways) between two requests: pure queries
            from eudoxia.workload.runtime_status import ASSIGNABLE_STATES
            for p in w.pipes:
                p.to_dict()
                p.runtime_status().get_ops(ASSIGNABLE_STATES, require_parents_complete=False)
                p.runtime_status().get_ops(ASSIGNABLE_STATES, require_parents_complete=True)
        before = w.states()
        try:
            w.ops[op].transition(OST[tgt])
            code = 0
        except Exception as e:  # noqa
            code = err_code(e)
        out.append(code)
        after = w.states()
        desc = None
        for i, o in enumerate(w.ops):
            if after[i] in (R, Cc) and any(after[w.gid[p]] != Cc for p in o.parents):
                desc = f'operator {i} is {OST[after[i]].value} with an unfinished parent'
        if tgt == R and before[op] == 1 and any(before[w.gid[p]] != Cc for p in w.ops[op].parents) and code != E_DEP:
            desc = f'start of operator {op} with an unfinished parent was not refused with the dependency error'
        if desc and not hits:
            hits.append(dict(desc=f'{desc} (request {n})', signature='dependency', recipe=recipe, gen=recipe.get('gen')))
    out += w.dump()
    inp = enc_pipes(pipes) + enc_list(reqs, lambda r: [r[0], r[1]])
    return dict(kind=KIND_LIFE, inp=inp, obs=out, recipe=recipe, gen=recipe.get('gen')), hits


EXEC_MASK = X.M_STATES | X.M_RESULTS


def exec_monitor(run):
    """operator states at both phase boundaries of every tick: started operators have completed parents;
    a batch that would start an operator with an unfinished parent ends in the dependency error"""
    w = run.w
    for t, e in enumerate(run.trace):
        for phase, sts in (('scheduler', e.get('pre_states')), ('executor', e.get('states') if not e['err'] else None),
                           ('refusal of the command', e.get('states') if e['err'] else None)):
            if not sts:
                continue
            for i, o in enumerate(w.ops):
                if sts[i] in (R, Cc) and any(sts[w.gid[p]] != Cc for p in o.parents):
                    yield (f'tick {t} after the {phase} phase: operator {i} is {OST[sts[i]].value} while parent '
                           f'{[w.gid[p] for p in o.parents if sts[w.gid[p]] != Cc][0]} is unfinished')


def replay(recipe):
    if 'dag' in recipe:
        return drive_dag(recipe)
    if 'ticks' in recipe:
        case, hits, _ = P.drive(recipe, EXEC_MASK, exec_monitor, 'dependency')
        return case, hits
    return drive_life(recipe)


def run(ctx):
    cases, hits = [], []
    dist = dict(dags_exhaustive=0, dags_random=0, life_histories=0, starts_refused=0, starts_accepted=0)
    nmax = 6
    for n in range(0, nmax + 1):
        for dag in all_dags(n):
            c, h = drive_dag(dict(gen=f'G-dag/{n}', dag=dag))
            cases.append(c)
            hits += h
            dist['dags_exhaustive'] += 1
    for i in range(ctx.budget(300, 5000)):
        rng = ctx.case_rng('G-dag-rand', i)
        n = rng.randint(7, 40)
        c, h = drive_dag(dict(gen='G-dag-rand', dag=random_dag(rng, n, rng.choice([0.05, 0.15, 0.4, 0.8]))))
        cases.append(c)
        hits += h
        dist['dags_random'] += 1
    # request histories biased towards starting operators (legal and illegal starts)
    for i in range(ctx.budget(600, 10000)):
        rng = ctx.case_rng('G-life-dep', i)
        pipes = [(rng.choice([1, 2, 3]), random_dag(rng, rng.randint(2, 6), 0.5)) for _ in range(rng.randint(1, 2))]
        n = sum(len(d) for _, d in pipes)
        w = World(pipes)
        reqs = []
        for _ in range(rng.randint(8, 50)):
            op = rng.randrange(n)
            cur = OST_IDX[w.ops[op].state()]
            r = rng.random()
            if cur == 0:
                tgt = 1
            elif cur == 1:
                tgt = 2 if r < 0.8 else rng.choice([3, 5])
            elif cur == 2:
                tgt = 4 if r < 0.8 else 5
            elif cur == 3:
                tgt = 0
            elif cur == 5:
                tgt = 1
            else:
                tgt = rng.randrange(6)
            if r > 0.95:
                tgt = rng.randrange(6)
            reqs.append((op, tgt))
            try:
                w.ops[op].transition(OST[tgt])
                if tgt == 2:
                    dist['starts_accepted'] += 1
            except Exception:
                if tgt == 2:
                    dist['starts_refused'] += 1
        rec = dict(gen='G-life-dep', pipes=pipes, reqs=reqs)
        if i % 2:
            rec['peek'] = i % 3
        c, h = drive_life(rec)
        cases.append(c)
        hits += h
        dist['life_histories'] += 1
    ex = P.run_property(ctx, EXEC_MASK, exec_monitor, 'dependency', [
        ('G-exec', 150, 3000, dict(p_bad=0.5)),
        ('G-exec-deps', 80, 1500, dict(p_bad=1.0, bad_kinds=['asg-parent', 'asg-order', 'asg-busy'])),
        ('G-exec-inflight', 80, 1500, dict(p_inflight=0.9, p_bad=0.0))])
    cases += ex['cases']
    hits += ex['hits']
    dist['executor'] = ex['dist']
    return dict(cases=cases, hits=hits, dist=dist, exhaustive=True,
                distinct_nontrivial=dist['dags_exhaustive'] + dist['dags_random'] + dist['starts_refused'],
                rule='every DAG on <= 6 operators (parents = any subset of earlier operators; 33868 graphs) and random DAGs '
                     'of 7..40 operators: list(pipeline.values) vs Dag.iterate; request histories on branching DAGs with '
                     'legal and illegal starts; executor command histories (G-exec, half of them with an inadmissible command such as an unfinished parent or a wrong order inside a pack), states at both phase boundaries. non-trivial = distinct graphs + refused starts',
                samples=[cases[100]['recipe'], cases[-1]['recipe']])
