"""C17 naive scheduler: whole-pool FIFO without retries or preemption (also the starter template)."""
from fractions import Fraction as F

from harness import simdrv as S
from harness import simprops as SP

ID = 'C17'
BRIDGE_IMPORTS = 'From Eudoxia Require Import Model.SchedSrc.\n'
BRIDGE = [('sched_naive', 'ext_sched_naive = sched_naive_src', 'reflexivity.'), ('sched_starter', 'ext_sched_starter = sched_starter_src', 'reflexivity.')]
MASK = S.M_DEC | S.M_RES | S.M_POOLS
ASSUMPTIONS = ['workloads of well-formed pipelines with fresh ids']


def monitor(run):
    first = {}
    for rd in SP.rounds(run) + SP.failed_rounds(run):
        t = rd.t
        if rd.susp:
            yield f'tick {t}: the scheduler suspended a container'
        pools_used = [a[4] for a in rd.asg]
        if len(pools_used) != len(set(pools_used)):
            yield f'tick {t}: more than one container started on a pool ({pools_used})'
        for i, (ops, cpu, ram, prio, pool) in enumerate(rd.asg):
            pb = rd.pools_before[pool]
            if cpu != pb['avail_cpu'] or F(ram) != F(pb['avail_ram']):
                yield (f'tick {t}: container on pool {pool} got cpu={cpu} ram={ram}, the pool had '
                       f'{pb["avail_cpu"]} CPUs and {pb["avail_ram"]} GB free')
            k = SP.pipe_of(run, ops[0])
            lo, n = run.w.first[k], len(run.r['pipes'][k][1])
            if any(rd.states_before[o] == 5 for o in range(lo, lo + n)):
                yield f'tick {t}: work of pipeline {k} assigned after one of its operators failed'
            single = run.r['algo'] == 'starter' or not run.r['multi']
            if single:
                if len(ops) != 1:
                    yield f'tick {t}: container with {len(ops)} operators in single-operator mode'
                elif rd.states_before[ops[0]] != 0 or not SP.parents_done(run, rd.states_before, ops[0]):
                    yield f'tick {t}: operator {ops[0]} was not ready (pending with completed parents)'
            first.setdefault(k, (t, i))
    # first containers in arrival order
    order = [k for (_, k) in run.r['arrivals']]
    served = [k for k in order if k in first]
    for a, b in zip(served, served[1:]):
        if first[a] > first[b]:
            yield (f'pipeline {b} (arrived later) got its first container at {first[b]} before pipeline {a} at {first[a]}')
    # a pipeline that arrived earlier and is never served while a later one is
    for i, k in enumerate(order):
        if k not in first and any(j in first for j in order[i + 1:]) and run.r['pipes'][k][1]:
            later = [j for j in order[i + 1:] if j in first][0]
            # legitimate only if k arrived after the later one's first assignment (cannot be: order is arrival order)
            yield f'pipeline {k} never got a container although pipeline {later}, which arrived later, did'


def replay(recipe):
    if recipe.get('gen') == 'G-sim-naive-fractional-cpu':
        run_ = S.SimRun(recipe).run()
        return None, [dict(desc=d, signature='naive-contract', recipe=recipe) for d in list(monitor(run_))[:1]]
    return SP.replay(recipe, MASK, monitor, 'naive-contract')


def run(ctx):
    out = SP.run_streams(ctx, MASK, monitor, 'naive-contract', [
        ('G-sim-naive', 220, 4000, dict(algo='naive')),
        ('G-sim-starter', 160, 3000, dict(algo='starter')),
        ('G-sim-saturate-naive', 60, 1000, dict(saturate='naive')),
        ('G-sim-naive-siblings', 80, 1500, dict(abandon='naive')),
        ('G-sim-starter-siblings', 40, 800, dict(abandon='starter')),
        ('G-sim-naive-branches', 40, 800, dict(branches='naive')),
        ('G-sim-naive-failbranch', 60, 1200, dict(failbranch='naive')),
        ('G-sim-starter-failbranch', 20, 400, dict(failbranch='starter')),
    ])
    # monitor-only stream: fractional CPU capacities (outside the integer-CPU domain of the model, so no
    # correspondence case is produced; the monitor still judges the implementation)
    nfrac = 0
    for i in range(ctx.budget(40, 500)):
        rng = ctx.case_rng('G-sim-naive-fractional-cpu', i)
        recipe = S.gen_sim(rng, algo=rng.choice(['naive', 'starter']), gen='G-sim-naive-fractional-cpu')
        recipe['cpu'] = rng.choice([1.5, 2.5, 3.25, 4.75])
        run_ = S.SimRun(recipe).run()
        nfrac += 1
        for desc in monitor(run_):
            out['hits'].append(dict(desc=desc, signature='naive-contract', recipe=recipe, gen='G-sim-naive-fractional-cpu'))
            break
    out['dist']['monitor_only_runs_fractional_cpu'] = nfrac
    out['rule'] = ('whole run_simulator runs with the naive scheduler and with the starter scheduler generated from the '
                   '`eudoxia init` template: 1-4 pools, small pools (OOM failures), DAG pipelines, both container modes, '
                   'bursts; compared per tick: decisions, results, free resources. non-trivial = runs with an assignment')
    return out
