"""C05 Container execution follows the documented time and memory model."""
import collections
import itertools
import math
from fractions import Fraction as F

import numpy as np

from harness import execdrv as X
from harness import execprops as P
from harness.impl import Q, enc_list

ID = 'C05'
KIND_TIME = 4
MASK = X.M_LISTS | X.M_MEM | X.M_STATES | X.M_RESULTS
LAW_IDX = {n: i for i, n in enumerate(X.LAWS)}
BRIDGE = [
    ('disk_scan', '(ext_disk_scan == disk_scan)%Q', 'reflexivity.'),
    ('law_bodies', 'ext_law_bodies = map (fun nl => (fst nl, law_body (snd nl))) law_table', 'reflexivity.'),
    ('law_names', 'ext_law_names = map fst law_table', 'reflexivity.'),
    ('segment_exprs', 'ext_segment_exprs = segment_exprs', 'reflexivity.'),
]
BRIDGE_IMPORTS = 'From Eudoxia Require Import Model.Timing.\n'
ASSUMPTIONS = ['np.log / np.sqrt values enter the model as a table filled from numpy at run time',
               'either-side rule: a tick count or OOM tick may differ by one when the exact quantity is within '
               '8*2^-53 (relative) of a boundary; irrational laws (log, sqrt) are judged with relative tolerance 1e-12']
REL = F(8, 2 ** 53)


def enc_seg(s):
    out = Q(s['baseline_cpu_seconds']) + [LAW_IDX[s.get('cpu_scaling', 'const')]]
    out += ([1] + Q(s['memory_gb'])) if s.get('memory_gb') is not None else [0]
    return out + Q(s['storage_read_gb'])


def spec_cpu_time(s, cpus):
    """exact (or high-precision) cpu_time per the README laws; returns (value, relative tolerance)"""
    b = F(s['baseline_cpu_seconds'])
    law = s.get('cpu_scaling', 'const')
    if law == 'const':
        return b, REL
    if law == 'linear3':
        return b / min(cpus, 3), REL
    if law == 'linear7':
        return b / min(cpus, 7), REL
    if law == 'squared':
        return b / (cpus * cpus), REL
    if law == 'exp':
        return b / (2 ** cpus if cpus < 4 else 16), REL
    if law == 'log':
        return b / F(math.log(cpus) + 1), F(1, 10 ** 12)
    if law == 'sqrt':
        return b / F(math.sqrt(cpus)), F(1, 10 ** 12)
    raise ValueError(law)


def floor_range(x, rel):
    """admissible values of floor(x) when x is only known up to relative error rel"""
    lo, hi = math.floor(x * (1 - rel)), math.floor(x * (1 + rel))
    return list(range(max(0, lo), hi + 1))


def script_monitor(segs, cpus, tps, script):
    """Is the observed per-tick demand of one operator what the documented model prescribes?"""
    ranges = []
    for s in segs:
        io = floor_range(F(s['storage_read_gb']) / 20 * tps, REL)
        ct, rel = spec_cpu_time(s, cpus)
        cpu = floor_range(ct * tps, rel)
        ranges.append((io, cpu))
    if len(script) < 1:
        return 'operator occupies no tick'
    for combo in itertools.product(*[list(itertools.product(io, cpu)) for io, cpu in ranges]):
        combo = [list(c) for c in combo]
        if sum(a + b for a, b in combo) == 0:
            combo[-1][1] = 1
        want = []
        for s, (io, cpu) in zip(segs, combo):
            fixed = s.get('memory_gb')
            for i in range(io):
                want.append(F(fixed) if fixed is not None else F((i + 1) * 20, tps))
            peak = F(fixed) if fixed is not None else F(s['storage_read_gb'])
            want += [peak] * cpu
        if len(want) == len(script) and all(abs(F(o) - w) <= w * F(1, 10 ** 12) for o, w in zip(script, want)):
            return None
    return (f'script of length {len(script)} matches no admissible profile: tick ranges {ranges}, '
            f'observed head {script[:6]}')


def time_case(recipe):
    segs, cpus, tps = recipe['segs'], recipe['cpus'], recipe['tps']
    sc = X.probe_script(segs, cpus, tps)
    inp = [tps, cpus] + enc_list([(cpus, float(np.log(cpus)))], lambda e: [e[0]] + Q(e[1])) \
        + enc_list([(cpus, float(np.sqrt(cpus)))], lambda e: [e[0]] + Q(e[1])) + enc_list(segs, enc_seg)
    # the model also prints per-segment tick counts, which the implementation does not expose: they are
    # checked through the script (same length, same values); observed answer = the script part only
    hits = []
    perr = X.PROBE_ERRORS.get((tuple(tuple(sorted(s.items())) for s in segs), cpus, tps))
    if perr:
        hits.append(dict(desc=f'a container running this operator alone with unlimited memory raised {perr} after {len(sc)} ticks',
                         signature='time-model', recipe=recipe, gen=recipe.get('gen')))
    d = script_monitor(segs, cpus, tps, sc)
    if d:
        hits.append(dict(desc=d, signature='time-model', recipe=recipe, gen=recipe.get('gen')))
    return dict(kind=KIND_TIME, inp=inp, obs=enc_list(sc, Q), recipe=recipe, gen=recipe.get('gen'), script_only=True), hits


def container_monitor(run):
    """single container runs: ordering, OOM in exactly the first over-limit tick, success after the sum"""
    r = run.r
    for t, e in enumerate(run.trace):
        if e['err']:
            continue
        for x in e['results']:
            inf = run.info[x['cid']]
            full = inf['full']
            over = [i for i, m in enumerate(full) if F(m) > F(inf['ram'])]
            age = e['age'].get(x['cid'])
            lens = [len(run.used[(o, inf['cpu'])]) for o in inf['ops']]
            if not over:
                if x['err']:
                    yield f'container {x["cid"]} failed although its demand never exceeds its allocation {inf["ram"]}'
                elif age != len(full):
                    yield f'container {x["cid"]} succeeded after {age} ticks, operators need {len(full)}'
            else:
                if not x['err']:
                    yield f'container {x["cid"]} succeeded although tick {over[0] + 1} demands {full[over[0]]} > {inf["ram"]}'
                elif age != over[0] + 1:
                    yield f'container {x["cid"]} failed in its tick {age}, first over-limit demand is in tick {over[0] + 1}'
                else:
                    k, acc = 0, 0
                    while acc + lens[k] <= over[0]:
                        acc += lens[k]
                        k += 1
                    sts = [e['states'][o] for o in inf['ops']]
                    if sts != [4] * k + [5] * (len(sts) - k):
                        yield f'container {x["cid"]} failed in operator {k}: operator states {sts}'
        for p in e['pools']:
            for c in p['active']:
                inf = run.info[c['cid']]
                if c['ops'] != inf['ops']:
                    yield f'container {c["cid"]} runs operators {c["ops"]}, it was assigned {inf["ops"]} (in that order)'
                age = e['age'].get(c['cid'])
                if age is not None and age - 1 < len(inf['full']) and F(c['mem']) != F(inf['full'][age - 1]):
                    yield f'container {c["cid"]} uses {c["mem"]} in its tick {age}, the operator script says {inf["full"][age - 1]}'
                lens = [len(run.used[(o, inf['cpu'])]) for o in inf['ops']]
                k, acc = 0, 0
                while k < len(lens) and acc + lens[k] <= age:
                    acc += lens[k]
                    k += 1
                sts = [e['states'][o] for o in inf['ops']]
                want = [4] * k + ([2] if acc < age else [1]) + [1] * (len(sts) - k - 1)
                if sts != want[:len(sts)]:
                    yield f'container {c["cid"]} after {age} ticks: operator states {sts}, expected {want[:len(sts)]}'


def gen_time(rng):
    tps = rng.choice([1, 2, 3, 7, 10, 60, 100, 1000, 4096, 10 ** 4, 10 ** 5])
    cpus = rng.choice([1, 2, 3, 4, 6, 7, 8, 16, 33, 64])
    segs = []
    budget = 300
    for _ in range(rng.choice([1, 1, 2, 3])):
        io_t = rng.choice([0, 0, 1, 2, 3, 7, 20])
        cpu_t = rng.choice([0, 0, 1, 2, 5, 11])
        read = F(io_t * 20, tps) + rng.choice([0, 0, F(1, 10 ** 9), F(-1, 10 ** 9), F(7, tps), F(1, 3 * tps)])
        law = rng.choice(X.LAWS)
        base = F(cpu_t, tps) * rng.choice([1, 1, 2, 3, 7]) + rng.choice([0, 0, F(1, 10 ** 9), F(1, 2 * tps)])
        s = dict(baseline_cpu_seconds=float(max(base, 0)), cpu_scaling=law, storage_read_gb=float(max(read, 0)))
        if rng.random() < 0.35:
            s['memory_gb'] = float(rng.choice([0, 0.5, 1, 3.3, 12]))
        est = s['storage_read_gb'] / 20 * tps + s['baseline_cpu_seconds'] * tps
        if est > budget:
            continue
        budget -= est
        segs.append(s)
    if not segs:
        segs = [dict(baseline_cpu_seconds=0.0, cpu_scaling='const', storage_read_gb=0.0)]
    return dict(gen='G-time', segs=segs, cpus=cpus, tps=tps)


def gen_container(rng):
    """one container on a roomy pool, allocation at a per-tick demand value -eps / exactly / +eps"""
    tps = rng.choice([1, 2, 3, 7, 10, 60, 100, 1000])
    nops = rng.randint(1, 4)
    opsegs = []
    for _ in range(nops):
        g = gen_time(rng)
        segs = g['segs']
        scale = tps / g['tps']
        opsegs.append([dict(s, storage_read_gb=float(s['storage_read_gb'] / scale) if scale > 1 else s['storage_read_gb'],
                            baseline_cpu_seconds=float(s['baseline_cpu_seconds'] / scale) if scale > 1 else s['baseline_cpu_seconds'])
                       for s in segs][:2])
    if rng.random() < 0.25:
        # segments with the SAME timing profile in one container, one of them in an operator that rounds to zero ticks
        # (the one-tick minimum of that operator must not leak into the other segments)
        law = rng.choice(X.LAWS)
        tiny = rng.choice([0.0, 0.0, 0.3 / tps])
        z = dict(baseline_cpu_seconds=float(tiny), cpu_scaling=law, storage_read_gb=0.0)
        nz = dict(baseline_cpu_seconds=float(rng.randint(1, 5)) / tps, cpu_scaling='const', storage_read_gb=0.0,
                  memory_gb=float(rng.choice([0.5, 1, 2])))
        shapes = [[[dict(z)], [dict(z, memory_gb=float(rng.choice([0.25, 3, 9]))), nz]],
                  [[dict(z)], [nz, dict(z)], [dict(z), nz]],
                  [[dict(z), dict(z), dict(z)], [nz]],
                  [[nz], [dict(z)], [dict(z, memory_gb=1.0), nz, dict(z)]]]
        opsegs = rng.choice(shapes)
        nops = len(opsegs)
    cpu = rng.choice([1, 2, 3, 4, 8])
    est = sum(s['storage_read_gb'] / 20 * tps + s['baseline_cpu_seconds'] * tps for sg in opsegs for s in sg)
    if est > 400:
        opsegs = [[dict(baseline_cpu_seconds=2.0 / tps, cpu_scaling='const', storage_read_gb=60.0 / tps)] for _ in range(nops)]
    full = [m for sg in opsegs for m in X.probe_script(sg, cpu, tps)]
    vals = sorted(set(full))
    pick = rng.choice(vals) if vals else 1.0
    ram = rng.choice([pick, math.floor(pick * 1024 - 1) / 1024.0, math.floor(pick * 1024 + 1) / 1024.0, max(vals) + 1, max(vals)])
    ram = max(ram, 1.0 / 1024)
    dag = [[j - 1] if j else [] for j in range(nops)]
    if rng.random() < 0.3:
        # not a chain: roots after children, operators of different depth side by side; a container runs its
        # operators in the order the assignment lists them (any order in which parents come first is admissible)
        dag = [[rng.randrange(j)] if (j and rng.random() < 0.5) else [] for j in range(nops)]
    recipe = dict(gen='G-time-container', tps=tps, over=0, multi=1, npools=1, cpu=8, ram=4096, pipes=[(3, dag)],
                  segs=[opsegs], ticks=[dict(susp=[], asg=[(list(range(nops)), cpu, ram, 3, 0)])], bad=None)
    recipe['ticks'] += [dict(susp=[], asg=[]) for _ in range(len(full) + 2)]
    return recipe


def replay(recipe):
    if recipe.get('gen') == 'G-time':
        return time_case(recipe)
    case, hits, _ = P.drive(recipe, MASK, container_monitor, 'time-model')
    return case, hits


def run(ctx):
    cases, hits = [], []
    st = collections.Counter()
    seen = set()
    for i in range(ctx.budget(1500, 30000)):
        rng = ctx.case_rng('G-time', i)
        rec = gen_time(rng)
        c, h = time_case(rec)
        cases.append(c)
        hits += h
        st['operators'] += 1
        st['script_ticks'] += c['obs'][0]
        st[f'tps_{rec["tps"]}'] += 1
        for s in rec['segs']:
            st['law_' + s['cpu_scaling']] += 1
            st['fixed_memory_segments'] += s.get('memory_gb') is not None
        st['one_tick_minimum_cases'] += c['obs'][0] == 1
        seen.add(tuple(c['inp']))
    for i in range(ctx.budget(250, 4000)):
        rng = ctx.case_rng('G-time-container', i)
        rec = gen_container(rng)
        case, h, run_ = P.drive(rec, MASK, container_monitor, 'time-model')
        cases.append(case)
        hits += h
        st['containers'] += 1
        for e in run_.trace:
            if not e['err']:
                st['container_oom'] += sum(x['err'] for x in e['results'])
                st['container_success'] += sum(1 - x['err'] for x in e['results'])
        seen.add(tuple(case['inp']))
    return dict(cases=cases, hits=hits, dist=dict(st), distinct_nontrivial=len(seen),
                rule='G-time: single operators of 1-3 segments, all seven laws, cpus 1..64, tick rates 1..100000, sizes on / '
                     'just below / just above tick boundaries, zero and tiny durations: Timing.v (float-faithful) vs the '
                     'probed per-tick demand, bit-exact; G-time-container: one container of 1-4 operators on a roomy pool '
                     'with the allocation at / just below / just above a per-tick demand value: memory, states, result tick. '
                     'non-trivial = distinct inputs',
                samples=[cases[0]['recipe'], cases[-1]['recipe']['segs'][0][:2]])
