"""C02 Operator lifecycle follows the documented state machine; completion is final."""
from collections import deque

from harness import impl
from harness import execdrv as X
from harness import execprops as EP
from harness.impl import OST, OST_IDX, World, all_dags, random_dag, enc_pipes, enc_list, err_code

ID = 'C02'
KIND_LIFE = 2
BRIDGE = [
    ('ostates', 'ext_ostates = all_ostates', 'reflexivity.'),
    ('valid_transitions', 'ext_valid_transitions = valid_table', 'reflexivity.'),
    ('assignable_target', 'assignable = (fun a => valid a ext_assignable_target)', 'reflexivity.'),
    ('check_prog', 'ext_check_prog = check_prog', 'reflexivity.'),
    ('transition_prog', 'ext_transition_prog = transition_prog', 'reflexivity.'),
]


def K_ALL_KINDS(ctx):
    """thorough tier: the exhaustive enumerations are evaluated in the kernel as well, not only by extraction"""
    return (2,) if ctx.thorough else ()


ASSUMPTIONS = ['requests on operators of the pipelines given (in range); Python run without -O']

# the documented machine, written here from the property text (independent of the model)
EDGES = {(0, 1), (1, 2), (2, 4), (1, 5), (2, 5), (5, 1), (1, 3), (3, 0)}
P, A, R, S, Cc, F = range(6)


def drive(recipe):
    """recipe: dict(pipes=[(prio, dag)], reqs=[(op, target)]). Runs it on real pipelines.
    Returns (case, hits)."""
    pipes, reqs = recipe['pipes'], recipe['reqs']
    w = World(pipes)
    out, hits = [], []
    completed = set()
    for n, (op, tgt) in enumerate(reqs):
        if n % 2 == 1:
            # what a scheduler or the REST bridge does between two requests: read-only queries on every pipeline
            from eudoxia.workload.runtime_status import ASSIGNABLE_STATES
            for p in w.pipes:
                p.to_dict()
                p.runtime_status().get_ops(ASSIGNABLE_STATES, require_parents_complete=False)
                p.runtime_status().get_ops(ASSIGNABLE_STATES, require_parents_complete=True)
        before = w.states()
        counts_before = [[p.runtime_status().state_counts[s] for s in OST] for p in w.pipes]
        try:
            w.ops[op].transition(OST[tgt])
            code = 0
        except Exception as e:  # noqa
            code = err_code(e)
        out.append(code)
        after = w.states()
        counts_after = [[p.runtime_status().state_counts[s] for s in OST] for p in w.pipes]
        # ---- monitor (property statement, independent of the model)
        parents_done = all(before[w.gid[p]] == Cc for p in w.ops[op].parents)
        legal = (before[op], tgt) in EDGES and (tgt != R or parents_done)
        desc = None
        if legal and code != 0:
            desc = f'documented transition {before[op]}->{tgt} refused'
        elif not legal and code == 0:
            desc = f'undocumented transition {before[op]}->{tgt} accepted' + \
                   ('' if (before[op], tgt) not in EDGES or parents_done else ' (unfinished parent)')
        elif code != 0 and (after != before or counts_after != counts_before):
            desc = 'refused request changed states or counts'
        elif code == 0 and [i for i in range(len(after)) if after[i] != before[i]] not in ([op], []):
            desc = 'accepted request changed another operator'
        elif code == 0 and after[op] != tgt:
            desc = 'accepted request did not set the requested state'
        for k, p in enumerate(w.pipes):
            first = w.first[k]
            n_ops = len(pipes[k][1])
            hist = [sum(1 for i in range(first, first + n_ops) if after[i] == s) for s in range(6)]
            if counts_after[k] != hist and desc is None:
                desc = f'state_counts {counts_after[k]} differ from the histogram {hist}'
        for c in completed:
            if after[c] != Cc and desc is None:
                desc = f'completed operator {c} changed state'
        completed |= {i for i, s in enumerate(after) if s == Cc}
        if desc:
            hits.append(dict(desc=f'{desc} at request {n} {(op, tgt)}', signature='lifecycle', recipe=recipe,
                             gen=recipe.get('gen')))
            break
    out += w.dump()
    inp = enc_pipes(pipes) + enc_list(reqs, lambda r: [r[0], r[1]])
    return dict(kind=KIND_LIFE, inp=inp, obs=out, recipe=recipe, gen=recipe.get('gen')), hits


EXEC_MASK = X.M_STATES | X.M_LISTS | X.M_COUNTS


def exec_monitor(run):
    """finality and single ownership in executor histories"""
    done = set()
    for t, e in enumerate(run.trace):
        for sts in (e.get('pre_states'), e.get('states')):
            if not sts:
                continue
            for o in done:
                if sts[o] != Cc:
                    yield f'tick {t}: completed operator {o} changed state to {OST[sts[o]].value}'
            done |= {i for i, x in enumerate(sts) if x == Cc}
        if e.get('pre_states'):
            # between the end of the previous tick and the moment the executor is entered only Assignment constructors
            # ran: every change is a claim PENDING/FAILED -> ASSIGNED (whether or not the batch is refused afterwards)
            before_ = run.trace[t - 1]['states'] if t > 0 else [P] * len(e['pre_states'])
            for o, (x0, x1) in enumerate(zip(before_, e['pre_states'])):
                if x0 != x1 and not (x0 in (P, F) and x1 == A):
                    yield (f'tick {t}: building the assignments moved operator {o} from {OST[x0].value} to {OST[x1].value}: '
                           f'a claim is only possible from pending or failed, anything else must be refused')
        if e['err']:
            # a refused command: the only state changes allowed are the claims PENDING/FAILED -> ASSIGNED made by the
            # Assignment objects of the batch before the refusal (and, when the executor had started, documented moves);
            # the per-state counts always equal the histogram of the states
            before = run.trace[t - 1]["states"] if t > 0 else [P] * len(e["states"])
            started = e.get('pre_states') is not None
            for o, (x0, x1) in enumerate(zip(before, e['states'])):
                if x0 != x1 and not started and not (x0 in (P, F) and x1 == A):
                    yield (f'tick {t}: the command was refused ({e.get("exc", "")[:50]}) but operator {o} went '
                           f'{OST[x0].value} -> {OST[x1].value}, which is not a claim of the refused batch')
            for k, cnt in enumerate(e.get('counts') or []):
                first = run.w.first[k]
                n = len(run.r['pipes'][k][1])
                hist = [sum(1 for i in range(first, first + n) if e['states'][i] == s_) for s_ in range(6)]
                if cnt != hist:
                    yield f'tick {t}: after the refused command pipeline {k} state_counts {cnt} differ from the histogram {hist}'
            continue
        for a in e['cmd']['asg']:
            for o in a[0]:
                if t > 0 and 0 <= o < len(run.trace[t - 1]['states']) and run.trace[t - 1]['states'][o] == Cc:
                    yield f'tick {t}: completed operator {o} was handed to a container again'
        owner = {}
        for pi, p in enumerate(e['pools']):
            for c in p['active'] + p['suspending']:
                for o in c['ops'][c['opidx']:]:
                    if o in owner:
                        yield f'tick {t}: operator {o} belongs to live containers {owner[o]} and {c["cid"]}'
                    owner[o] = c['cid']
                    if e['states'][o] not in (A, R, S):
                        # an operator held by a live container that is PENDING or FAILED can be handed out again
                        yield (f'tick {t}: operator {o} is {OST[e["states"][o]].value} while live container {c["cid"]} still '
                               f'holds it (it can be assigned to a second container)')
        for i, x in enumerate(e['states']):
            if x in (A, R, S) and i not in owner:
                yield f'tick {t}: operator {i} is {OST[x].value} but belongs to no live container'
        for k, cnt in enumerate(e['counts']):
            first = run.w.first[k]
            n = len(run.r['pipes'][k][1])
            hist = [sum(1 for i in range(first, first + n) if e['states'][i] == s_) for s_ in range(6)]
            if cnt != hist:
                yield f'tick {t}: pipeline {k} state_counts {cnt} differ from the histogram {hist}'


def replay(recipe):
    if 'ticks' in recipe:
        case, hits, _ = EP.drive(recipe, EXEC_MASK, exec_monitor, 'lifecycle')
        return case, hits
    return drive(recipe)


def reachable(pipes):
    """BFS over status vectors reachable on the implementation; returns {vector: shortest path}."""
    n = sum(len(d) for _, d in pipes)
    start = tuple([0] * n)
    paths = {start: []}
    dq = deque([start])
    while dq:
        v = dq.popleft()
        for op in range(n):
            for tgt in range(6):
                w = World(pipes)
                okp = True
                for (o, t) in paths[v]:
                    w.ops[o].transition(OST[t])
                try:
                    w.ops[op].transition(OST[tgt])
                except Exception:
                    continue
                nv = tuple(w.states())
                if nv not in paths:
                    paths[nv] = paths[v] + [(op, tgt)]
                    dq.append(nv)
    return paths


def run(ctx):
    cases, hits = [], []
    dist = dict(shapes=0, vectors=0, requests=0, refused=0, accepted=0, random_histories=0)
    nmax = 3 if not ctx.thorough else 4
    # exhaustive transition relation
    for n in range(1, nmax + 1):
        for dag in all_dags(n):
            if n == 4 and not ctx.thorough:
                continue
            pipes = [(3, dag)]
            paths = reachable(pipes)
            dist['shapes'] += 1
            dist['vectors'] += len(paths)
            for v, path in paths.items():
                for op in range(n):
                    for tgt in range(6):
                        rec = dict(gen=f'G-life/{n}', pipes=pipes, reqs=path + [(op, tgt)])
                        c, h = drive(rec)
                        cases.append(c)
                        hits += h
                        dist['requests'] += 1
                        if c['obs'][len(path)] == 0:
                            dist['accepted'] += 1
                        else:
                            dist['refused'] += 1
    # random multi-pipeline histories (counts are per pipeline; get_ops order)
    nh = ctx.budget(150, 3000)
    for i in range(nh):
        rng = ctx.case_rng('G-life-rand', i)
        pipes = [(rng.choice([1, 2, 3]), random_dag(rng, rng.randint(1, 5))) for _ in range(rng.randint(1, 3))]
        n = sum(len(d) for _, d in pipes)
        w = World(pipes)
        reqs = []
        for _ in range(rng.randint(5, 40)):
            op = rng.randrange(n)
            cur = OST_IDX[w.ops[op].state()]
            if rng.random() < 0.75:
                succ = [b for (a, b) in EDGES if a == cur]
                tgt = rng.choice(succ) if succ else rng.randrange(6)
            else:
                tgt = rng.randrange(6)
            reqs.append((op, tgt))
            try:
                w.ops[op].transition(OST[tgt])
            except Exception:
                pass
        rec = dict(gen='G-life-rand', pipes=pipes, reqs=reqs)
        c, h = drive(rec)
        cases.append(c)
        hits += h
        dist['random_histories'] += 1
    ex = EP.run_property(ctx, EXEC_MASK, exec_monitor, 'lifecycle', [
        ('G-exec', 150, 3000, dict(p_bad=0.5)),
        ('G-exec-reassign', 80, 1500, dict(p_bad=1.0, bad_kinds=['asg-busy', 'asg-busy', 'asg-order', 'asg-parent', 'asg-dup-op', 'asg-dup-op',
                                                                 'asg-resume-suspending', 'asg-resume-suspending'])),
        ('G-exec-twins', 30, 500, dict(twins=True)),
        ('G-exec-overlap', 30, 500, dict(overlap=True)),
        ('G-exec-inflight', 80, 1500, dict(p_inflight=0.9, p_bad=0.0)),
        ('G-exec-inflight-over', 60, 1000, dict(p_inflight=0.9, p_bad=0.0, overcommit=True))])
    cases += ex['cases']
    hits += ex['hits']
    dist['executor'] = ex['dist']
    return dict(cases=cases, hits=hits, dist=dist, exhaustive=True,
                distinct_nontrivial=dist['accepted'] + dist['refused'],
                rule=f'every DAG on <= {nmax} operators x every status vector reachable on the implementation x '
                     'every (operator, target state) request (the whole transition relation), re-established on a '
                     'fresh pipeline by a shortest path; plus random request histories on 1-3 pipelines; executor command histories (G-exec) with states, counts and container lists per tick. '
                     'non-trivial = distinct (shape, vector, request) triples',
                samples=[cases[0]['recipe'], cases[len(cases) // 2]['recipe'], cases[-1]['recipe']])
