"""C04 Memory limits hold after every tick and reported usage is the real usage."""
from fractions import Fraction as F

from harness import execdrv as X
from harness import execprops as P

ID = 'C04'
MASK = X.M_MEM | X.M_RESULTS
TOL = F(1, 10 ** 6)
ASSUMPTIONS = ['memory demands are Python floats (the harness builds segments with float fields; CPython sum() treats '
               'ints without compensation); the monitor tolerance of 1e-6 GB for the IEEE drift between reconciles is justified at the harness scale by theorem '
               'C04_float_drift_harness_scale (<= 512 GB demands, <= 16 containers, <= 400000 container-ticks)']


def monitor(run):
    r = run.r
    for t, e in enumerate(run.trace):
        if e['err']:
            continue
        for pi, p in enumerate(e['pools']):
            tot = F(0)
            for c in p['active']:
                tot += F(c['mem'])
                if F(c['mem']) > F(c['ram']):
                    yield f'tick {t} pool {pi}: container {c["cid"]} uses {c["mem"]} GB > its allocation {c["ram"]}'
            if F(p['consumed']) > F(p['max_ram']) + TOL:
                yield f'tick {t} pool {pi}: pool uses {p["consumed"]} GB > capacity {p["max_ram"]}'
            if abs(F(p['consumed']) - tot) > TOL:
                yield f'tick {t} pool {pi}: reported usage {p["consumed"]} != sum of running containers {float(tot)}'
        # every kill is justified
        fails = [x for x in e['results'] if x['err']]
        if fails:
            ok_cids = {x['cid'] for x in e['results'] if not x['err']}
            for pi in range(r['npools']):
                ticked = [cid for cid in e['demand'] if run.info[cid]['pool'] == pi]
                own = {cid for cid in ticked if e['demand'][cid] is not None
                       and F(e['demand'][cid]) > F(run.info[cid]['ram'])}
                total = sum(F(e['demand'][cid]) for cid in ticked
                            if cid not in ok_cids and cid not in own and e['demand'][cid] is not None)
                cap = F(e['pools'][pi]['max_ram'])
                for x in fails:
                    if x['pool'] != pi or x['cid'] in own:
                        continue
                    if not r['over']:
                        yield (f'tick {t} pool {pi}: container {x["cid"]} killed within its allocation '
                               f'(demand {e["demand"].get(x["cid"])}, allocation {x["ram"]}) without overcommit')
                    elif total <= cap - TOL:
                        yield (f'tick {t} pool {pi}: container {x["cid"]} killed although the pool demand '
                               f'{float(total)} fits capacity {float(cap)}')


def replay(recipe):
    case, hits, _ = P.drive(recipe, MASK, monitor, 'memory')
    return case, hits


def run(ctx):
    out = P.run_property(ctx, MASK, monitor, 'memory', [
        ('G-exec', 200, 3000, {}),
        ('G-exec-over', 200, 3000, dict(overcommit=True)),
        ('G-exec-long', 10, 200, dict(max_ticks=500, p_bad=0.0)),
        ('G-exec-twins', 40, 600, dict(twins=True)),
        ('G-exec-burst', 80, 1200, dict(burst=True)),
        ('G-exec-waves', 80, 1500, dict(waves=True)),
        ('G-exec-over-susp', 60, 1200, dict(over_susp=True)),
        ('G-exec-oversell', 60, 1000, dict(p_bad=1.0, bad_kinds=['asg-ram+'], bad_early=True)),
    ], nontrivial=lambda run: any(x['err'] for e in run.trace if not e['err'] for x in e['results'])
        or any(e['cmd']['susp'] for e in run.trace))
    out['rule'] = ('G-exec command fuzzer (see C03) with fixed- and growing-memory operators sized around the allocations, '
                   'overcommitted pools steered across capacity; projection: per-container usage, pool usage (bit-exact: '
                   'the model rounds where Python does, including Neumaier sum), results. non-trivial = histories with '
                   'a kill or a suspension')
    return out
