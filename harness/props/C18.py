"""C18 overbook: one operator and one CPU per container, full-pool RAM, CPU-bound."""
import collections
from fractions import Fraction as F

from harness import simdrv as S
from harness import simprops as SP

ID = 'C18'
BRIDGE_IMPORTS = 'From Eudoxia Require Import Model.SchedSrc.\n'
BRIDGE = [('sched_overbook', 'ext_sched_overbook = sched_overbook_src', 'reflexivity.')]
MASK = S.M_DEC | S.M_RES | S.M_POOLS
ASSUMPTIONS = ['overcommit enabled (the configuration the scheduler is written for)']


def monitor(run):
    fails = collections.Counter()     # pipeline -> failed containers the scheduler has been told about
    for rd in SP.rounds(run) + SP.failed_rounds(run):
        t = rd.t
        for x in rd.results_in:
            if x['err']:
                fails[SP.pipe_of(run, x['ops'][0])] += 1
        if rd.susp:
            yield f'tick {t}: the scheduler suspended a container'
        for (ops, cpu, ram, prio, pool) in rd.asg:
            if len(ops) != 1 or cpu != 1 or F(ram) != F(rd.pools_before[pool]['max_ram']):
                yield f'tick {t}: container ops={ops} cpu={cpu} ram={ram} (want one operator, 1 CPU, the pool RAM {rd.pools_before[pool]["max_ram"]})'
                continue
            o = ops[0]
            if rd.states_before[o] not in (0, 5) or not SP.parents_done(run, rd.states_before, o):
                yield f'tick {t}: operator {o} was not ready'
            k = SP.pipe_of(run, o)
            if fails[k] >= 3:
                yield f'tick {t}: pipeline {k} assigned again after {fails[k]} of its containers failed'
        for pi, p in enumerate(rd.d['pools']):
            if len(p['active']) + len(p['suspending']) > p['max_cpu']:
                yield f'tick {t}: pool {pi} runs {len(p["active"])} containers with {p["max_cpu"]} CPUs'
        if (rd.new or rd.results_in) and not rd.failed:
            free = [rd.free_after(pi)[0] for pi in range(run.r['npools'])]
            if any(f >= 1 for f in free):
                for k in SP.arrived(run, t):
                    if fails[k] >= 3:
                        continue
                    lo, n = run.w.first[k], len(run.r['pipes'][k][1])
                    for o in range(lo, lo + n):
                        if rd.pre[o] in (0, 5) and SP.parents_done(run, rd.pre, o):
                            yield (f'tick {t}: ready operator {o} of pipeline {k} waits although free CPUs per pool '
                                   f'after the round are {free}')


def replay(recipe):
    return SP.replay(recipe, MASK, monitor, 'overbook-contract')


def run(ctx):
    out = SP.run_streams(ctx, MASK, monitor, 'overbook-contract', [
        ('G-sim-overbook', 320, 6000, dict(algo='overbook')),
        ('G-sim-saturate-overbook', 60, 1000, dict(saturate='overbook')),
        ('G-sim-overbook-abandon', 80, 1500, dict(abandon=True)),
        ('G-sim-overbook-branches', 40, 800, dict(branches='overbook')),
        ('G-sim-overbook-failready', 40, 800, dict(failready='overbook')),
    ])
    out['rule'] = ('whole run_simulator runs with the overbook scheduler, overcommit on, pools small enough that the '
                   'pool-level killer fires repeatedly (three-failure abandonment), DAG pipelines; compared per tick: '
                   'decisions, results, free resources. non-trivial = runs with an assignment')
    return out
