"""C16 priority-pool keeps batch work and latency-sensitive work on separate pools."""
from fractions import Fraction as F

from harness import simdrv as S
from harness import simprops as SP
from harness.impl import E_SCHED

ID = 'C16'
BRIDGE_IMPORTS = 'From Eudoxia Require Import Model.SchedSrc.\n'
BRIDGE = [('sched_priority_pool', 'ext_sched_priority_pool = sched_priority_pool_src', 'reflexivity.')]
MASK = S.M_DEC | S.M_RES | S.M_POOLS
ASSUMPTIONS = ['two pools, multi-operator containers (the configuration the scheduler supports; see known finding F10); '
               'with any other pool count the scheduler refuses to start (stream G-sim-ppool-npools)']


def monitor(run):
    last_fail = {}       # operator -> the failed result it was last part of
    for rd in SP.rounds(run) + SP.failed_rounds(run):
        t = rd.t
        for x in rd.results_in:
            if x['err']:
                for o in x['ops']:
                    if rd.states_before[o] != 4:
                        last_fail[o] = x
        if rd.susp:
            yield f'tick {t}: the scheduler suspended a container'
        for (ops, cpu, ram, prio, pool) in rd.asg:
            k = SP.pipe_of(run, ops[0])
            pp = run.r['pipes'][k][0]
            if prio != pp:
                yield f'tick {t}: container of pipeline {k} (priority {pp}) labelled priority {prio}'
            want = 1 if pp == 3 else 0
            if pool != want:
                yield f'tick {t}: container of a priority-{pp} pipeline placed on pool {pool}'
            if ops[0] in last_fail and rd.states_before[ops[0]] == 5:
                x = last_fail[ops[0]]
                unfinished = [o for o in x['ops'] if rd.states_before[o] != 4]
                if list(ops) != unfinished:
                    yield f'tick {t}: retry of container {x["cid"]} assigns {ops}, its unfinished operators are {unfinished}'
                pb = rd.pools_before[pool]
                if F(2 * x['cpu'], pb['max_cpu']) >= F(1, 2) or F(2 * F(x['ram'])) / F(pb['max_ram']) >= F(1, 2):
                    yield (f'tick {t}: retry with doubled request cpu={2 * x["cpu"]} ram={2 * x["ram"]} reaches half of the '
                           f'pool ({pb["max_cpu"]} CPUs, {pb["max_ram"]} GB) but was assigned')


def monitor_startup(run):
    """init_priority_pool_scheduler asserts `s.executor.num_pools == 2` (priority_pool.py:20): with any other pool
    count run_simulator must raise that assertion before the first tick; with two pools it must not"""
    n = run.r['npools']
    if n != 2:
        if not run.err:
            yield f'priority-pool ran to the end on {n} pools'
        elif run.ticks or run.err != E_SCHED:
            yield (f'priority-pool on {n} pools: expected the init assertion before tick 0, got {run.exc} after '
                   f'{len(run.ticks)} tick(s)')
    elif run.err == E_SCHED and not run.ticks and 'requires 2 pools' in (run.exc or ''):
        yield 'priority-pool refused to start on two pools'


def gen_npools(rng, gen='G-sim-ppool-npools'):
    recipe = S.gen_sim(rng, algo='priority-pool', gen=gen)
    recipe['npools'] = rng.choice([1, 3, 1, 3, 0, 4, 2])
    return recipe


def replay(recipe):
    if recipe.get('gen') == 'G-sim-ppool-npools':
        return SP.replay(recipe, MASK, monitor_startup, 'priority-pool-pool-count')
    return SP.replay(recipe, MASK, monitor, 'priority-pool-contract')


def run(ctx):
    out = SP.run_streams(ctx, MASK, monitor, 'priority-pool-contract', [
        ('G-sim-ppool', 300, 6000, dict(algo='priority-pool')),
        ('G-sim-saturate-ppool', 120, 2000, dict(saturate='priority-pool')),
        ('G-sim-ppool-stuck', 30, 500, dict(ppool_stuck=True)),
    ])
    # pool counts other than two: both sides must refuse before the first tick (model: sim_dump_main / sim_main)
    st = dict(out['dist'])
    for i in range(ctx.budget(28, 300)):
        rng = ctx.case_rng('G-sim-ppool-npools', i)
        recipe = gen_npools(rng)
        recipe['case_index'] = i
        case, run_ = S.drive(recipe, MASK)
        out['cases'].append(case)
        st['startup_runs'] = st.get('startup_runs', 0) + 1
        st['startup_refused'] = st.get('startup_refused', 0) + (run_.err == E_SCHED and not run_.ticks)
        st[f'startup_npools_{recipe["npools"]}'] = st.get(f'startup_npools_{recipe["npools"]}', 0) + 1
        for desc in monitor_startup(run_):
            out['hits'].append(dict(desc=desc, signature='priority-pool-pool-count', recipe=recipe,
                                    gen='G-sim-ppool-npools'))
            break
    out['dist'] = st
    out['rule'] = ('whole run_simulator runs with priority-pool on two pools, all priority mixes, RAM sized so that OOM '
                   'retries double 1-3 times and hit the 50% cut-off; compared per tick: decisions, results, free '
                   'resources; plus priority-pool on 0, 1, 3, 4 pools, which must be refused before tick 0 on both sides. '
                   'non-trivial = runs with an assignment')
    return out
