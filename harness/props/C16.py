"""C16 priority-pool keeps batch work and latency-sensitive work on separate pools."""
from fractions import Fraction as F

from harness import simdrv as S
from harness import simprops as SP

ID = 'C16'
BRIDGE_IMPORTS = 'From Eudoxia Require Import Model.SchedSrc.\n'
BRIDGE = [('sched_priority_pool', 'ext_sched_priority_pool = sched_priority_pool_src', 'reflexivity.')]
MASK = S.M_DEC | S.M_RES | S.M_POOLS
ASSUMPTIONS = ['two pools, multi-operator containers (the configuration the scheduler supports; see known finding F10)']


def monitor(run):
    last_fail = {}       # operator -> the failed result it was last part of
    for rd in SP.rounds(run):
        t = rd.t
        for x in rd.results_in:
            if x['err']:
                for o in x['ops']:
                    if rd.states_before[o] != 4:
                        last_fail[o] = x
        if rd.susp:
            yield f'tick {t}: the scheduler suspended a container'
        for (ops, cpu, ram, prio, pool) in rd.asg:
            k = SP.pipe_of(run, ops[0])
            pp = run.r['pipes'][k][0]
            if prio != pp:
                yield f'tick {t}: container of pipeline {k} (priority {pp}) labelled priority {prio}'
            want = 1 if pp == 3 else 0
            if pool != want:
                yield f'tick {t}: container of a priority-{pp} pipeline placed on pool {pool}'
            if ops[0] in last_fail and rd.states_before[ops[0]] == 5:
                x = last_fail[ops[0]]
                unfinished = [o for o in x['ops'] if rd.states_before[o] != 4]
                if list(ops) != unfinished:
                    yield f'tick {t}: retry of container {x["cid"]} assigns {ops}, its unfinished operators are {unfinished}'
                pb = rd.pools_before[pool]
                if F(2 * x['cpu'], pb['max_cpu']) >= F(1, 2) or F(2 * F(x['ram'])) / F(pb['max_ram']) >= F(1, 2):
                    yield (f'tick {t}: retry with doubled request cpu={2 * x["cpu"]} ram={2 * x["ram"]} reaches half of the '
                           f'pool ({pb["max_cpu"]} CPUs, {pb["max_ram"]} GB) but was assigned')


def replay(recipe):
    return SP.replay(recipe, MASK, monitor, 'priority-pool-contract')


def run(ctx):
    out = SP.run_streams(ctx, MASK, monitor, 'priority-pool-contract', [
        ('G-sim-ppool', 300, 6000, dict(algo='priority-pool')),
        ('G-sim-saturate-ppool', 120, 2000, dict(saturate='priority-pool')),
    ])
    out['rule'] = ('whole run_simulator runs with priority-pool on two pools, all priority mixes, RAM sized so that OOM '
                   'retries double 1-3 times and hit the 50% cut-off; compared per tick: decisions, results, free '
                   'resources. non-trivial = runs with an assignment')
    return out
