"""C19 The REST bridge is transparent and keeps its protocol promises.

G-rest: `run_simulator` with scheduler_algo='rest' against a loop-back HTTP server whose scheduling
policy is a pure function of the request body; every request body and reply is recorded; an independent
tap (a wrapper around the registered 'rest' function and around Executor.run_one_tick) snapshots the ground
truth from the objects. The same policy is then run in process (own payload builder, own poll rule, own
decision conversion) and the statistics of the two runs are compared.
Correspondence: kind 19 (the scheduler's bookkeeping: which ticks call, tick/sim_time, new / other /
complete ids, table sizes), kind 29 (replies through the real _parse_suspensions/_parse_assignments), kind 39 (the
WHOLE REST-driven simulation: Model/SimGen.v [gsim_tick] with Model/RestSim.v [rest_gstep] answering with the
recorded replies, against every recorded request body field by field, the decisions the executor was handed and
the results it returned, tick by tick; one case per HTTP run, layout in Model/RunRestSim.v)."""
import collections
import json
import math
import random
import re
import threading
import types
from fractions import Fraction as F
from http.server import BaseHTTPRequestHandler, ThreadingHTTPServer

from harness.impl import Q, enc_list, enc_pipes, err_code, OST, PRIO, PRIO_VAL
from harness import execdrv as X

from eudoxia.simulator import run_simulator
from eudoxia.workload import Workload
from eudoxia.workload.pipeline import Pipeline, Segment
from eudoxia.workload.runtime_status import OperatorState
from eudoxia.executor.container import Container
from eudoxia.executor.assignment import Assignment, Suspend
from eudoxia.scheduler import decorators as D
from eudoxia.scheduler import rest as R
from eudoxia.utils import Priority

ID = 'C19'
BRIDGE_IMPORTS = 'From Eudoxia Require Import Model.Rest.\n'
KIND_REST, KIND_CODEC, KIND_RESTSIM = 19, 29, 39
RESTSIM_CAP = 4800          # integers per kind-39 case (input + answer)
K_ALL_KINDS = (KIND_REST, KIND_RESTSIM)
SLACK = F(1, 10 ** 9)
OP_KEYS = {'id', 'state', 'is_assignable_state', 'parents_complete'}
INPROC_KEY = 'c19_inprocess'

BRIDGE = [
    ('rest_request_keys', 'ext_rest_request_keys = request_keys', 'reflexivity.'),
    ('rest_response_keys', 'ext_rest_response_keys = response_keys', 'reflexivity.'),
    ('pipeline_to_dict_keys', 'ext_pipeline_to_dict_keys = pipeline_keys', 'reflexivity.'),
    ('operator_to_dict_keys', 'ext_operator_to_dict_keys = operator_keys', 'reflexivity.'),
    ('pool_to_dict_keys', 'ext_pool_to_dict_keys = pool_keys', 'reflexivity.'),
    ('container_to_dict_keys', 'ext_container_to_dict_keys = container_keys', 'reflexivity.'),
    ('result_to_dict_keys', 'ext_result_to_dict_keys = result_keys', 'reflexivity.'),
    ('parse_suspension_keys', 'ext_parse_suspension_keys = suspension_keys', 'reflexivity.'),
    ('parse_assignment_keys', 'ext_parse_assignment_keys = assignment_keys', 'reflexivity.'),
    ('parse_assignment_fields', 'ext_parse_assignment_fields = assignment_fields', 'reflexivity.'),
    ('rest_scheduler_src', 'ext_rest_scheduler_src = rest_scheduler_src', 'reflexivity.'),
    ('rest_init_src', 'ext_rest_init_src = rest_init_src', 'reflexivity.'),
    ('operator_to_dict_src', 'ext_operator_to_dict_src = operator_to_dict_src', 'reflexivity.'),
    ('pipeline_to_dict_src', 'ext_pipeline_to_dict_src = pipeline_to_dict_src', 'reflexivity.'),
    ('go_request', 'same_keys ext_go_tags_ScheduleRequest request_keys = true', 'vm_compute; reflexivity.'),
    ('go_response', 'same_keys ext_go_tags_ScheduleResponse response_keys = true', 'vm_compute; reflexivity.'),
    ('go_pipeline', 'same_keys ext_go_tags_Pipeline pipeline_keys = true', 'vm_compute; reflexivity.'),
    ('go_operator', 'same_keys ext_go_tags_Operator operator_keys = true', 'vm_compute; reflexivity.'),
    ('go_pool', 'same_keys ext_go_tags_Pool pool_keys = true', 'vm_compute; reflexivity.'),
    ('go_container', 'same_keys ext_go_tags_Container container_keys = true', 'vm_compute; reflexivity.'),
    ('go_result', 'same_keys ext_go_tags_ExecutionResult result_keys = true', 'vm_compute; reflexivity.'),
    ('go_assignment', 'same_keys ext_go_tags_Assignment assignment_keys = true', 'vm_compute; reflexivity.'),
    ('go_suspension', 'same_keys ext_go_tags_Suspension suspension_keys = true', 'vm_compute; reflexivity.'),
    ('go_pointer_fields', 'ext_go_pointer_fields = go_pointer_keys', 'reflexivity.'),
    ('py_none_defaults', 'ext_py_none_default_fields = nullable_keys', 'reflexivity.'),
    ('go_naive_reads', 'forallb (fun k => existsb (String.eqb k) ext_go_field_names) ext_go_naive_fields = true',
     'vm_compute; reflexivity.'),
]
ASSUMPTIONS = [
    'HTTP transport, `requests` and JSON number formatting are not modelled; the Go reference client cannot be run '
    '(no toolchain): its struct tags and the fields main.go reads are compared textually with the emitted keys',
    'poll clock: a call tick may differ by one from the exact rule only where the exact elapsed time is within 1e-9 s '
    'of rest_poll_interval; at such ticks the in-process run follows the HTTP run',
    'kind 19 input: the success flags are read from the pipeline objects right after rest_scheduler returns '
    '(operator COMPLETED counts do not change inside the scheduler call); to keep cases small they are listed only for '
    'the pipelines the scheduler can look at in that tick (keys of s.other_pipelines before the call, and the arrivals)',
    'kind 39: the per-tick memory scripts of the operators are probed from the real Container for every (operator, cpus) '
    'pair that occurs in a recorded reply (as kind 5 does); the server is replaced by its recorded replies (the model '
    'does not run the policy); runs whose encoding exceeds ~4800 integers are cut to a prefix of their ticks; '
    'statistics are not part of the case',
    'a blind suspension may be refused by the executor (the payload does not say whether a container can be suspended): '
    'the AssertionError ends both the HTTP and the in-process run, which are then compared by error, tick and calls',
]


# ------------------------------------------------------------------------------------------------
# policies: pure functions of (request body, static configuration)

def ready_ops(p, taken):
    return [o for o in p['operators'] if o['is_assignable_state'] and o['parents_complete'] and o['id'] not in taken]


def policy_naive(body, cfg):
    """the Go reference (go/naive/main.go): one operator per pool, all free resources of the pool"""
    allp = body['new_pipelines'] + body['other_pipelines']
    taken, asg = set(), []
    for pool in body['pools']:
        if pool['avail_cpu'] <= 0 or pool['avail_ram_gb'] <= 0:
            continue
        for p in allp:
            if p['is_complete'] or (p['has_failures'] and not cfg.get('retry')):
                continue
            r = ready_ops(p, taken)
            if not r:
                continue
            asg.append(dict(operator_ids=[r[0]['id']], cpu=pool['avail_cpu'], ram_gb=pool['avail_ram_gb'],
                            pool_id=pool['pool_id'], priority=p['priority'], is_resume=False, force_run=False))
            taken.add(r[0]['id'])
            break
    return dict(suspensions=[], assignments=asg)


def policy_random(body, cfg):
    rng = random.Random(f"{cfg['seed']}/{body['tick']}")
    allp = body['new_pipelines'] + body['other_pipelines']
    state = {o['id']: o['state'] for p in allp for o in p['operators']}
    susp = []
    for pool in body['pools']:
        for c in pool['active_containers']:
            sts = [state.get(i) for i in c['operator_ids']]
            cur = next((k for k, s in enumerate(sts) if s != 'completed'), None)
            at_boundary = cur is not None and cur > 0 and sts[cur] == 'assigned'
            if (at_boundary and rng.random() < cfg['p_susp']) or \
                    (len(sts) >= 2 and rng.random() < cfg['p_blind']):
                susp.append(dict(container_id=c['container_id'], pool_id=pool['pool_id']))
    free = {pool['pool_id']: [pool['avail_cpu'], pool['avail_ram_gb']] for pool in body['pools']}
    taken, asg = set(), []
    for _ in range(rng.choice([0, 1, 1, 2, 3])):
        cand = [(p, o) for p in allp if not p['is_complete'] for o in ready_ops(p, taken)]
        if not cand:
            break
        p, o = cand[rng.randrange(len(cand))]
        ops = [o['id']]
        if cfg['multi'] and rng.random() < 0.6:
            more = [x['id'] for x in ready_ops(p, taken) if x['id'] != o['id']]
            ops += more[:rng.choice([1, 1, 2])]
        pool = body['pools'][rng.randrange(len(body['pools']))]
        cpu = rng.randint(1, 2)
        # 'big': allocations whose write-out on suspension takes several ticks (RAM/20 s)
        ram = rng.choice([4, 6, 8, 8]) if cfg.get('big') else rng.choice([1, 2, 3, 4, 1.5, 0.5])
        f = free[pool['pool_id']]
        if f[0] < cpu or f[1] < ram:
            continue
        f[0] -= cpu
        f[1] -= ram
        taken.update(ops)
        asg.append(dict(operator_ids=ops, cpu=cpu, ram_gb=ram, pool_id=pool['pool_id'], priority=p['priority'],
                        is_resume=rng.random() < 0.2, force_run=rng.random() < 0.2))
    return dict(suspensions=susp, assignments=asg)


def policy_idle(body, cfg):
    return dict(suspensions=[], assignments=[])


def policy_mixing(body, cfg):
    """packs one ready operator of each of TWO DIFFERENT pipelines into one assignment (admissible: Assignment does
    not forbid it; the container then reports under the first operator's pipeline); pairs as long as a pool has
    room; when no pair can be placed it behaves like the naive-like policy"""
    rng = random.Random(f"mix/{cfg['seed']}/{body['tick']}")
    allp = body['new_pipelines'] + body['other_pipelines']
    cand = []
    for p in allp:
        if p['is_complete'] or (p['has_failures'] and not cfg.get('retry')):
            continue
        r = ready_ops(p, set())
        if r:
            cand.append((p, r[0]))
    free = {pool['pool_id']: [pool['avail_cpu'], pool['avail_ram_gb']] for pool in body['pools']}
    asg = []
    for k in range(0, len(cand) - 1, 2):
        (p1, o1), (p2, o2) = cand[k], cand[k + 1]
        cpu = rng.randint(1, 2)
        ram = rng.choice([1, 2, 2, 3])
        pool = next((pid for pid, f in free.items() if f[0] >= cpu and f[1] >= ram), None)
        if pool is None:
            break
        free[pool][0] -= cpu
        free[pool][1] -= ram
        asg.append(dict(operator_ids=[o1['id'], o2['id']], cpu=cpu, ram_gb=ram, pool_id=pool,
                        priority=p1['priority'], is_resume=False, force_run=False))
    if not asg:
        return policy_naive(body, cfg)
    return dict(suspensions=[], assignments=asg)


def policy_chainpack(body, cfg):
    """for workloads whose pipelines are total-order chains (every operator depends on all earlier ones; the request
    only tells readiness, so the policy relies on that shape): packs the ready operator of an idle pipeline together
    with up to two operators that follow it (not ready yet: they start inside the container when their predecessor
    completes) into one small container, so that containers are killed with later operators still queued in them and
    the next round retries the upstream operator alone while its successors are still failed"""
    rng = random.Random(f"chain/{cfg['seed']}/{body['tick']}")
    free = {pool['pool_id']: [pool['avail_cpu'], pool['avail_ram_gb']] for pool in body['pools']}
    asg = []
    for p in body['new_pipelines'] + body['other_pipelines']:
        ops = p['operators']
        if p['is_complete'] or any(o['state'] in ('assigned', 'running', 'suspending') for o in ops):
            continue
        k = next((i for i, o in enumerate(ops) if o['is_assignable_state'] and o['parents_complete']), None)
        if k is None:
            continue
        pack = [ops[k]['id']]
        for o in ops[k + 1:k + 1 + rng.choice([0, 0, 1, 2, 2])]:
            if not o['is_assignable_state']:
                break
            pack.append(o['id'])
        cpu = rng.randint(1, 2)
        ram = rng.choice([0.5, 1, 1, 2, 3])
        pool = next((pid for pid, f in free.items() if f[0] >= cpu and f[1] >= ram), None)
        if pool is None:
            continue
        free[pool][0] -= cpu
        free[pool][1] -= ram
        asg.append(dict(operator_ids=pack, cpu=cpu, ram_gb=ram, pool_id=pool, priority=p['priority'],
                        is_resume=False, force_run=False))
    return dict(suspensions=[], assignments=asg)


POLICIES = dict(naive=policy_naive, random=policy_random, idle=policy_idle, mixing=policy_mixing,
                chainpack=policy_chainpack)


# ------------------------------------------------------------------------------------------------
# loop-back server

class Server:
    def __init__(self):
        self.policy, self.cfg = policy_idle, {}
        self.bodies, self.replies, self.inits, self.errors = [], [], [], []
        outer = self

        class H(BaseHTTPRequestHandler):
            def log_message(self, *a):
                pass

            def do_POST(self):
                try:
                    n = int(self.headers.get('Content-Length', '0'))
                    body = json.loads(self.rfile.read(n).decode())
                    if self.path == '/init':
                        outer.inits.append(body)
                        data = b'OK'
                    elif self.path == '/schedule':
                        reply = outer.policy(body, outer.cfg)
                        outer.bodies.append(body)
                        outer.replies.append(reply)
                        data = json.dumps(reply).encode()
                    else:
                        self.send_response(404)
                        self.end_headers()
                        return
                    self.send_response(200)
                    self.send_header('Content-Type', 'application/json')
                    self.send_header('Content-Length', str(len(data)))
                    self.end_headers()
                    self.wfile.write(data)
                except Exception as e:  # noqa
                    outer.errors.append(repr(e))
                    self.send_response(500)
                    self.end_headers()

        self.httpd = ThreadingHTTPServer(('127.0.0.1', 0), H)
        self.httpd.daemon_threads = True
        self.port = self.httpd.server_address[1]
        self.thread = threading.Thread(target=self.httpd.serve_forever, kwargs=dict(poll_interval=0.05), daemon=True)
        self.thread.start()

    def begin(self, policy, cfg):
        self.policy, self.cfg = policy, cfg
        self.bodies, self.replies, self.inits, self.errors = [], [], [], []

    def close(self):
        self.httpd.shutdown()
        self.httpd.server_close()
        self.thread.join(timeout=5)

    def __enter__(self):
        return self

    def __exit__(self, *a):
        self.close()


# ------------------------------------------------------------------------------------------------
# workloads

class ScriptWorkload(Workload):
    """emits hand-made DAG pipelines at given tick indices: arrivals = [(tick, prio, dag, segs)]"""

    def __init__(self, arrivals):
        self.by_tick = collections.defaultdict(list)
        for k, (t, prio, dag, segs) in enumerate(arrivals):
            self.by_tick[t].append((k, prio, dag, segs))
        self.t = 0

    def run_one_tick(self):
        out = []
        for k, prio, dag, segs in self.by_tick.get(self.t, []):
            p = Pipeline(f'p{k + 1}', PRIO[prio])
            local = []
            for i, parents in enumerate(dag):
                op = p.new_operator([local[j] for j in parents] if parents else None)
                local.append(op)
                for s in segs[i]:
                    op.add_segment(Segment(**s))
            out.append(p)
        self.t += 1
        return out


def params_of(r, algo, addr=None):
    p = dict(duration=r['duration'], ticks_per_second=r['tps'], scheduler_algo=algo,
             rest_poll_interval=r['poll'], num_pools=r['npools'], cpus_per_pool=r['cpu'],
             ram_gb_per_pool=r['ram'], multi_operator_containers=bool(r['multi']),
             allow_memory_overcommit=bool(r['over']), random_seed=r.get('wl_seed', 1))
    if addr:
        p['rest_scheduler_addr'] = addr
    if r.get('wl'):
        p.update(r['wl'])
    return p


def workload_of(r):
    return None if r.get('wl') else ScriptWorkload(r['arrivals'])


# ------------------------------------------------------------------------------------------------
# independent reading of the objects

def view_pipeline(p):
    rs = p.runtime_status()
    ops = list(p.values)
    st = {o: rs.operator_states[o] for o in ops}
    return dict(pipeline_id=p.pipeline_id, priority=p.priority.name, arrival_tick=rs.arrival_tick,
                is_complete=all(s == OperatorState.COMPLETED for s in st.values()),
                has_failures=any(s == OperatorState.FAILED for s in st.values()),
                operators=[dict(id=str(o.id), state=st[o].value,
                                is_assignable_state=st[o] in (OperatorState.PENDING, OperatorState.FAILED),
                                parents_complete=all(rs.operator_states[q] == OperatorState.COMPLETED for q in o.parents))
                           for o in ops])


def view_container(c):
    pids = {o.pipeline.pipeline_id for o in c.assignment.ops if o.pipeline and o.pipeline.pipeline_id}
    pid = 'no_pipeline' if not pids else (next(iter(pids)) if len(pids) == 1 else 'multiple_pipelines')
    return dict(container_id=c.container_id, pipeline_id=pid, operator_ids=[str(o.id) for o in c.assignment.ops],
                cpu=c.assignment.cpu, ram_gb=c.assignment.ram, current_memory_gb=c._current_memory,
                priority=c.assignment.priority.name)


def view_pool(p):
    return dict(pool_id=p.pool_id, max_cpu=p.max_cpu_pool, max_ram_gb=p.max_ram_pool, avail_cpu=p.avail_cpu_pool,
                avail_ram_gb=p.avail_ram_pool, consumed_ram_gb=p.consumed_ram_gb,
                active_containers=[view_container(c) for c in p.active_containers],
                suspending_containers=[view_container(c) for c in p.suspending_containers],
                suspended_containers=[view_container(c) for c in p.suspended_containers])


def view_result(r):
    return dict(ops=[str(o.id) for o in r.ops], cpu=r.cpu, ram=r.ram, priority=r.priority.name, pool_id=r.pool_id,
                container_id=r.container_id, error=r.error)


def view_decisions(susp, asg):
    return dict(suspensions=[dict(container_id=s.container_id, pool_id=s.pool_id) for s in susp],
                assignments=[dict(operator_ids=[str(o.id) for o in a.ops], cpu=a.cpu, ram_gb=a.ram,
                                  priority=a.priority.name, pool_id=a.pool_id, is_resume=a.is_resume,
                                  force_run=a.force_run, pipeline_id=a.pipeline_id,
                                  first_op_pipeline=a.ops[0].pipeline.pipeline_id) for a in asg])


class Tap:
    """ground truth of one run, collected around the scheduling function and around the executor"""

    def __init__(self, server=None):
        self.server = server
        self.ticks = []            # one entry per scheduler invocation
        self.arrived = []          # Pipeline objects in arrival order
        self.pnum = {}             # pipeline_id -> number (arrival order)
        self.onum = {}             # operator uuid string -> number (registration order)
        self.exec_results = []     # per executor tick: list of result views
        self.exec_received = []    # per executor tick: decisions the executor was handed
        self.hooked = False

    def note_arrivals(self, pipelines):
        for p in pipelines:
            self.arrived.append(p)
            self.pnum.setdefault(p.pipeline_id, len(self.pnum) + 1)
            for o in p.values:
                self.onum.setdefault(str(o.id), len(self.onum) + 1)

    def hook_executor(self, ex):
        if self.hooked:
            return
        self.hooked = True
        orig = ex.run_one_tick
        tap = self

        def run_one_tick(suspensions, assignments):
            tap.exec_received.append(view_decisions(suspensions, assignments))
            res = orig(suspensions, assignments)
            tap.exec_results.append([view_result(r) for r in res])
            return res
        ex.run_one_tick = run_one_tick

    def wrap(self, orig):
        tap = self

        def rest_tapped(s, results, pipelines):
            tap.hook_executor(s.executor)
            tap.note_arrivals(pipelines)
            ent = dict(t=len(tap.ticks) + 1, new=[p.pipeline_id for p in pipelines], nres=len(results),
                       pipes={p.pipeline_id: view_pipeline(p) for p in tap.arrived},
                       pools=[view_pool(p) for p in s.executor.pools],
                       b0=len(tap.server.bodies), exc=None)
            tap.ticks.append(ent)
            relevant = set(s.other_pipelines.keys()) | set(ent['new'])
            try:
                out = orig(s, results, pipelines)
            except BaseException as e:
                ent['exc'] = f'{type(e).__name__}: {e}'
                raise
            ent['b1'] = len(tap.server.bodies)
            ent['succ'] = [tap.pnum[p.pipeline_id] for p in tap.arrived
                           if p.pipeline_id in relevant and p.runtime_status().is_pipeline_successful()]
            ent['lookup'] = len(s.operator_lookup)
            ent['other_after'] = len(s.other_pipelines)
            ent['returned'] = view_decisions(*out)
            return out
        return rest_tapped


def norm_exc(e):
    msg = re.sub(r'[0-9a-f]{8}-[0-9a-f]{4}-[0-9a-f]{4}-[0-9a-f]{4}-[0-9a-f]{12}', 'UUID', str(e))
    return f'{type(e).__name__}: {msg}'[:160]


def run_http(r, server):
    """the run under test; returns (stats or None, error or None, tap)"""
    server.begin(POLICIES[r['policy']['name']], r['policy'])
    tap = Tap(server)
    saved = D.SCHEDULING_ALGOS['rest']
    saved_num = Container.next_container_num
    D.SCHEDULING_ALGOS['rest'] = tap.wrap(saved)
    stats = err = None
    try:
        stats = run_simulator(params_of(r, 'rest', f'127.0.0.1:{server.port}'), workload=workload_of(r))
    except (AssertionError, AttributeError, KeyError, IndexError) as e:
        err = norm_exc(e)
        tap.err_code = err_code(e)
    finally:
        D.SCHEDULING_ALGOS['rest'] = saved
        tap.base = saved_num
        Container.next_container_num = saved_num
    tap.bodies, tap.replies = list(server.bodies), list(server.replies)
    tap.server_errors = list(server.errors)
    tap.inits = list(server.inits)
    return stats, err, tap


# ------------------------------------------------------------------------------------------------
# the same policy in process

class InProc:
    def __init__(self, r, http_calls, http_ticks):
        self.r = r
        self.http_ticks = http_ticks
        self.policy, self.cfg = POLICIES[r['policy']['name']], r['policy']
        self.tps, self.poll = r['tps'], F(repr(float(r['poll'])))
        self.http_calls = http_calls
        self.t, self.last = 0, 0
        self.known = {}            # pipeline_id -> Pipeline, arrival order
        self.ops = {}
        self.calls, self.followed, self.offbound = [], 0, []
        self.decisions = []

    def tick(self, s, results, pipelines):
        self.t += 1
        gap = F(self.t - self.last, self.tps)
        events = bool(pipelines) or bool(results)
        want = events or gap >= self.poll
        if not events and self.t <= self.http_ticks and want != (self.t in self.http_calls):
            if abs(gap - self.poll) <= SLACK:
                want = self.t in self.http_calls
                self.followed += 1
            else:
                self.offbound.append(self.t)
        if not want:
            return [], []
        self.last = self.t
        self.calls.append(self.t)
        for p in pipelines:
            for o in p.values:
                self.ops[str(o.id)] = o
        body = dict(tick=self.t, sim_time_seconds=self.t / self.tps, results=[view_result(x) for x in results],
                    new_pipelines=[view_pipeline(p) for p in pipelines],
                    other_pipelines=[view_pipeline(p) for p in self.known.values()],
                    pools=[view_pool(p) for p in s.executor.pools])
        reply = self.policy(body, self.cfg)
        self.decisions.append(reply)
        susp = [Suspend(x['container_id'], x['pool_id']) for x in reply['suspensions']]
        asg = []
        for a in reply['assignments']:
            ops = [self.ops[i] for i in a['operator_ids']]
            asg.append(Assignment(ops, a['cpu'], a['ram_gb'], Priority[a['priority']], a['pool_id'],
                                  ops[0].pipeline.pipeline_id, is_resume=a['is_resume'], force_run=a['force_run']))
        for p in pipelines:
            self.known[p.pipeline_id] = p
        for pid in [k for k, p in self.known.items()
                    if all(x == OperatorState.COMPLETED for x in p.runtime_status().operator_states.values())]:
            del self.known[pid]
        return susp, asg


_CUR = [None]


def _inproc_init(s):
    pass


def _inproc_sched(s, results, pipelines):
    return _CUR[0].tick(s, results, pipelines)


def run_inproc(r, http_calls, http_ticks):
    ip = InProc(r, set(http_calls), http_ticks)
    saved_num = Container.next_container_num
    assert INPROC_KEY not in D.SCHEDULING_ALGOS and INPROC_KEY not in D.INIT_ALGOS
    D.register_scheduler_init(key=INPROC_KEY)(_inproc_init)
    D.register_scheduler(key=INPROC_KEY)(_inproc_sched)
    _CUR[0] = ip
    stats = err = None
    try:
        stats = run_simulator(params_of(r, INPROC_KEY), workload=workload_of(r))
    except (AssertionError, AttributeError, KeyError, IndexError) as e:
        err = norm_exc(e)
    finally:
        _CUR[0] = None
        D.SCHEDULING_ALGOS.pop(INPROC_KEY, None)
        D.INIT_ALGOS.pop(INPROC_KEY, None)
        Container.next_container_num = saved_num
    return stats, err, ip


def stats_diff(a, b, path=''):
    """ints exactly, floats to 1e-9 relative, NaN == NaN"""
    if isinstance(a, dict) and isinstance(b, dict):
        if set(a) != set(b):
            return f'{path}: keys {sorted(map(str, a))} vs {sorted(map(str, b))}'
        for k in a:
            d = stats_diff(a[k], b[k], f'{path}.{k}')
            if d:
                return d
        return None
    if isinstance(a, bool) or isinstance(b, bool) or (isinstance(a, int) and isinstance(b, int)):
        return None if a == b else f'{path}: {a} vs {b}'
    fa, fb = float(a), float(b)
    if math.isnan(fa) or math.isnan(fb):
        return None if math.isnan(fa) and math.isnan(fb) else f'{path}: {a} vs {b}'
    return None if abs(fa - fb) <= 1e-9 * max(abs(fa), abs(fb)) else f'{path}: {a} vs {b}'


# ------------------------------------------------------------------------------------------------
# monitors over the recorded bodies

def num_eq(a, b):
    if a is None or b is None or isinstance(a, (str, bool)) or isinstance(b, (str, bool)):
        return a == b and type(a) == type(b)
    return F(a) == F(b)


def dict_diff(got, want, where, labels=('sent', 'true value')):
    """first difference between a JSON-decoded dict and the independently built view"""
    if isinstance(want, dict):
        if not isinstance(got, dict) or set(got) != set(want):
            return f'{where}: keys {sorted(got) if isinstance(got, dict) else got} expected {sorted(want)}'
        for k in want:
            d = dict_diff(got[k], want[k], f'{where}.{k}', labels)
            if d:
                return d
        return None
    if isinstance(want, list):
        if not isinstance(got, list) or len(got) != len(want):
            return f'{where}: {len(got) if isinstance(got, list) else got} entries, expected {len(want)}'
        for i, (g, w) in enumerate(zip(got, want)):
            d = dict_diff(g, w, f'{where}[{i}]', labels)
            if d:
                return d
        return None
    return None if num_eq(got, want) else f'{where}: {labels[0]} {got!r}, {labels[1]} {want!r}'


def monitor(r, tap, stats, err):
    """yields (signature, description)"""
    tps, poll = r['tps'], F(repr(float(r['poll'])))
    if tap.server_errors:
        yield 'server', f'the scripted server failed: {tap.server_errors[0]}'
    if len(tap.inits) != 1 or set(tap.inits[0]) != {'params'}:
        yield 'init', f'/init called {len(tap.inits)} times with keys {[sorted(b) for b in tap.inits[:2]]}'
    reported = {}          # pipeline_id -> tick of the request that showed it complete
    seen = []              # pipeline ids shown so far and not yet reported complete, in order of first appearance
    last_call = 0
    for ent in tap.ticks:
        t = ent['t']
        if ent['exc'] is not None:
            break
        nb = ent['b1'] - ent['b0']
        if nb > 1:
            yield 'call-count', f'tick {t}: {nb} requests in one tick'
        events = bool(ent['new']) or ent['nres'] > 0
        gap = F(t - last_call, tps)
        if nb == 0:
            if events:
                yield 'call-missing', (f'tick {t}: {len(ent["new"])} pipelines arrived, {ent["nres"]} results, '
                                       f'but no request was sent')
            elif gap >= poll + SLACK:
                yield 'poll-late', (f'tick {t}: no request although {float(gap)} s >= rest_poll_interval {float(poll)} '
                                    f'passed since the last one (tick {last_call})')
            continue
        body = tap.bodies[ent['b0']]
        if not events and gap < poll - SLACK:
            yield 'call-too-early', (f'tick {t}: request without arrivals or results only {float(gap)} s after the '
                                     f'previous one (tick {last_call}), rest_poll_interval={float(poll)}')
        last_call = t
        # --- keys
        if set(body) != {'tick', 'sim_time_seconds', 'results', 'new_pipelines', 'other_pipelines', 'pools'}:
            yield 'payload-truth', f'tick {t}: request keys {sorted(body)}'
            continue
        for p in body['new_pipelines'] + body['other_pipelines']:
            for o in p.get('operators', []):
                if set(o) != OP_KEYS:
                    yield 'operator-keys', (f'tick {t}: operator dict of pipeline {p.get("pipeline_id")} has keys '
                                            f'{sorted(o)}: extra {sorted(set(o) - OP_KEYS)}, missing {sorted(OP_KEYS - set(o))}')
        # --- tick, time
        if body['tick'] != t:
            yield 'payload-truth', f'tick {t}: request says tick {body["tick"]}'
        if abs(F(body['sim_time_seconds']) - F(t, tps)) > F(t, tps) * F(1, 2 ** 52):
            yield 'payload-truth', f'tick {t}: sim_time_seconds {body["sim_time_seconds"]} is not {t}/{tps}'
        # --- results of the last tick
        want_res = tap.exec_results[t - 2] if t >= 2 else []
        d = dict_diff(body['results'], want_res, 'results')
        if d:
            yield 'results-truth', f'tick {t}: {d} (executor results of tick {t - 1}: {len(want_res)})'
        for x in body['results']:
            if x.get('container_id') is None:
                yield 'result-null-container', f'tick {t}: a result without container_id (Go type is a plain string)'
        # --- pools and containers
        d = dict_diff(body['pools'], ent['pools'], 'pools')
        if d:
            yield 'payload-truth', f'tick {t}: {d}'
        # --- pipelines
        new_ids = [p['pipeline_id'] for p in body['new_pipelines']]
        other_ids = [p['pipeline_id'] for p in body['other_pipelines']]
        both = set(new_ids) & set(other_ids)
        if both or len(set(new_ids)) != len(new_ids) or len(set(other_ids)) != len(other_ids):
            yield 'new-other-overlap', (f'tick {t}: new_pipelines {new_ids} and other_pipelines {other_ids} '
                                        f'are not disjoint / duplicate-free: {sorted(both)}')
        if new_ids != ent['new']:
            yield 'payload-truth', f'tick {t}: new_pipelines {new_ids}, arrived in this tick {ent["new"]}'
        for p in body['new_pipelines'] + body['other_pipelines']:
            pid = p['pipeline_id']
            if pid in reported:
                yield 'complete-once', (f'tick {t}: pipeline {pid} is listed again (is_complete={p["is_complete"]}) '
                                        f'after it was reported complete in tick {reported[pid]}')
            want = ent['pipes'].get(pid)
            if want is None:
                yield 'payload-truth', f'tick {t}: unknown pipeline {pid}'
                continue
            got = dict(p)
            if isinstance(p.get('operators'), list) and len(p['operators']) == len(want['operators']):
                # operators are matched by id; order is not part of the promise
                by = {o.get('id'): o for o in p['operators']}
                got['operators'] = [by.get(o['id'], {}) for o in want['operators']]
            d = dict_diff(got, want, f'pipeline {pid}')
            if d:
                yield 'payload-truth', f'tick {t}: {d}'
        if set(other_ids) != set(seen):
            yield 'other-set', (f'tick {t}: other_pipelines {other_ids}; announced earlier and not yet reported '
                                f'complete: {seen}')
        for p in body['new_pipelines'] + body['other_pipelines']:
            pid = p['pipeline_id']
            if p.get('is_complete') and pid not in reported:
                reported[pid] = t
        seen = [x for x in seen + [i for i in new_ids if i not in seen] if x not in reported]
        # --- decisions executed as given
        reply = tap.replies[ent['b0']]
        ret = ent.get('returned')
        if ret is not None:
            strip = dict(suspensions=ret['suspensions'],
                         assignments=[{k: v for k, v in a.items() if k not in ('pipeline_id', 'first_op_pipeline')}
                                      for a in ret['assignments']])
            d = dict_diff(strip, reply, 'decisions', ('handed to the executor:', 'in the reply:'))
            if d:
                yield 'decision-altered', f'tick {t}: {d}'
            for a in ret['assignments']:
                if a['pipeline_id'] != a['first_op_pipeline']:
                    yield 'decision-altered', f'tick {t}: assignment pipeline_id {a["pipeline_id"]} != {a["first_op_pipeline"]}'
            if t - 1 < len(tap.exec_received) and tap.exec_received[t - 1] != ret:
                yield 'decision-altered', f'tick {t}: the executor was handed something else than the parsed reply'
    # a pipeline that completed is reported: every successful pipeline of the last snapshot that was ever
    # listed must have been reported complete, unless no request followed its completion
    if stats is not None and tap.ticks:
        calls = [e['t'] for e in tap.ticks if e.get('b1', e['b0']) > e['b0']]
        for pid, tick_rep in reported.items():
            n = sum(1 for e in tap.ticks if e.get('b1', e['b0']) > e['b0']
                    for p in tap.bodies[e['b0']]['new_pipelines'] + tap.bodies[e['b0']]['other_pipelines']
                    if p['pipeline_id'] == pid and p['is_complete'])
            if n != 1:
                yield 'complete-once', f'pipeline {pid} reported complete in {n} requests'
        del calls


def tap_pipe_of(tap, op_id):
    for p in tap.arrived:
        if any(str(o.id) == op_id for o in p.values):
            return p.pipeline_id
    return None


def call_ticks(tap):
    return [e['t'] for e in tap.ticks if e.get('b1', e['b0']) > e['b0']]


def norm_reply(reply, onum, base):
    """decisions with run-specific tokens (uuids, container numbers) made comparable across runs"""
    return dict(suspensions=[(int(s['container_id'][1:]) - base, s['pool_id']) for s in reply['suspensions']],
                assignments=[([onum.get(i, i) for i in a['operator_ids']], a['cpu'], a['ram_gb'], a['priority'],
                              a['pool_id'], a['is_resume'], a['force_run']) for a in reply['assignments']])


# ------------------------------------------------------------------------------------------------
# correspondence cases

def rest_case(r, tap):
    """kind 19: what the scheduler's bookkeeping did, against Model/Rest.v [rest_step]"""
    ticks = [e for e in tap.ticks if e['exc'] is None and 'b1' in e]
    inp = [r['tps']] + Q(float(r['poll']))
    rows, obs = [], []
    start = size = 0
    for e in ticks:
        new = tap.arrived[start:start + len(e['new'])]
        start += len(e['new'])
        row = (enc_list(new, lambda p: [tap.pnum[p.pipeline_id]] + enc_list([tap.onum[str(o.id)] for o in p.values]))
               + [e['nres']] + enc_list(e['succ']))
        if e['b1'] == e['b0']:
            ob = [0]
        else:
            b = tap.bodies[e['b0']]
            listed = b['new_pipelines'] + b['other_pipelines']
            ob = [1, b['tick']] + Q(b['sim_time_seconds']) + [len(b['results'])]
            ob += enc_list([tap.pnum.get(p['pipeline_id'], -1) for p in b['new_pipelines']])
            ob += enc_list([tap.pnum.get(p['pipeline_id'], -1) for p in b['other_pipelines']])
            ob += enc_list([tap.pnum.get(p['pipeline_id'], -1) for p in listed if p['is_complete']])
            ob += [e['lookup'], e['other_after']]
        size += len(row) + len(ob)
        if size > 4800 and rows:
            break          # the model runs tick by tick: a prefix of the history is a case of its own
        rows.append(row)
        obs += ob
    inp += [len(rows)] + [x for row in rows for x in row]
    return dict(kind=KIND_REST, inp=inp, obs=obs, recipe=r, gen=r['gen'])


# ------------------------------------------------------------------------------------------------
# kind 39: the whole REST-driven simulation against Model/RestSim.v inside Model/SimGen.v

P_VALS = {'QUERY': 1, 'INTERACTIVE': 2, 'BATCH_PIPELINE': 3}
STATE_IDX = {s.value: i for i, s in enumerate(OST)}


def zint(x):
    """a JSON number that the model keeps as an integer (CPU counts)"""
    f = F(x)
    if f.denominator != 1:
        raise ValueError(f'not an integer: {x!r}')
    return f.numerator


class Canon:
    """canonical numbers of one run: pipeline = arrival index (0-based), operator = global number by pipeline and
    insertion index (as harness.impl.World), container = number counted from Container.next_container_num at the
    start of the run; unknown tokens become -1"""

    def __init__(self, tap):
        self.base = tap.base
        self.pnum, self.onum, self.opobj, self.pipes = {}, {}, [], []
        for k, p in enumerate(tap.arrived):
            self.pnum.setdefault(p.pipeline_id, k)
            ins = [p.values.node_lookup[i] for i in p.values.node_ids]
            idx = {o: i for i, o in enumerate(ins)}
            for o in ins:
                self.onum[str(o.id)] = len(self.opobj)
                self.opobj.append(o)
            self.pipes.append((PRIO_VAL[p.priority], [[idx[q] for q in o.parents] for o in ins]))

    def pipe(self, pid):
        return self.pnum.get(pid, -1)

    def op(self, oid):
        return self.onum.get(oid, -1)

    def ops(self, ids):
        return enc_list([self.op(i) for i in ids])

    def cid(self, c):
        m = re.fullmatch(r'c(\d+)', c) if isinstance(c, str) else None
        return int(m.group(1)) - self.base if m else -1

    def tag(self, pid):
        return -1 if pid == 'no_pipeline' else -2 if pid == 'multiple_pipelines' else self.pipe(pid)


def enc_result_view(x, cn):
    return ([cn.cid(x['container_id'])] + cn.ops(x['ops']) + [zint(x['cpu'])] + Q(x['ram'])
            + [P_VALS.get(x['priority'], 0), x['pool_id'], int(x['error'] is not None)])


def enc_request(b, cn):
    """the digest of a recorded request body, field by field as Model/RunRestSim.v [dump_request]"""
    def pipe(p):
        return ([cn.pipe(p['pipeline_id']), P_VALS.get(p['priority'], 0)]
                + ([0] if p['arrival_tick'] is None else [1, p['arrival_tick']])
                + [int(p['is_complete']), int(p['has_failures'])]
                + enc_list(p['operators'], lambda o: [cn.op(o['id']), STATE_IDX.get(o['state'], -1),
                                                      int(o['is_assignable_state']), int(o['parents_complete'])]))

    def cont(c):
        return ([cn.cid(c['container_id']), cn.tag(c['pipeline_id'])] + cn.ops(c['operator_ids']) + [zint(c['cpu'])]
                + Q(c['ram_gb']) + Q(c['current_memory_gb']) + [P_VALS.get(c['priority'], 0)])

    def pool(p):
        return ([p['pool_id'], zint(p['max_cpu'])] + Q(p['max_ram_gb']) + [zint(p['avail_cpu'])] + Q(p['avail_ram_gb'])
                + Q(p['consumed_ram_gb']) + enc_list(p['active_containers'], cont)
                + enc_list(p['suspending_containers'], cont) + enc_list(p['suspended_containers'], cont))
    return ([b['tick']] + Q(b['sim_time_seconds']) + enc_list(b['results'], lambda x: enc_result_view(x, cn))
            + enc_list(b['new_pipelines'], pipe) + enc_list(b['other_pipelines'], pipe) + enc_list(b['pools'], pool))


def enc_reply(reply, cn):
    """a recorded reply in the wire form of Model/Rest.v [decode_reply], tokens replaced by canonical numbers"""
    return (enc_list(reply['suspensions'], lambda s: [cn.cid(s['container_id']), s['pool_id']])
            + enc_list(reply['assignments'], lambda a: cn.ops(a['operator_ids']) + Q(a['cpu']) + Q(a['ram_gb'])
                       + [P_VALS.get(a['priority'], 0), a['pool_id'], int(bool(a['is_resume'])), int(bool(a['force_run']))]))


def seg_dicts(op):
    return [dict(baseline_cpu_seconds=s.baseline_cpu_seconds, cpu_scaling=s.scaling_func,
                 storage_read_gb=s.storage_read_gb, memory_gb=s.memory_gb) for s in op.values]


def restsim_build(r, tap, cn, nticks):
    """the kind-39 case of the first `nticks` simulator ticks of the HTTP run. Everything in `obs` is read from the
    implementation run: the recorded request bodies, what the executor was handed and what it returned."""
    ticks = tap.ticks[:nticks]
    nbod = ticks[-1].get('b1', len(tap.bodies)) if ticks else 0
    obs = []
    for j, e in enumerate(ticks):
        b1 = e.get('b1', len(tap.bodies))
        nb = b1 - e['b0']
        obs.append(nb)
        for b in tap.bodies[e['b0']:b1]:
            obs += enc_request(b, cn)
        if j >= len(tap.exec_results):
            obs.append(getattr(tap, 'err_code', 0) or -2)      # the tick raised: the run ends here
            break
        d = tap.exec_received[j]
        obs.append(0)
        obs += enc_list(d['suspensions'], lambda s: [cn.cid(s['container_id']), s['pool_id']])
        obs += enc_list(d['assignments'], lambda a: cn.ops(a['operator_ids']) + [zint(a['cpu'])] + Q(a['ram_gb'])
                        + [P_VALS.get(a['priority'], 0), a['pool_id']])
        obs += enc_list(tap.exec_results[j], lambda x: enc_result_view(x, cn))
    replies = tap.replies[:nbod]
    npipes = sum(len(e['new']) for e in ticks)
    arrivals = [(j, cn.pipe(pid)) for j, e in enumerate(ticks) for pid in e['new']]
    used = {}
    for rep in replies:
        for a in rep['assignments']:
            for i in a['operator_ids']:
                k = (cn.op(i), zint(a['cpu']))
                if k[0] >= 0 and k not in used:
                    used[k] = X.probe_script(seg_dicts(cn.opobj[k[0]]), k[1], r['tps'])
    scripts, idx, entries = [], {}, []
    for (op, cpus), sc in sorted(used.items()):
        key = tuple(sc)
        if key not in idx:
            idx[key] = len(scripts)
            scripts.append(sc)
        entries.append((op, cpus, idx[key]))
    inp = [r['tps'], int(bool(r['over'])), int(bool(r['multi'])), r['npools'], r['cpu']] + Q(r['ram'])
    inp += [len(ticks)] + Q(float(r['poll']))
    inp += enc_pipes(cn.pipes[:npipes])
    inp += enc_list(scripts, lambda s: enc_list(s, Q))
    inp += enc_list(entries, lambda e: list(e))
    inp += enc_list(arrivals, lambda a: list(a))
    inp += enc_list(replies, lambda x: enc_reply(x, cn))
    return inp, obs


def restsim_case(r, tap):
    """kind 39; long runs are cut to the longest prefix of ticks that keeps the case below RESTSIM_CAP integers
    (the model runs tick by tick: a prefix of the run is a case of its own). Returns (case or None, info)"""
    cn = Canon(tap)
    total = n = len(tap.ticks)
    info = dict(total=total, encoded=0, truncated=False, skipped=None)
    if total == 0:
        info['skipped'] = 'no tick'
        return None, info
    try:
        inp, obs = restsim_build(r, tap, cn, n)
        while len(inp) + len(obs) > RESTSIM_CAP and n > 1:
            n = max(1, min(n - 1, int(n * RESTSIM_CAP / (len(inp) + len(obs)) * 0.97)))
            inp, obs = restsim_build(r, tap, cn, n)
    except ValueError as e:            # a fractional CPU count: outside the executor model (RestSim.v, boundaries)
        info['skipped'] = str(e)
        return None, info
    except (KeyError, TypeError, AttributeError) as e:
        # a request body / reply that does not have the documented shape cannot be digested: the case is kept, with
        # an answer no model run gives, so that the run is reported as a correspondence mismatch
        info.update(encoded=0, truncated=False, size=1, malformed=repr(e))
        return dict(kind=KIND_RESTSIM, inp=[], obs=[-3], recipe=dict(r, replay_kind=KIND_RESTSIM), gen=r['gen']), info
    if len(inp) + len(obs) > RESTSIM_CAP:
        info['skipped'] = 'one tick exceeds the size cap'
        return None, info
    info.update(encoded=n, truncated=n < total, size=len(inp) + len(obs))
    return dict(kind=KIND_RESTSIM, inp=inp, obs=obs, recipe=dict(r, replay_kind=KIND_RESTSIM), gen=r['gen']), info


P_NAMES = {1: 'QUERY', 2: 'INTERACTIVE', 3: 'BATCH_PIPELINE', 0: 'URGENT', 4: 'batch_pipeline'}


def codec_case(c):
    """kind 29: a reply through the real _parse_suspensions / _parse_assignments.
    c = dict(pipes=[n_ops...], susp=[(cnum, pool)], asg=[(ops (global index, -1 unknown), cpu, ram, prio code, pool,
    resume, force)])"""
    pipes, ops, table = [], [], []
    for k, n in enumerate(c['pipes']):
        p = Pipeline(f'q{k + 1}', Priority.BATCH_PIPELINE)
        for _ in range(n):
            ops.append(p.new_operator())
            table.append((len(ops), k + 1))
        p.runtime_status()
        pipes.append(p)
    stub = types.SimpleNamespace(operator_lookup={str(o.id): o for o in ops})
    idx = {str(o.id): i + 1 for i, o in enumerate(ops)}
    pnum = {p.pipeline_id: k + 1 for k, p in enumerate(pipes)}

    def num(x):
        return x if isinstance(x, int) else float(x)
    reply = dict(suspensions=[dict(container_id=f'c{n}', pool_id=pool) for n, pool in c['susp']],
                 assignments=[dict(operator_ids=[str(ops[i - 1].id) if i >= 1 else f'unknown-op{i}' for i in a[0]],
                                   cpu=num(a[1]), ram_gb=num(a[2]), priority=P_NAMES[a[3]], pool_id=a[4],
                                   is_resume=bool(a[5]), force_run=bool(a[6])) for a in c['asg']])
    wire = json.loads(json.dumps(reply))
    inp = enc_list(table, lambda e: list(e))
    inp += enc_list(c['susp'], lambda s: list(s))
    inp += enc_list(c['asg'], lambda a: enc_list(list(a[0])) + Q(num(a[1])) + Q(num(a[2])) + [a[3], a[4], int(a[5]), int(a[6])])
    try:
        so = R._parse_suspensions(wire['suspensions'])
        ao = R._parse_assignments(stub, wire['assignments'])
        obs = [0] + enc_list(so, lambda s: [int(s.container_id[1:]), s.pool_id])
        obs += enc_list(ao, lambda a: enc_list([idx[str(o.id)] for o in a.ops]) + Q(a.cpu) + Q(a.ram)
                        + [PRIO_VAL[a.priority], a.pool_id, pnum[a.pipeline_id], int(a.is_resume), int(a.force_run)])
        hits = []
        for a, o in zip(wire['assignments'], ao):
            got = dict(operator_ids=[str(x.id) for x in o.ops], cpu=o.cpu, ram_gb=o.ram, priority=o.priority.name,
                       pool_id=o.pool_id, is_resume=o.is_resume, force_run=o.force_run)
            d = dict_diff(got, a, 'assignment', ('parsed:', 'in the reply:'))
            if d:
                hits.append(dict(desc=f'_parse_assignments changed a decision: {d}', signature='decision-altered',
                                 recipe=dict(c, gen='G-codec'), gen='G-codec'))
        if len(ao) != len(wire['assignments']) or len(so) != len(wire['suspensions']):
            hits.append(dict(desc=f'{len(wire["assignments"])} assignments / {len(wire["suspensions"])} suspensions in the '
                                  f'reply, {len(ao)} / {len(so)} parsed', signature='decision-altered', recipe=dict(c, gen='G-codec'), gen='G-codec'))
    except KeyError as e:
        obs, hits = [1 if str(e.args[0]).startswith('unknown-op') else 2], []
    except IndexError:
        obs, hits = [3], []
    except AssertionError as e:
        obs, hits = [4 if 'must assign positive' in str(e) or 'zero operators' in str(e) else 5], []
    return dict(kind=KIND_CODEC, inp=inp, obs=obs, recipe=dict(c, gen='G-codec'), gen='G-codec'), hits


def gen_codec(rng, bad):
    pipes = [rng.randint(1, 4) for _ in range(rng.randint(1, 4))]
    nops = sum(pipes)
    free = list(range(1, nops + 1))
    rng.shuffle(free)
    susp = [(rng.randint(1, 500), rng.randint(0, 3)) for _ in range(rng.choice([0, 0, 1, 2, 3]))]
    asg = []
    for _ in range(rng.choice([0, 1, 1, 2, 3, 4])):
        k = min(len(free), rng.choice([1, 1, 1, 2, 3]))
        if k == 0:
            break
        ops = [free.pop() for _ in range(k)]
        cpu = rng.choice([1, 2, 4, 8, 64, 0.5, 2.5])
        ram = rng.choice([1, 2, 16, 0.25, 1.5, 256, 0.1, 3.3])
        asg.append([ops, cpu, ram, rng.choice([1, 2, 3]), rng.randint(0, 3), rng.random() < 0.3, rng.random() < 0.3])
    if bad and asg:
        a = rng.choice(asg)
        kind = rng.choice(['op', 'prio', 'empty', 'cpu0', 'ram0', 'prio-case', 'op+prio', 'empty+prio'])
        if 'op' in kind:
            a[0] = a[0] + [-rng.randint(1, 9)] if rng.random() < 0.5 else [-1] + a[0]
        if 'prio' in kind:
            a[3] = 4 if kind == 'prio-case' else 0
        if 'empty' in kind:
            a[0] = []
        if kind == 'cpu0':
            a[1] = rng.choice([0, -1])
        if kind == 'ram0':
            a[2] = rng.choice([0, -2, 0.0])
    return dict(pipes=pipes, susp=susp, asg=[list(a) for a in asg])


# ------------------------------------------------------------------------------------------------
# G-rest

def gen_segs(rng, tps, ram):
    segs = []
    for _ in range(rng.choice([1, 1, 2])):
        io_t = rng.choice([0, 0, 1, 2, 3])
        cpu_t = rng.choice([0, 1, 1, 2, 4])
        s = dict(baseline_cpu_seconds=float(cpu_t / tps), cpu_scaling=rng.choice(['const', 'linear3', 'sqrt', 'squared']),
                 storage_read_gb=float((io_t + rng.choice([0, 0.5])) * 20.0 / tps))
        if rng.random() < 0.5 or s['storage_read_gb'] > ram / 4:
            s['memory_gb'] = float(rng.choice([0, 0.25, 0.5, 0.5, 1, 1, 2, 3]))
        segs.append(s)
    return segs


def gen_rest_chain(rng):
    """chain pipelines (every operator depends on all earlier ones) under the chain-packing policy: containers are
    killed with operators queued behind the failing one, and the retry runs while those are still failed"""
    tps, poll = rng.choice([(1, 1.0), (2, 0.5), (4, 0.5), (10, 0.1), (10, 0.5), (2, 1.0)])
    per_poll = max(1, poll * tps)
    nticks = rng.randint(30, 120)
    ram = rng.choice([4, 8, 16])
    r = dict(gen='G-rest', tps=tps, poll=poll, duration=nticks / tps, npools=rng.randint(1, 2), cpu=rng.choice([2, 4]),
             ram=ram, multi=1, over=int(rng.random() < 0.3),
             policy=dict(name='chainpack', seed=rng.randrange(10 ** 6), retry=True, multi=True, p_susp=0.0, p_blind=0.0,
                         big=False))
    arrivals = []
    t = rng.choice([0, 0, 1, 3])
    for _ in range(rng.randint(1, 5)):
        if t >= nticks:
            break
        n = rng.randint(2, 4)
        dag = [list(range(j)) for j in range(n)]
        arrivals.append((t, rng.choice([1, 2, 3]), dag, [gen_segs(rng, tps, ram) for _ in range(n)]))
        t += rng.choice([0, 1, 2, int(per_poll), int(2 * per_poll) + 1, rng.randint(1, 20)])
    r['arrivals'] = arrivals
    return r


def gen_mixing_arrivals(rng, tps, nticks, per_poll):
    """single-operator pipelines and short chains, small fixed memory (so that containers succeed), several per tick:
    two pipelines are ready at the same time, and a pipeline's last operator completes in the middle of a container"""
    arrivals = []
    t = rng.choice([0, 0, 1])
    for _ in range(rng.randint(2, 5)):
        if t >= nticks:
            break
        for _ in range(rng.choice([2, 2, 3, 4])):
            n = rng.choice([1, 1, 1, 2, 3])
            dag = [[j - 1] if j else [] for j in range(n)]
            segs = [[dict(baseline_cpu_seconds=float(rng.choice([1, 1, 2, 3, 5]) / tps), cpu_scaling='const',
                          storage_read_gb=float(rng.choice([0, 0, 20.0 / tps])), memory_gb=float(rng.choice([0, 0.25, 0.5, 1])))]
                    for _ in range(n)]
            arrivals.append((t, rng.choice([1, 2, 3]), dag, segs))
        t += rng.choice([1, 2, 5, int(per_poll) + 1, int(3 * per_poll) + 2, rng.randint(3, 30)])
    return arrivals


def gen_rest(rng, force=None):
    tps = rng.choice([1, 2, 2, 4, 10, 10, 100, 1000])
    poll = rng.choice([0.01, 0.1, 0.5, 0.5, 1.0, 1.0, 2.5])
    if rng.random() < 0.25:
        # tick rates that do not divide 1000 (the simulated time is not a whole number of milliseconds) with poll
        # intervals of a few ticks
        tps = rng.choice([3, 30, 2000, 10000, 10000])
        poll = rng.choice([3, 5, 10, 10]) / tps if tps >= 2000 else rng.choice([0.5, 1.0, 1 / 3, 0.1])
    if force:
        tps, poll = force
    per_poll = max(1, poll * tps)
    nticks = rng.randint(20, 300 if per_poll >= 4 else 120)
    npools = rng.randint(1, 3)
    ram = rng.choice([4, 8, 16, 16.5])
    policy = rng.choice(['naive', 'naive', 'random', 'random', 'random', 'idle', 'mixing', 'mixing', 'suspender', 'suspender'])
    multi = rng.random() < 0.7 or policy in ('mixing', 'suspender')
    big = policy == 'suspender'
    if big:
        # long write-outs observed by many requests: 8 GB at 10..100 ticks/s is 4..40 ticks, a call at least every 1..10 ticks
        policy = 'random'
        if not force:
            tps, poll = rng.choice([(10, 0.1), (10, 0.5), (100, 0.01), (100, 0.1), (4, 0.5)])
            per_poll = max(1, poll * tps)
            nticks = rng.randint(60, 200)
        ram = rng.choice([16, 16.5, 32])
    r = dict(gen='G-rest', tps=tps, poll=poll, duration=nticks / tps, npools=npools, cpu=rng.choice([2, 4, 8]),
             ram=ram, multi=int(multi), over=int(rng.random() < 0.3),
             policy=dict(name=policy, seed=rng.randrange(10 ** 6), retry=rng.random() < 0.5, multi=multi,
                         p_susp=0.9 if big else rng.choice([0.0, 0.5, 0.9]), p_blind=rng.choice([0.0, 0.0, 0.05, 0.2]),
                         big=big))
    if policy == 'mixing':
        r['arrivals'] = gen_mixing_arrivals(rng, tps, nticks, per_poll)
        return r
    if tps <= 2 and rng.random() < 0.2:
        r['wl'] = dict(waiting_seconds_mean=rng.choice([5.0, 12.0, 30.0]), num_pipelines=rng.choice([1, 2]),
                       num_operators=rng.choice([1, 2, 3]))
        r['wl_seed'] = rng.randrange(1000)
        r['ram'] = rng.choice([64, 128])
        r['cpu'] = 8
        return r
    arrivals = []
    t = rng.choice([0, 0, 1, 3])
    for _ in range(rng.randint(1, 7 if policy != 'idle' else 4)):
        if t >= nticks:
            break
        n = rng.randint(1, 5)
        pe = rng.choice([0.0, 0.3, 0.7])
        dag = [[i for i in range(j) if rng.random() < pe] for j in range(n)]
        arrivals.append((t, rng.choice([1, 2, 3]), dag, [gen_segs(rng, tps, ram) for _ in range(n)]))
        t += rng.choice([0, 0, 1, 2, int(per_poll), int(2 * per_poll) + 1, rng.randint(1, 40)])
    r['arrivals'] = arrivals
    return r


def drive(r, server):
    """HTTP run, in-process run, monitors, the kind-19 case; returns (case, hits, info)"""
    r = json.loads(json.dumps(r))          # what a replay file contains
    if 'arrivals' in r:
        r['arrivals'] = [tuple(a) for a in r['arrivals']]
    hits = []

    def hit(sig, desc):
        if not any(h['signature'] == sig for h in hits):
            hits.append(dict(desc=desc, signature=sig, recipe=r, gen=r['gen']))
    stats, err, tap = run_http(r, server)
    for sig, desc in monitor(r, tap, stats, err):
        hit(sig, desc)
    calls = call_ticks(tap)
    stats2, err2, ip = run_inproc(r, calls, len(tap.ticks) if err is not None else 10 ** 9)
    if err != err2:
        hit('http-vs-inprocess', f'the HTTP run ended with {err!r} (tick {len(tap.ticks)}), the in-process run with '
                                 f'{err2!r} (tick {ip.t})')
    elif ip.offbound:
        hit('http-vs-inprocess', f'call ticks differ away from a poll boundary: HTTP run called in {calls[:40]}, '
                                 f'the documented rule disagrees in ticks {ip.offbound[:10]}')
    elif err is not None and len(tap.ticks) != ip.t:
        hit('http-vs-inprocess', f'{err}: HTTP run in tick {len(tap.ticks)}, in-process run in tick {ip.t}')
    elif calls != ip.calls and err is None:
        hit('http-vs-inprocess', f'call ticks differ: HTTP {calls[:40]} in-process {ip.calls[:40]}')
    else:
        a = [norm_reply(x, tap.onum, tap.base) for x in tap.replies]
        onum2 = {k: i + 1 for i, k in enumerate(ip.ops)}
        b = [norm_reply(x, onum2, tap.base) for x in ip.decisions]
        n = min(len(a), len(b))
        if a[:n] != b[:n] or (err is None and len(a) != len(b)):
            k = next((i for i in range(n) if a[i] != b[i]), n)
            hit('http-vs-inprocess', f'decision {k} differs: over HTTP {a[k] if k < len(a) else None}, '
                                     f'in process {b[k] if k < len(b) else None}')
        elif err is None:
            d = stats_diff(stats.to_dict(), stats2.to_dict(), 'stats')
            if d:
                hit('http-vs-inprocess', f'statistics differ (HTTP vs in-process): {d}')
    info = dict(stats=stats, err=err, tap=tap, ip=ip, calls=calls)
    info['restsim'], info['restsim_info'] = restsim_case(r, tap)
    return rest_case(r, tap), hits, info


def replay(recipe):
    if recipe.get('gen') == 'G-codec':
        return codec_case(recipe)
    want = recipe.get('replay_kind')
    recipe = {k: v for k, v in recipe.items() if k != 'replay_kind'}
    with Server() as server:
        case, hits, info = drive(recipe, server)
    if want == KIND_RESTSIM and info['restsim'] is not None:
        case = info['restsim']
    return case, hits


def run(ctx):
    cases, hits = [], []
    st = collections.Counter()
    nt = set()
    exact = [(1, 1.0), (2, 0.5), (2, 2.5), (4, 0.5), (1, 2.5), (2, 1.0), (4, 1.0)]
    with Server() as server:
        n_rest = ctx.budget(80, 1500)
        for i in range(n_rest + ctx.budget(16, 300)):
            rng = ctx.case_rng('G-rest', i)
            if i >= n_rest:
                r = gen_rest_chain(rng)
                st['chainpack_runs'] += 1
            else:
                r = gen_rest(rng, force=exact[i % len(exact)] if i % 3 == 0 else None)
            r['case_index'] = i
            case, h, info = drive(r, server)
            cases.append(case)
            hits += h
            tap, ip = info['tap'], info['ip']
            rsc, rsi = info['restsim'], info['restsim_info']
            if rsc is None:
                st['restsim_runs_skipped'] += 1
            else:
                cases.append(rsc)
                st['restsim_cases'] += 1
                st['restsim_cases_cut_to_a_prefix_of_ticks'] += rsi['truncated']
                st['restsim_ticks_encoded'] += rsi['encoded']
                st['restsim_ticks_of_those_runs'] += rsi['total']
                st['restsim_requests_encoded'] += sum(1 for x in tap.ticks[:rsi['encoded']]
                                                      if x.get('b1', len(tap.bodies)) > x['b0'])
                st['restsim_cases_ending_in_error'] += rsi['encoded'] > len(tap.exec_results)
                st['restsim_max_case_size'] = max(st['restsim_max_case_size'], rsi['size'])
                if len(tap.bodies) > 1:
                    nt.add(tuple(rsc['inp']))
            st['runs'] += 1
            st[f'policy_{r["policy"]["name"]}'] += 1
            st[f'tps_{r["tps"]}'] += 1
            st[f'poll_{r["poll"]}'] += 1
            st['workload_generator_runs'] += 'wl' in r
            st['ticks'] += len(tap.ticks)
            st['requests'] += len(tap.bodies)
            st['poll_only_requests'] += sum(1 for e in tap.ticks if e.get('b1', e['b0']) > e['b0']
                                            and not e['new'] and not e['nres'])
            st['pipelines'] += len(tap.pnum)
            st['pipelines_reported_complete'] += sum(1 for b in tap.bodies for p in b['new_pipelines'] + b['other_pipelines']
                                                     if p['is_complete'])
            st['results_sent'] += sum(len(b['results']) for b in tap.bodies)
            # observation (not a monitor): the request's tick is the scheduler's own 1-based counter, arrival_tick is
            # the simulator's 0-based tick_number: a pipeline announced in the request of tick T has arrival_tick T-1
            st['new_pipelines_with_arrival_tick_eq_request_tick_minus_1'] += sum(
                1 for b in tap.bodies for p in b['new_pipelines'] if p['arrival_tick'] == b['tick'] - 1)
            st['new_pipelines_with_arrival_tick_eq_request_tick'] += sum(
                1 for b in tap.bodies for p in b['new_pipelines'] if p['arrival_tick'] == b['tick'])
            st['failed_results_sent'] += sum(1 for b in tap.bodies for x in b['results'] if x['error'])
            st['assignments'] += sum(len(x['assignments']) for x in tap.replies)
            st['suspensions'] += sum(len(x['suspensions']) for x in tap.replies)
            st['requests_showing_a_suspending_container'] += sum(
                1 for b in tap.bodies if any(p['suspending_containers'] for p in b['pools']))
            st['containers_mixing_two_pipelines_seen'] += len({c['container_id'] for b in tap.bodies for p in b['pools']
                                                               for k in ('active_containers', 'suspending_containers')
                                                               for c in p[k] if c['pipeline_id'] == 'multiple_pipelines'})
            st['mixed_assignments'] += sum(1 for x in tap.replies for a in x['assignments']
                                           if len({tap_pipe_of(tap, i) for i in a['operator_ids']}) > 1)
            st['runs_ended_by_executor_assertion'] += info['err'] is not None
            st['paired_stats_compared'] += info['err'] is None and not h
            st['boundary_ticks_followed'] += ip.followed
            st['runs_with_boundary_tick'] += ip.followed > 0
            if len(tap.bodies) > 1:
                nt.add(tuple(case['inp']))
        st['server_threads_alive_before_close'] = int(server.thread.is_alive())
    st['server_thread_alive_after_close'] = int(server.thread.is_alive())
    st['registry_clean'] = int(INPROC_KEY not in D.SCHEDULING_ALGOS and D.SCHEDULING_ALGOS['rest'] is R.rest_scheduler)
    if not st['registry_clean']:
        hits.append(dict(desc='scheduler registry not restored', signature='harness', recipe=None, gen='G-rest'))
    for i in range(ctx.budget(400, 8000)):
        rng = ctx.case_rng('G-codec', i)
        c = gen_codec(rng, bad=i % 4 == 3)
        case, h = codec_case(c)
        cases.append(case)
        hits += h
        st['codec_cases'] += 1
        st[f'codec_outcome_{case["obs"][0]}'] += 1
        st['codec_assignments'] += len(c['asg'])
        nt.add(tuple(case['inp']))
    return dict(cases=cases, hits=hits, dist=dict(st), distinct_nontrivial=len(nt),
                rule='G-rest: run_simulator(scheduler_algo=rest) against a loop-back server with a scripted policy '
                     '(naive-like / random admissible with suspensions / idle / mixing operators of two pipelines in one container), 1-3 pools, tps 1..1000, poll 0.01..2.5 s, '
                     '<= 300 ticks, hand-made DAG pipelines or the real WorkloadGenerator; all bodies recorded and checked '
                     'field by field against a tap; the same policy in process, statistics compared; kind 19 = '
                     'bookkeeping of the whole run; kind 39 = the whole run (requests, executed decisions, executor results per '
                     'tick) replayed in the model from the recorded replies, cut to a prefix of ticks above 4800 integers. G-codec: replies (every fourth malformed) through the real _parse_*; '
                     'non-trivial = distinct inputs with at least two requests / distinct replies',
                samples=[cases[0]['recipe'], cases[-1]['recipe']])
