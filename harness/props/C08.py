"""C08 Valid configurations run to the end; shipped schedulers decide admissibly."""
import collections

from harness import simdrv as S
from harness import simprops as SP
from harness.impl import E_OPCOUNT, E_SCHED

ID = 'C08'
BRIDGE_IMPORTS = 'From Eudoxia Require Import Model.SchedSrc.\n'
BRIDGE = [('sched_naive', 'ext_sched_naive = sched_naive_src', 'reflexivity.'), ('sched_starter', 'ext_sched_starter = sched_starter_src', 'reflexivity.'), ('sched_overbook', 'ext_sched_overbook = sched_overbook_src', 'reflexivity.'), ('sched_priority', 'ext_sched_priority = sched_priority_src', 'reflexivity.'), ('sched_priority_pool', 'ext_sched_priority_pool = sched_priority_pool_src', 'reflexivity.')]
MASK = S.M_DEC | S.M_RES
ASSUMPTIONS = ['valid configuration: positive duration, tick rate, pool count and sizes; probabilities summing to one; '
               'overbook with overcommit; priority-pool on two pools']


def known(run, desc):
    r = run.r
    if r['algo'] == 'priority-pool' and not r['multi'] and run.err == E_OPCOUNT:
        return 'priority-pool-single-operator-mode'
    return None


def monitor(run):
    if run.err:
        yield (f'run_simulator raised {run.exc} in tick {len(run.ticks)} (scheduler {run.r["algo"]}, '
               f'multi_operator_containers={bool(run.r["multi"])}, {run.r["npools"]} pools of {run.r["cpu"]} CPUs / '
               f'{run.r["ram"]} GB, {run.r["tps"]} ticks/s)')


def gen_startup(rng, gen='G-sim-startup'):
    """configurations OUTSIDE the valid range, which run_simulator must refuse: priority-pool on a pool count other
    than two (assertion in the scheduler's init, before tick 0); no pool at all or pools without RAM (the
    utilisation percentage at the end of tick 0 divides by the total RAM)"""
    what = rng.choice(['ppool-npools', 'zero-ram', 'zero-ram', 'no-pool'])
    if what == 'ppool-npools':
        rec = S.gen_sim(rng, algo='priority-pool', gen=gen)
        rec['npools'] = rng.choice([0, 1, 3, 4])
    elif what == 'zero-ram':
        rec = S.gen_sim(rng, gen=gen)
        rec['ram'] = 0
    else:
        rec = S.gen_sim(rng, algo=rng.choice(['naive', 'starter', 'overbook', 'priority']), gen=gen)
        rec['npools'] = 0
    rec['what'] = what
    return rec


def monitor_startup(run):
    r = run.r
    nticks = int(r['duration'] * r['tps'])
    if r['algo'] == 'priority-pool' and r['npools'] != 2:
        if not (run.err == E_SCHED and not run.ticks):
            yield (f'priority-pool on {r["npools"]} pools: expected the init assertion before tick 0, got '
                   f'{run.exc or "a normal return"} after {len(run.ticks)} tick(s)')
    elif r['npools'] == 0 or r['ram'] == 0:
        if nticks == 0:
            if run.err:
                yield f'run of zero ticks raised {run.exc}'
        elif not run.err or len(run.ticks) > 1:
            yield (f'total RAM is zero ({r["npools"]} pools of {r["ram"]} GB), {nticks} ticks: expected an exception in '
                   f'tick 0, got {run.exc or "a normal return"} after {len(run.ticks)} tick(s)')


def gen_extreme(rng, gen='G-sim-extreme'):
    rec = S.gen_sim(rng, gen=gen)
    rec['tps'] = rng.choice([1, 1000, 10 ** 4, 10 ** 5])
    nt = rng.choice([0, 1, 3, 30, 100])
    rec['duration'] = (nt + rng.choice([0.3, 0.0 if nt else 0.3])) / rec['tps']
    rec['cpu'] = rng.choice([1, 1, 2])
    rec['ram'] = rng.choice([0.5, 0.25, 1, 2])
    for ops in rec['segs']:
        for seg in ops:
            for s in seg:
                s['baseline_cpu_seconds'] = rng.choice([0.0, 1e-7, 1e-5, 2.5e-5, 1.0 / rec['tps']])
                s['storage_read_gb'] = rng.choice([0.0, 1e-6, 20.0 / rec['tps'], 30.0 / rec['tps']])
                if 'memory_gb' in s:
                    s['memory_gb'] = rng.choice([0.0, 0.1, 0.25, 0.6])
    rec['arrivals'] = sorted([(rng.randrange(0, max(1, nt)), k) for _, k in rec['arrivals']], key=lambda a: a[0])
    return rec


def generated_runs(ctx, st):
    """valid parameter sets through the real WorkloadGenerator: must return statistics (monitor only)"""
    from eudoxia.simulator import run_simulator
    hits = []
    triples = [(0.3, 0.1, 0.6), (0.7, 0.2, 0.1), (0.1, 0.2, 0.7), (1.0, 0.0, 0.0), (0.0, 0.0, 1.0), (0.0, 1.0, 0.0),
               (0.25, 0.25, 0.5), (0.15, 0.35, 0.5), (0.33, 0.33, 0.34)]
    for i in range(ctx.budget(60, 800)):
        rng = ctx.case_rng('G-params', i)
        algo = rng.choice(['naive', 'priority', 'priority-pool', 'overbook'])
        tps = rng.choice([1, 2, 10, 100])
        ip, qp, bp = rng.choice(triples)
        if rng.random() < 0.6:
            # any triple of two-decimal shares summing to one, a zero share in any position included: the float sum is
            # 1 only up to rounding and `1 - a - b - c` evaluated left to right may be a tiny negative number
            a = rng.randint(0, 100)
            b = rng.randint(0, 100 - a) if rng.random() < 0.5 else 100 - a
            tri = [a / 100, b / 100, round((100 - a - b) / 100, 2)]
            rng.shuffle(tri)
            ip, qp, bp = tri
            if rng.random() < 0.15:
                bp = bp + rng.choice([-1, 1]) * 4e-10 if bp > 1e-3 else bp     # inside the validator's 1e-9 slack
        params = dict(duration=rng.choice([0.5, 3, 20, 60]) if tps < 100 else rng.choice([0.05, 0.5, 2]),
                      ticks_per_second=tps, scheduler_algo=algo, num_pools=2 if algo == 'priority-pool' else rng.choice([1, 2, 4]),
                      cpus_per_pool=rng.choice([1, 4, 16, 64]), ram_gb_per_pool=rng.choice([1, 8, 64, 256]),
                      interactive_prob=ip, query_prob=qp, batch_prob=bp, waiting_seconds_mean=rng.choice([0.1, 1.0, 5.0]),
                      num_pipelines=rng.choice([1, 2, 4]), num_operators=rng.choice([1, 3, 5]),
                      cpu_io_ratio=rng.choice([0.0, 0.5, 1.0]), random_seed=rng.randrange(10 ** 6),
                      allow_memory_overcommit=(algo == 'overbook'), multi_operator_containers=rng.choice([True, True, False]))
        st['generated_runs'] += 1
        try:
            run_simulator(params)
        except BaseException as e:  # noqa
            if isinstance(e, (KeyboardInterrupt, SystemExit)):
                raise
            sig = 'valid-config-raises'
            if algo == 'priority-pool' and not params['multi_operator_containers'] and 'exactly 1 operator' in str(e):
                sig = 'priority-pool-single-operator-mode'
            hits.append(dict(desc=f'run_simulator({params}) raised {type(e).__name__}: {str(e)[:120]}', signature=sig,
                             recipe=dict(gen='G-params', params=params), gen='G-params'))
    return hits


def replay(recipe):
    if recipe.get('gen') == 'G-params':
        from eudoxia.simulator import run_simulator
        try:
            run_simulator(recipe['params'])
            return None, []
        except Exception as e:  # noqa
            return None, [dict(desc=f'raised {type(e).__name__}: {e}', signature='valid-config-raises', recipe=recipe)]
    if recipe.get('gen') == 'G-sim-startup':
        return SP.replay(recipe, MASK, monitor_startup, 'invalid-config-accepted')
    return SP.replay(recipe, MASK, monitor, 'valid-config-raises')


def run(ctx):
    out = SP.run_streams(ctx, MASK, monitor, 'valid-config-raises', [
        ('G-sim', 300, 6000, {}),
        ('G-sim-saturate-ppool', 80, 1500, dict(saturate='priority-pool')),
        ('G-sim-saturate-priority', 50, 1000, dict(saturate='priority')),
        ('G-sim-saturate-overbook', 40, 800, dict(saturate='overbook')),
        ('G-sim-saturate-naive', 30, 600, dict(saturate='naive')),
        ('G-sim-branches-priority', 30, 600, dict(branches='priority')),
        ('G-sim-branches-naive', 20, 400, dict(branches='naive')),
    ], known=known)
    st = collections.Counter(out['dist'])
    # contended priority runs with preemption (suspensions are commands the executor may refuse)
    for i in range(ctx.budget(80, 1500)):
        rng = ctx.case_rng('G-sim-preempt', i)
        recipe = S.gen_preempt(rng)
        case, run_ = S.drive(recipe, MASK)
        out['cases'].append(case)
        SP.stats_of(run_, st)
        st['runs_with_suspension'] += any(d['susp'] for d in run_.ticks)
        for desc in monitor(run_):
            out['hits'].append(dict(desc=desc, signature=known(run_, desc) or 'valid-config-raises', recipe=recipe,
                                    gen='G-sim-preempt'))
    for i in range(ctx.budget(150, 3000)):
        rng = ctx.case_rng('G-sim-extreme', i)
        recipe = gen_extreme(rng)
        case, run_ = S.drive(recipe, MASK)
        out['cases'].append(case)
        SP.stats_of(run_, st)
        for desc in monitor(run_):
            out['hits'].append(dict(desc=desc, signature=known(run_, desc) or 'valid-config-raises', recipe=recipe,
                                    gen='G-sim-extreme'))
    # priority-pool with single-operator containers (known finding F10) and the other schedulers in that mode
    for i in range(ctx.budget(40, 400)):
        rng = ctx.case_rng('G-sim-ppool-single', i)
        recipe = S.gen_sim(rng, algo='priority-pool', gen='G-sim-ppool-single')
        recipe['multi'] = 0
        case, run_ = S.drive(recipe, MASK)
        out['cases'].append(case)
        SP.stats_of(run_, st)
        for desc in monitor(run_):
            out['hits'].append(dict(desc=desc, signature=known(run_, desc) or 'valid-config-raises', recipe=recipe,
                                    gen='G-sim-ppool-single'))
    # configurations outside the valid range: both sides must stop at start-up / in tick 0 with the same error
    for i in range(ctx.budget(60, 600)):
        rng = ctx.case_rng('G-sim-startup', i)
        recipe = gen_startup(rng)
        recipe['case_index'] = i
        case, run_ = S.drive(recipe, MASK)
        out['cases'].append(case)
        st['startup_runs'] += 1
        st['startup_' + recipe['what']] += 1
        st['startup_err_%d' % run_.err] += 1
        for desc in monitor_startup(run_):
            out['hits'].append(dict(desc=desc, signature='invalid-config-accepted', recipe=recipe, gen='G-sim-startup'))
            break
    out['hits'] += generated_runs(ctx, st)
    out['dist'] = dict(st)
    out['rule'] = ('whole run_simulator runs for every shipped scheduler (naive, starter template, overbook with overcommit, '
                   'priority, priority-pool on two pools): G-sim, G-sim-extreme (tick rates to 100000, durations below one '
                   'tick, 1-CPU and sub-GB pools, segments rounding to zero ticks), priority-pool in single-operator mode, '
                   'and parameter sets through the real WorkloadGenerator (probability triples: fixed ones incl. 0.7/0.2/0.1 and random two-decimal splits with zero shares in any position). The '
                   'implementation must return normally exactly when the model does. G-sim-startup: configurations outside '
                   'the valid range (priority-pool on 0/1/3/4 pools; zero pools; zero RAM) must be refused with the same '
                   'error on both sides (model: sim_dump_main). non-trivial = runs with an assignment')
    return out
