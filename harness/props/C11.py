"""C11 Pool-level OOM kills take highest scorers first and stop once usage fits."""
from fractions import Fraction as F

from harness import execdrv as X
from harness import execprops as P

ID = 'C11'
MASK = X.M_MEM | X.M_RESULTS
TOL_FLOAT = F(1, 10 ** 6)
ASSUMPTIONS = ['float near-ties of scores (relative difference below 1e-9) are not judged by the monitor; the model '
               'computes the score with the two float operations of the code; theorem C11_float_no_survivor_clearly_above '
               'shows a relative gap above 5*2^-53 can never be reordered by rounding, C11_float_gap_needed that a gap is needed']


def dyadic(x):
    """a value on which float addition and subtraction are exact at the magnitudes of a run"""
    x = F(x)
    d = x.denominator
    return d & (d - 1) == 0 and d <= 2 ** 20 and abs(x) < 2 ** 20


def monitor(run):
    r = run.r
    exact = [True] * r['npools']      # every demand seen so far in the pool is dyadic: the pool's running total is exact
    for t, e in enumerate(run.trace):
        if e['err']:
            continue
        for cid, d in e['demand'].items():
            if d is not None and not dyadic(d):
                exact[run.info[cid]['pool']] = False
        fails = [x for x in e['results'] if x['err']]
        ok_cids = {x['cid'] for x in e['results'] if not x['err']}
        for pi in range(r['npools']):
            ticked = [cid for cid in e['demand'] if run.info[cid]['pool'] == pi and e['demand'][cid] is not None]
            own = {cid for cid in ticked if F(e['demand'][cid]) > F(run.info[cid]['ram'])}
            elig = [cid for cid in ticked if cid not in own and cid not in ok_cids and F(e['demand'][cid]) > 0]
            usage = {cid: F(e['demand'][cid]) for cid in elig}
            score = {cid: usage[cid] * usage[cid] / F(run.info[cid]['ram']) for cid in elig}
            cap = F(e['pools'][pi]['max_ram'])
            # float slack only where the pool's running total can carry rounding error; on dyadic demands the
            # comparison `consumed <= capacity` is exact and so is this rule (an exact fit needs no further victim)
            TOL = TOL_FLOAT if not (exact[pi] and dyadic(cap)) else 0
            victims = [x['cid'] for x in fails if x['pool'] == pi and x['cid'] not in own]
            for v in victims:
                if v not in usage:
                    yield f'tick {t} pool {pi}: container {v} chosen by the pool-level killer although it finished or uses no memory'
            victims = [v for v in victims if v in usage]
            total = sum(usage.values())
            if not victims:
                if r['over'] and total > cap + TOL:
                    yield f'tick {t} pool {pi}: demand {float(total)} exceeds capacity {float(cap)} but nothing was killed'
                continue
            if total <= cap - TOL:
                yield f'tick {t} pool {pi}: pool-level kill although demand {float(total)} fits {float(cap)}'
            surv = [c for c in elig if c not in victims]
            for v in victims:
                for s in surv:
                    if score[s] > score[v] * (1 + F(1, 10 ** 9)):
                        yield (f'tick {t} pool {pi}: container {v} (score {float(score[v]):.6g}) killed while {s} '
                               f'(score {float(score[s]):.6g}) survives')
            # the victim killed last is one of those with the lowest score; among equal scores the code's (stable) order
            # is not observable, so the kill counts as unneeded only if it is unneeded whichever of them was last,
            # i.e. for the one with the largest usage
            smin = min(score[c] for c in victims)
            lowest = max((c for c in victims if score[c] <= smin * (1 + F(1, 10 ** 9))), key=lambda c: usage[c])
            if total - sum(usage[v] for v in victims if v != lowest) <= cap - TOL:
                yield (f'tick {t} pool {pi}: kill of container {lowest} was not needed: usage already fitted '
                       f'after the other victims')
            if total - sum(usage[v] for v in victims) > cap + TOL:
                yield f'tick {t} pool {pi}: killing stopped while usage {float(total - sum(usage[v] for v in victims))} still exceeds {float(cap)}'


def replay(recipe):
    case, hits, _ = P.drive(recipe, MASK, monitor, 'oom-order')
    return case, hits


def gen_over(rng, gen):
    """overcommit stream: many concurrent growing containers with full-pool allocations"""
    return X.gen_history(rng, gen=gen, overcommit=True, p_bad=0.05)


def run(ctx):
    out = P.run_property(ctx, MASK, monitor, 'oom-order', [
        ('G-exec-over', 350, 6000, dict(overcommit=True, p_bad=0.05)),
        ('G-exec-burst', 250, 4000, dict(burst=True)),
        ('G-exec-waves', 80, 1500, dict(waves=True)),
        ('G-exec-over-susp', 40, 800, dict(over_susp=True)),
    ], nontrivial=lambda run: any(
        any(x['err'] and e['demand'].get(x['cid']) is not None
            and F(e['demand'][x['cid']]) <= F(run.info[x['cid']]['ram']) for x in e['results'])
        for e in run.trace if not e['err']))
    out['rule'] = ('overcommit stream of G-exec: concurrent containers with pool-sized allocations and growing or fixed '
                   'memory steered across capacity (multi-victim ticks, equal scores from identical operators); '
                   'projection: per-container usage, pool usage, results. non-trivial = histories with a pool-level kill')
    return out
