"""C03 Pool CPU and RAM are conserved: never lost, never double-freed, never oversold."""
from fractions import Fraction as F

from harness import execdrv as X
from harness import execprops as P

ID = 'C03'
MASK = X.M_RES | X.M_LISTS
ASSUMPTIONS = ['RAM capacities and allocations are integers or dyadic rationals (float + - are exact on them); '
               'per-operator tick scripts are probed from the implementation (timing is C05)']


def monitor(run):
    r = run.r
    for t, e in enumerate(run.trace):
        if e['err']:
            # whatever was rejected, and wherever in the batch the rejection happened, nothing is lost: the state the
            # executor is left in still satisfies free + allocated = capacity in every pool
            for pi, p in enumerate(e.get('pools_after_err') or []):
                cpu = p['avail_cpu'] + sum(c['cpu'] for c in P.live(p))
                ram = F(p['avail_ram']) + sum(F(c['ram']) for c in P.live(p))
                if cpu != p['max_cpu'] or ram != F(p['max_ram']):
                    yield (f'tick {t} pool {pi}: after the rejected command ({e.get("exc", "")[:80]}) the pool has '
                           f'{p["avail_cpu"]} CPUs / {p["avail_ram"]} GB free and {cpu - p["avail_cpu"]} CPUs / '
                           f'{float(ram - F(p["avail_ram"]))} GB allocated, capacity {p["max_cpu"]} / {p["max_ram"]}')
            # an oversubscribing batch must be rejected as a whole: no container of it exists afterwards
            if e['err'] in (X.impl.E_CPU, X.impl.E_RAM) and e.get('pools_after_err') and e.get('pre_pools') \
                    and not e['cmd']['susp']:
                # (pools are ticked in order: pools before the offending one have legitimately run)
                for pi, (pb, pa) in enumerate(zip(e['pre_pools'], e['pools_after_err'])):
                    batch = [a for a in e['cmd']['asg'] if a[4] == pi]
                    oversold = sum(a[1] for a in batch) > pb['avail_cpu'] or \
                        (not r['over'] and sum(F(a[2]) for a in batch) > F(pb['avail_ram']))
                    if not oversold:
                        continue
                    if len(pa['active']) + len(pa['suspending']) > len(pb['active']) + len(pb['suspending']):
                        yield f'tick {t} pool {pi}: oversold batch was rejected after creating containers'
                    if pa['avail_cpu'] != pb['avail_cpu'] or F(pa['avail_ram']) != F(pb['avail_ram']):
                        yield f'tick {t} pool {pi}: rejected oversold batch changed the free resources'
            continue
        pre = e['pre_pools'] or None
        for pi, p in enumerate(e['pools']):
            cpu = p['avail_cpu'] + sum(c['cpu'] for c in P.live(p))
            ram = F(p['avail_ram']) + sum(F(c['ram']) for c in P.live(p))
            if cpu != p['max_cpu']:
                yield f'tick {t} pool {pi}: free CPU {p["avail_cpu"]} + allocated {cpu - p["avail_cpu"]} != capacity {p["max_cpu"]}'
            if ram != F(p['max_ram']):
                yield f'tick {t} pool {pi}: free RAM {p["avail_ram"]} + allocated {float(ram - F(p["avail_ram"]))} != capacity {p["max_ram"]}'
            for c in p['active']:
                if c['completed']:
                    yield (f'tick {t} pool {pi}: container {c["cid"]} has exited but still holds {c["cpu"]} CPUs / {c["ram"]} GB '
                           f'(its allocation was not returned in the tick it failed or finished)')
            for c in p['suspending']:
                if c['left'] is not None and c['left'] <= 0:
                    yield (f'tick {t} pool {pi}: container {c["cid"]} finished suspending (ticks left {c["left"]}) '
                           f'but its allocation ({c["cpu"]} CPU, {c["ram"]} GB) was not returned in that tick')
            if p['avail_cpu'] < 0:
                yield f'tick {t} pool {pi}: negative free CPU {p["avail_cpu"]}'
            if p['avail_ram'] < 0 and not r['over']:
                yield f'tick {t} pool {pi}: negative free RAM {p["avail_ram"]} without overcommit'
        # an accepted batch never oversells
        if pre is not None or t == 0:
            for pi in range(r['npools']):
                acpu = pre[pi]['avail_cpu'] if pre else r['cpu']
                aram = F(pre[pi]['avail_ram']) if pre else F(r['ram'])
                batch = [a for a in e['cmd']['asg'] if a[4] == pi]
                if sum(a[1] for a in batch) > acpu:
                    yield f'tick {t} pool {pi}: batch needing {sum(a[1] for a in batch)} CPUs accepted with {acpu} free'
                if not r['over'] and sum(F(a[2]) for a in batch) > aram:
                    yield f'tick {t} pool {pi}: batch needing {float(sum(F(a[2]) for a in batch))} GB accepted with {float(aram)} free'


def replay(recipe):
    case, hits, _ = P.drive(recipe, MASK, monitor, 'conservation')
    return case, hits


def run(ctx):
    out = P.run_property(ctx, MASK, monitor, 'conservation', [
        ('G-exec', 250, 4000, {}),
        ('G-exec-over', 100, 1500, dict(overcommit=True)),
        ('G-exec-long', 10, 150, dict(max_ticks=400, p_bad=0.0)),
        ('G-exec-twins', 80, 1200, dict(twins=True)),
        ('G-exec-overlap', 40, 600, dict(overlap=True)),
        ('G-exec-burst', 60, 1000, dict(burst=True)),
        ('G-exec-oversell', 80, 1200, dict(p_bad=1.0, bad_kinds=['asg-cpu+1', 'asg-ram+'], bad_early=True)),
        ('G-exec-oversell-huge', 40, 600, dict(p_bad=1.0, bad_kinds=['asg-cpu+1', 'asg-ram+'], bad_early=True, huge=True)),
        ('G-exec-opcount', 80, 1200, dict(p_bad=1.0, bad_kinds=['asg-two', 'asg-two', 'asg-empty'])),
        ('G-exec-stale-suspend', 80, 1200, dict(p_bad=1.0, bad_kinds=['susp-suspended', 'susp-suspended', 'susp-suspending'])),
    ], nontrivial=lambda run: any(e.get('new') for e in run.trace))
    out['rule'] = ('state-aware command fuzzer over Executor (1-3 pools, CPUs 1-16, RAM 0.5..256, overcommit on/off, both '
                   'container modes, tps 1..100, DAG pipelines, allocations around the demand, suspensions at boundaries, '
                   'one inadmissible command in 30% of the histories); projection: free CPU/RAM, allocations and list '
                   'membership per tick, error class. non-trivial = histories that created at least one container')
    return out
