"""C06 Completion, latency and returned statistics match an independent recount."""
import math
from fractions import Fraction as F

from harness import simdrv as S
from harness.props import C05
from harness import simprops as SP

ID = 'C06'
MASK = S.M_DEC | S.M_RES | S.M_FIN
ASSUMPTIONS = ['numpy mean/percentile are compared with exact rational recomputation at relative tolerance 1e-9']


def pct99(vals):
    if not vals:
        return None
    s = sorted(vals)
    idx = F(len(s) - 1) * F(99, 100)
    lo = math.floor(idx)
    hi = min(lo + 1, len(s) - 1)
    return F(s[lo]) + F(s[hi] - s[lo]) * (idx - lo)


def close(a, b):
    if b is None:
        return isinstance(a, float) and math.isnan(a)
    if isinstance(a, float) and math.isnan(a):
        return False
    return abs(float(a) - float(b)) <= 1e-9 * max(1.0, abs(float(b)))


def monitor(run):
    # the ticks an operator needs are those of the documented time model (C05's oracle), not merely whatever the
    # container took: completion ticks and latencies are recounted from these
    for (op, cpus), script in sorted(run.used.items()):
        d = C05.script_monitor(run.w.segs_of(op), cpus, run.r['tps'], script)
        if d:
            yield f'operator {op} on {cpus} CPUs does not take the ticks its segments need: {d}'
            break
    r = run.r
    tps = r['tps']
    w = run.w
    # "with enough memory": without overcommit a container can only fail because one of its operators demands more
    # than the container was given (the pool cannot be short: allocations never exceed its capacity)
    if not r['over']:
        for t, d in enumerate(run.ticks):
            for x in d['results']:
                if x['err'] and not any(F(m) > F(x['ram']) for o in x['ops'] for m in run.used.get((o, x['cpu']), [])):
                    yield (f'tick {t}: container {x["cid"]} (operators {x["ops"]}, {x["cpu"]} CPUs, {x["ram"]} GB) failed '
                           f'although none of its operators ever demands more than {x["ram"]} GB and the pool is not overcommitted')
                    break
    arrival = {}
    for t, d in enumerate(run.ticks):
        for k in d['new']:
            arrival[k] = t
    # completion: first tick after which every operator of the pipeline is COMPLETED
    done_at = {}
    for t, d in enumerate(run.ticks):
        for k in arrival:
            if k in done_at or arrival[k] > t:
                continue
            lo, n = w.first[k], len(r['pipes'][k][1])
            if all(d['states'][o] == 4 for o in range(lo, lo + n)):
                done_at[k] = t
    counted = {}
    for t, d in enumerate(run.ticks):
        for k in d['finished']:
            if k in counted:
                yield f'pipeline {k} counted as completed twice (ticks {counted[k]} and {t})'
            counted[k] = t
    for k, t in counted.items():
        if k not in done_at:
            yield f'pipeline {k} counted as completed at tick {t} while an operator is unfinished'
        elif done_at[k] != t:
            yield f'pipeline {k} counted as completed at tick {t}, its last operator completed in tick {done_at[k]}'
    for k, t in done_at.items():
        if k not in counted:
            yield f'pipeline {k} completed in tick {t} but was never counted'
    if run.err or run.stats is None:
        return
    st = run.stats
    created_at = {}
    times, succ, fail, nasg, nsusp = [], 0, 0, 0, 0
    cid = 0
    for t, d in enumerate(run.ticks):
        nasg += len(d['asg'])
        nsusp += len(d['susp'])
        for pid in range(r['npools']):
            for a in d['asg']:
                if a[4] == pid:
                    created_at[cid] = t
                    cid += 1
        for x in d['results']:
            times.append(t - created_at[x['cid']] + 1)
            succ += 1 - x['err']
            fail += x['err']
    want = dict(pipelines_created=len(arrival), containers_completed=succ, assignments=nasg, suspensions=nsusp,
                failures=fail)
    for k_, v in want.items():
        if getattr(st, k_) != v:
            yield f'statistics: {k_}={getattr(st, k_)}, recount gives {v}'
    if not close(st.throughput, F(succ) / F(r['duration'])):
        yield f'statistics: throughput={st.throughput}, recount gives {float(F(succ) / F(r["duration"]))}'
    p = pct99(times)
    if not close(st.p99_latency, None if p is None else p / tps):
        yield f'statistics: p99_latency={st.p99_latency}, recount gives {None if p is None else float(p / tps)}'
    # every failure of the shipped executor is an out-of-memory kill ("OOM"); an empty dict when nothing failed
    if dict(st.failure_error_counts) != ({'OOM': fail} if fail else {}):
        yield f'statistics: failure_error_counts={dict(st.failure_error_counts)}, recount gives {fail} failures, all OOM'
    cats = [('pipelines_all', None), ('pipelines_query', 1), ('pipelines_interactive', 2), ('pipelines_batch', 3)]
    tot_a = tot_c = 0
    for name, cls in cats:
        ps = getattr(st, name)
        arr = [k for k in arrival if cls is None or r['pipes'][k][0] == cls]
        lat = [counted[k] - arrival[k] for k in counted if cls is None or r['pipes'][k][0] == cls]
        if ps.arrival_count != len(arr) or ps.completion_count != len(lat):
            yield f'statistics: {name} arrivals/completions {ps.arrival_count}/{ps.completion_count}, recount {len(arr)}/{len(lat)}'
        mean = F(sum(lat), len(lat)) / tps if lat else None
        p = pct99(lat)
        if not close(ps.mean_latency_seconds, mean):
            yield f'statistics: {name} mean latency {ps.mean_latency_seconds}, recount {None if mean is None else float(mean)}'
        if not close(ps.p99_latency_seconds, None if p is None else p / tps):
            yield f'statistics: {name} p99 latency {ps.p99_latency_seconds}, recount {None if p is None else float(p / tps)}'
        if cls is not None:
            tot_a += ps.arrival_count
            tot_c += ps.completion_count
    if tot_a != st.pipelines_all.arrival_count or tot_c != st.pipelines_all.completion_count:
        yield 'statistics: per-priority arrivals/completions do not partition the totals'


def replay(recipe):
    if recipe.get('relabel'):
        run_ = S.SimRun(recipe).run()
        return None, [dict(desc=d, signature='recount', recipe=recipe) for d in list(monitor(run_))[:1]]
    return SP.replay(recipe, MASK, monitor, 'recount')


def run(ctx):
    out = SP.run_streams(ctx, MASK, monitor, 'recount', [
        ('G-sim', 450, 8000, {}),
    ])
    import collections
    st = collections.Counter(out['dist'])
    for i in range(ctx.budget(80, 1500)):
        rng = ctx.case_rng('G-sim-preempt-cut', i)
        recipe = S.gen_preempt(rng, gen='G-sim-preempt-cut')
        # stop the run at a random point: suspensions still being written out, containers still running
        recipe['duration'] = rng.randint(2, max(3, int(recipe['duration'] * recipe['tps']))) / recipe['tps']
        case, run_ = S.drive(recipe, MASK)
        out['cases'].append(case)
        SP.stats_of(run_, st)
        st['runs_ending_with_a_suspension_in_flight'] += bool(run_.ticks and any(p['suspending'] for p in run_.ticks[-1]['pools']))
        for desc in monitor(run_):
            out['hits'].append(dict(desc=desc, signature='recount', recipe=recipe, gen='G-sim-preempt-cut'))
            break
    # monitor-only stream: a policy whose containers carry another priority label than their pipeline (the statistics
    # per priority are about PIPELINES). Outside the model's schedulers, so no correspondence case is produced
    for i in range(ctx.budget(40, 600)):
        rng = ctx.case_rng('G-sim-relabel', i)
        recipe = S.gen_sim(rng, algo=rng.choice(['naive', 'starter', 'overbook']), gen='G-sim-relabel')
        recipe['relabel'] = 1 + i % 2      # 2: the assignments are also flagged is_resume
        run_ = S.SimRun(recipe).run()
        st['relabel_runs'] += 1
        st['relabel_runs_flagged_is_resume'] += recipe['relabel'] == 2
        st['relabel_runs_with_completions'] += any(d['finished'] for d in run_.ticks)
        for desc in monitor(run_):
            out['hits'].append(dict(desc=desc, signature='recount', recipe=recipe, gen='G-sim-relabel'))
            break
    out['dist'] = dict(st)
    out['rule'] = ('whole run_simulator runs, all five shipped schedulers, runs of 0..200 ticks incl. runs in which nothing '
                   'arrives, nothing finishes or a priority class is empty; compared: decisions, results, finished '
                   'pipelines per tick and the returned SimulatorStats (integers exactly, float statistics against the '
                   "model's exact rationals at 1e-9). non-trivial = runs with an assignment")
    return out
