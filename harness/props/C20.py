"""C20 Trace tools change only arrival times, within their stated bounds.

G-tools drives the REAL snap_command / jitter_command on generated CSV trace files and the REAL
_sensitivity_task / sensitivity_sample_command with the workload generator, the trace writer, the
simulation and the process pool replaced by recording stubs.

Correspondence (floats cross the wire as the exact rationals of float(cell)):
  kind 20  tps, originals            -> snapped values                      (Model/Tools.v snap_val rnd64)
  kind 21  (rows, original, draw)*   -> pipelines in output order + arrival (jitter_pipes rnd64)
  kind 22  default seed, start, n    -> seed each sample's generator gets   (sample_seeds)
Monitors: the property text evaluated with exact decimal arithmetic (fractions.Fraction of the CELL TEXT)."""
import collections
import contextlib
import csv
import io
import math
import os
import shutil
import sys
import tempfile
from decimal import Decimal
from fractions import Fraction as F

import numpy as np

from harness.impl import Q, enc_list

import eudoxia.tools as T
import eudoxia.__main__ as M

ID = 'C20'
KIND_SNAP, KIND_JITTER, KIND_SEED = 20, 21, 22
K_ALL_KINDS = (KIND_SEED,)
BRIDGE = [
    ('snap_stmts', 'ext_snap_stmts = snap_stmts', 'reflexivity.'),
    ('jitter_stmts', 'ext_jitter_stmts = jitter_stmts', 'reflexivity.'),
    ('seed_stmts', 'ext_seed_stmts = seed_stmts', 'reflexivity.'),
    ('seed_key', 'ext_seed_key = seed_key_written', 'reflexivity.'),
    ('seed_param', 'ext_seed_param = seed_param_read', 'reflexivity.'),
]
BRIDGE_IMPORTS = 'From Eudoxia Require Import Model.Tools.\n'
ASSUMPTIONS = [
    'arrival cells are non-negative decimals with original * ticks_per_second < 2^50 (no overflow, no subnormals)',
    'float slack of the snap monitor: the output may exceed the decimal input only if both are the same double; '
    'the distance may reach one tick only if the output is the correctly rounded double of floor(input*tps)/tps',
    'float slack of the jitter monitor: one ulp of the new arrival on either side of [0, delta]',
    'numpy Generator.uniform is not modelled: the draws are re-created with np.random.default_rng(seed) and enter '
    'the model as inputs; reproducibility is checked on the output files (same seed twice, two seeds)',
    'the seed plumbing is observed with WorkloadGenerator / WorkloadTraceGenerator / CSVWorkloadWriter / '
    'sensitivity_command / multiprocessing.Pool replaced by recording stubs',
]
TRUSTED = ['csv module round trip of cells (outputs parsed with csv.reader, float(cell) of the written repr)']

FIELDS = ['pipeline_id', 'arrival_seconds', 'priority', 'operator_id', 'parents', 'baseline_cpu_seconds',
          'cpu_scaling', 'memory_gb', 'storage_read_gb']
ARR = 1
TPS = [1, 2, 3, 7, 10, 60, 100, 1000, 10 ** 4, 10 ** 5]


# --------------------------------------------------------------------------------------------------
# files

@contextlib.contextmanager
def quiet():
    so, se = sys.stdout, sys.stderr
    sys.stdout = io.StringIO()
    try:
        yield
    finally:
        sys.stdout, sys.stderr = so, se


def write_csv(path, rows):
    with open(path, 'w', newline='') as f:
        w = csv.writer(f)
        w.writerow(FIELDS)
        w.writerows(rows)


def read_csv(path):
    with open(path, newline='') as f:
        rows = list(csv.reader(f))
    return rows[0], rows[1:]


class ToolRaised(Exception):
    """a tool refused a trace it has to copy (both tools only ever touch the arrival column)"""


def call_snap(src, dst, tps):
    with quiet():
        try:
            T.snap_command(src, dst, tps, force=True)
        except Exception as e:   # noqa
            raise ToolRaised(f'tools snap raised {type(e).__name__}: {e}'[:200])


def call_jitter(src, dst, delta, seed):
    with quiet():
        try:
            T.jitter_command(src, dst, delta, seed=seed, force=True)
        except Exception as e:   # noqa
            raise ToolRaised(f'tools jitter raised {type(e).__name__}: {e}'[:200])


def dec(text):
    return F(text.strip())


def fl(text):
    return float(text.strip())


# --------------------------------------------------------------------------------------------------
# generators

def arrival_text(rng, tps):
    """(text, class) of one arrival cell"""
    big = rng.choice([20, 20, 300, 5000, 10 ** 6])
    k = rng.randint(0, big * tps if rng.random() < 0.5 else min(big * tps, 400))
    c = rng.choice(['grid_repr', 'grid_repr', 'grid_dec', 'off', 'off', 'below', 'above', 'zero', 'int', 'dec_near',
                    'sci', 'spaced'])
    if c == 'grid_repr':
        return repr(k / tps), c
    if c == 'grid_dec':
        f = F(k, tps)
        d = f.denominator
        while d % 2 == 0:
            d //= 2
        while d % 5 == 0:
            d //= 5
        if d != 1:
            return repr(k / tps), 'grid_repr'
        return format(Decimal(f.numerator) / Decimal(f.denominator), 'f'), c
    if c == 'off':
        nd = rng.randint(1, 12)
        return f'{rng.uniform(0, big):.{nd}g}' if rng.random() < 0.5 else f'{rng.uniform(0, big):.{rng.randint(0, 9)}f}', c
    if c == 'below':
        return repr(math.nextafter(k / tps, -math.inf)) if k else '0.0', c
    if c == 'above':
        return repr(math.nextafter(k / tps, math.inf)), c
    if c == 'zero':
        return rng.choice(['0', '0.0', '0.000']), c
    if c == 'int':
        return str(rng.randint(0, big)), c
    if c == 'dec_near':
        e = F(rng.choice([1, -1, 3, -7]), 10 ** rng.choice([9, 12, 15, 17]))
        v = F(k, tps) + e
        if v < 0:
            v = F(k, tps)
        return f'{float(v):.{rng.choice([12, 15, 17])}g}', c
    if c == 'sci':
        return f'{rng.uniform(0, big):.{rng.randint(1, 9)}e}', c
    return ' ' + repr(k / tps) + rng.choice(['', ' ']), c


def other_cells(rng, first):
    return [rng.choice(['QUERY', 'INTERACTIVE', 'BATCH_PIPELINE']) if first else '',
            'op' + str(rng.randint(0, 99)), rng.choice(['', 'op1', 'op1;op2']),
            repr(rng.choice([0.5, 1.0, 2.25, 0.1, 3.0])), rng.choice(['const', 'linear3', 'sqrt', 'exp']),
            rng.choice(['', '1.5', '4', '0.25', '0', '0.0']), rng.choice(['1', '20.5', '0.0', '2', '7, 5'])]


def gen_file(rng, kind):
    """rows of a trace file: several rows per pipeline, arrival only on the first row of a pipeline
    (for snap files sometimes also on later rows: snap treats every non-blank cell)"""
    tps = rng.choice(TPS)
    npipes = rng.choice([0, 1, 1, 2, 3, 5, 8, 12, 20])
    rows, classes = [], []
    prev = None
    shared = arrival_text(rng, tps)
    for p in range(npipes):
        n = rng.choice([1, 1, 2, 3, 5])
        for j in range(n):
            if j == 0:
                text, c = shared if rng.random() < 0.25 else arrival_text(rng, tps)
                if prev is not None and rng.random() < 0.3:
                    # an arrival within a tick of the previous pipeline's: same tick window, another boundary
                    # (each arrival snaps to ITS OWN boundary, whatever was worked out for its neighbours)
                    k = math.floor(prev * tps)
                    cand = [(k + 1) / tps, k / tps, (k - 1) / tps if k > 0 else 0.0, math.nextafter(prev, 0.0),
                            math.nextafter((k + 1) / tps, 0.0), prev + 0.4 / tps, max(0.0, prev - 0.6 / tps),
                            (k + 1) * (1.0 / tps), k * (1.0 / tps)]
                    text, c = repr(rng.choice(cand)), 'neighbour'
                try:
                    prev = float(text)
                except ValueError:
                    prev = None
                if rng.random() < 0.2:
                    shared = (text, c)
            elif kind == 'snap' and rng.random() < 0.1:
                text, c = arrival_text(rng, tps)
            else:
                text, c = '', None
            if c:
                classes.append(c)
            rows.append([f'p{p}', text] + other_cells(rng, j == 0))
    return tps, rows, classes


def gen_snap(rng):
    tps, rows, classes = gen_file(rng, 'snap')
    return dict(gen='G-snap', tps=tps, rows=rows, classes=classes)


def gen_jitter(rng):
    tps, rows, classes = gen_file(rng, 'jitter')
    delta = rng.choice([0.0, 0.0, 1 / tps, 1 / tps, 0.1, 0.5, 2.0, 1e-3, 1e-9, 37.25])
    seed = rng.choice([None, 0, 1, 42, 43, rng.randint(0, 2 ** 31)])
    return dict(gen='G-jitter', tps=tps, rows=rows, classes=classes, delta=delta, seed=seed,
                seed2=rng.choice([7, 12345, 99]))


def gen_seed(rng):
    return dict(gen='G-seed', default=rng.choice([None, 42, 5, rng.randint(0, 10 ** 6)]),
                start=rng.choice([0, 1, 42, 42, 1000, rng.randint(0, 2 ** 31)]), n=rng.choice([1, 2, 3, 5, 8]))


# --------------------------------------------------------------------------------------------------
# snap: drive + monitor

def hit(desc, sig, recipe):
    return dict(desc=desc, signature=sig, recipe=recipe, gen=recipe.get('gen'))


def frame_diff(rows_in, rows_out, header_out):
    """everything except the arrival column, the row count and the row order"""
    if header_out != FIELDS:
        return f'header changed: {header_out}'
    if len(rows_in) != len(rows_out):
        return f'{len(rows_in)} rows in, {len(rows_out)} rows out'
    for i, (a, b) in enumerate(zip(rows_in, rows_out)):
        if a[:ARR] + a[ARR + 1:] != b[:ARR] + b[ARR + 1:]:
            return f'row {i}: cells other than the arrival changed: {a} -> {b}'
        if (a[ARR].strip() == '') != (b[ARR].strip() == ''):
            return f'row {i}: arrival cell {a[ARR]!r} -> {b[ARR]!r}'
    return None


def snap_monitor(tps, rows_in, rows_out, rows_out2, header, recipe):
    hits = []
    d = frame_diff(rows_in, rows_out, header)
    if d:
        hits.append(hit('snap: ' + d, 'snap-frame', recipe))
        return hits
    for i, (a, b) in enumerate(zip(rows_in, rows_out)):
        ti, to = a[ARR], b[ARR]
        if not ti.strip():
            continue
        x, y = dec(ti), dec(to)
        where = f'row {i}: {ti.strip()} @ {tps} ticks/s -> {to}'
        if y > x and fl(to) != fl(ti):
            hits.append(hit(f'snap moved an arrival UP, {where}', 'snap-up', recipe))
        k = math.floor(x * tps)
        if not (x - y < F(1, tps)) and fl(to) != k / tps:
            hits.append(hit(f'snap moved an arrival down by a whole tick or more, {where} '
                            f'(floor(arrival*tps)/tps = {k}/{tps})', 'snap-far', recipe))
        if x * tps == k and fl(to) != fl(ti):
            hits.append(hit(f'snap changed an arrival that is on the tick grid ({k}/{tps}), {where}', 'snap-grid', recipe))
        # on a boundary in float terms: the double equals some k'/tps
        kk = round(fl(ti) * tps)
        if any(j >= 0 and j / tps == fl(ti) for j in (kk - 1, kk, kk + 1)) and fl(to) != fl(ti):
            hits.append(hit(f'snap changed an arrival that equals a float tick boundary, {where}', 'snap-grid', recipe))
    for i, (b, c) in enumerate(zip(rows_out, rows_out2)):
        if b != c:
            hits.append(hit(f'snap is not idempotent: row {i} arrival {rows_in[i][ARR].strip()} @ {tps} -> {b[ARR]} -> {c[ARR]}',
                            'snap-idem', recipe))
            break
    if len(rows_out) != len(rows_out2):
        hits.append(hit('snap is not idempotent: second run changes the number of rows', 'snap-idem', recipe))
    return hits[:3]


def snap_case(recipe):
    tps, rows = recipe['tps'], recipe['rows']
    tmp = tempfile.mkdtemp(prefix='c20s')
    try:
        a, b, c = (os.path.join(tmp, n) for n in ('in.csv', 'out.csv', 'out2.csv'))
        write_csv(a, rows)
        call_snap(a, b, tps)
        call_snap(b, c, tps)
        header, out = read_csv(b)
        _, out2 = read_csv(c)
    except ToolRaised as e:
        return [], [hit(f'{e} on a trace whose arrival cells are all numbers (the other columns are only copied)',
                        'tool-raised', recipe)]
    finally:
        shutil.rmtree(tmp, ignore_errors=True)
    hits = snap_monitor(tps, rows, out, out2, header, recipe)
    origs = [fl(r[ARR]) for r in rows if r[ARR].strip()]
    snapped = [fl(r[ARR]) for r in out if r[ARR].strip()]
    # second case: the outputs as inputs (idempotence through the model as well)
    snapped2 = [fl(r[ARR]) for r in out2 if r[ARR].strip()]
    cases = [dict(kind=KIND_SNAP, inp=[tps] + enc_list(origs, Q), obs=enc_list(snapped, lambda v: [1] + Q(v)),
                  recipe=recipe, gen='G-snap')]
    if snapped:
        cases.append(dict(kind=KIND_SNAP, inp=[tps] + enc_list(snapped, Q), obs=enc_list(snapped2, lambda v: [1] + Q(v)),
                          recipe=recipe, gen='G-snap'))
    return cases, hits


# --------------------------------------------------------------------------------------------------
# jitter: drive + monitor

def pipelines_of(rows):
    """[(pipeline_id, [rows])] by consecutive pipeline_id"""
    out = []
    for r in rows:
        if out and out[-1][0] == r[0]:
            out[-1][1].append(r)
        else:
            out.append((r[0], [r]))
    return out


def jitter_monitor(rows_in, rows_out, header, delta, recipe, same_again, other_seed):
    hits = []
    if header != FIELDS:
        return [hit(f'jitter: header changed: {header}', 'jitter-frame', recipe)]
    if len(rows_in) != len(rows_out):
        return [hit(f'jitter: {len(rows_in)} rows in, {len(rows_out)} rows out', 'jitter-frame', recipe)]
    pin, pout = pipelines_of(rows_in), pipelines_of(rows_out)
    by_id = {pid: (i, rs) for i, (pid, rs) in enumerate(pin)}
    if sorted(p for p, _ in pin) != sorted(p for p, _ in pout):
        return [hit(f'jitter: pipelines are not kept (or not contiguous): in {[p for p, _ in pin]} out {[p for p, _ in pout]}',
                    'jitter-frame', recipe)]
    prev = None
    for pid, rs in pout:
        i, rin = by_id[pid]
        strip = lambda rr: [r[:ARR] + r[ARR + 1:] for r in rr]
        if strip(rs) != strip(rin) or any(r[ARR].strip() for r in rs[1:]):
            hits.append(hit(f'jitter: rows of pipeline {pid} changed: {rin} -> {rs}', 'jitter-frame', recipe))
            continue
        old, new = dec(rin[0][ARR]), dec(rs[0][ARR])
        slack = F(math.ulp(fl(rs[0][ARR])))
        if not (-slack <= new - old <= F(delta) + slack):
            hits.append(hit(f'jitter: pipeline {pid} moved by {float(new - old)!r} (from {rin[0][ARR].strip()} to {rs[0][ARR]}), '
                            f'outside [0, {delta}]', 'jitter-bound', recipe))
        if prev is not None:
            if fl(rs[0][ARR]) < prev[0]:
                hits.append(hit(f'jitter: output not ascending: pipeline {prev[2]} at {prev[0]!r} precedes {pid} at {rs[0][ARR]}',
                                'jitter-sorted', recipe))
            elif fl(rs[0][ARR]) == prev[0] and i < prev[1]:
                hits.append(hit(f'jitter: equal arrivals {prev[0]!r} not in file order: {prev[2]} before {pid}',
                                'jitter-stable', recipe))
        prev = (fl(rs[0][ARR]), i, pid)
    if not same_again:
        hits.append(hit(f'jitter: two runs with seed {recipe["seed"]} and delta {delta} give different files',
                        'jitter-repro', recipe))
    arrs = [fl(rs[0][ARR]) for _, rs in pin]
    if other_seed is not None and pin and delta > 2.0 ** -30 * max(1.0, max(arrs)) and other_seed:
        hits.append(hit(f'jitter: seeds {recipe["seed"]} and {recipe["seed2"]} give the same file with delta {delta}',
                        'jitter-seed-ignored', recipe))
    return hits[:3]


def jitter_case(recipe):
    rows, delta, seed = recipe['rows'], recipe['delta'], recipe['seed']
    tmp = tempfile.mkdtemp(prefix='c20j')
    try:
        a, b, c, d = (os.path.join(tmp, n) for n in ('in.csv', 'out.csv', 'again.csv', 'other.csv'))
        write_csv(a, rows)
        call_jitter(a, b, delta, seed)
        call_jitter(a, c, delta, seed)
        call_jitter(a, d, delta, recipe['seed2'])
        header, out = read_csv(b)
        raw = [open(p, 'rb').read() for p in (b, c, d)]
        xproc = []
        if recipe.get('xproc'):
            # the same command in fresh interpreters with other string-hash salts: same seed, same file
            import subprocess
            from harness import common as C
            for hs in (1, 2):
                e = os.path.join(tmp, f'x{hs}.csv')
                env = dict(os.environ, PYTHONHASHSEED=str(hs), PYTHONPATH=str(C.REPO))
                cmd = [C.PY, '-m', 'eudoxia', 'tools', 'jitter', a, e, repr(float(delta))] + \
                      ([] if seed is None else ['-s', str(seed)])
                pr = subprocess.run(cmd, env=env, capture_output=True, text=True, timeout=300)
                xproc.append((hs, pr.returncode, open(e, 'rb').read() if os.path.exists(e) else None, pr.stderr[-200:]))
    except ToolRaised as e:
        return [], [hit(f'{e} on a trace whose arrival cells are all numbers (the other columns are only copied)',
                        'tool-raised', recipe)], []
    finally:
        shutil.rmtree(tmp, ignore_errors=True)
    eff = 42 if seed is None else seed
    hits = jitter_monitor(rows, out, header, delta, recipe, raw[0] == raw[1],
                          (raw[0] == raw[2]) if recipe['seed2'] != eff else None)
    for hs, rc, data, err in xproc:
        if rc != 0 or data is None:
            hits.append(hit(f'jitter: `eudoxia tools jitter` failed in a fresh process (exit {rc}): {err}', 'jitter-cli', recipe))
        elif data != raw[0]:
            hits.append(hit(f'jitter: seed {seed}, delta {delta}: a fresh interpreter (PYTHONHASHSEED={hs}) writes a different '
                            f'file than this process', 'jitter-repro', recipe))
    pin, pout = pipelines_of(rows), pipelines_of(out)
    g = np.random.default_rng(eff)
    draws = [float(g.uniform(0, delta)) for _ in pin]
    idx = {pid: i for i, (pid, _) in enumerate(pin)}
    inp = enc_list(list(zip(pin, draws)), lambda pd: [len(pd[0][1])] + Q(fl(pd[0][1][0][ARR])) + Q(pd[1]))
    try:
        obs = enc_list(pout, lambda p: [idx.get(p[0], -1), len(p[1])] + Q(fl(p[1][0][ARR])))
    except ValueError:
        obs = [-2]
    return [dict(kind=KIND_JITTER, inp=inp, obs=obs, recipe=recipe, gen='G-jitter')], hits, draws


# --------------------------------------------------------------------------------------------------
# seed plumbing

class _Recorder:
    def __init__(self):
        self.gen_kwargs = []
        self.tasks = []
        self.pool_sizes = []


def run_sample(recipe):
    """sensitivity_sample_command with the heavy parts stubbed; returns the recorder"""
    rec = _Recorder()

    class StubGenerator:
        def __init__(self, **kw):
            rec.gen_kwargs.append(kw)

    class StubTrace:
        def __init__(self, workload=None, ticks_per_second=None, duration_secs=None):
            pass

        def generate_rows(self):
            return iter(())

    class StubWriter:
        def __init__(self, f):
            pass

        def write_row(self, row):
            pass

    class FakePool:
        def __init__(self, processes=None):
            rec.pool_sizes.append(processes)

        def __enter__(self):
            return self

        def __exit__(self, *a):
            return False

        def map(self, fn, tasks):
            out = []
            for t in tasks:
                rec.tasks.append(t)
                so, se = sys.stdout, sys.stderr
                try:
                    out.append(fn(t))          # the real _sensitivity_task (it redirects stdout/stderr for good)
                finally:
                    sys.stdout, sys.stderr = so, se
            return out

    class FakeMP:
        Pool = FakePool

    tmp = tempfile.mkdtemp(prefix='c20p')
    saved = {n: getattr(T, n) for n in ('WorkloadGenerator', 'WorkloadTraceGenerator', 'CSVWorkloadWriter',
                                         'sensitivity_command', 'multiprocessing')}
    so, se = sys.stdout, sys.stderr
    try:
        pf = os.path.join(tmp, 'params.toml')
        with open(pf, 'w') as f:
            f.write('duration = 1\nticks_per_second = 100\n')
            if recipe['default'] is not None:
                f.write(f'random_seed = {recipe["default"]}\n')
        T.WorkloadGenerator, T.WorkloadTraceGenerator, T.CSVWorkloadWriter = StubGenerator, StubTrace, StubWriter
        T.sensitivity_command = lambda *a, **k: None
        T.multiprocessing = FakeMP
        with quiet():
            if recipe.get('via_cli'):
                M.main(['tools', 'sensitivity-sample', pf, os.path.join(tmp, 'out'), str(recipe['n'])]
                       + (['--start-seed', str(recipe['start'])] if recipe['start'] != 42 else []))
            else:
                T.sensitivity_sample_command(pf, os.path.join(tmp, 'out'), recipe['n'], start_seed=recipe['start'])
    finally:
        sys.stdout, sys.stderr = so, se
        for n, v in saved.items():
            setattr(T, n, v)
        shutil.rmtree(tmp, ignore_errors=True)
    return rec


def seed_case(recipe):
    rec = run_sample(recipe)
    n, start = recipe['n'], recipe['start']
    hits = []
    got = [kw.get('random_seed') for kw in rec.gen_kwargs]
    if len(rec.tasks) != n or [t.workload_index for t in rec.tasks] != list(range(n)):
        hits.append(hit(f'sensitivity-sample built tasks {[t.workload_index for t in rec.tasks]} for sample size {n}',
                        'sample-tasks', recipe))
    if len(got) != n:
        hits.append(hit(f'sensitivity-sample: {len(got)} workload generators were built for {n} samples '
                        f'(task failed before or while constructing the generator)', 'sample-seed', recipe))
    for i, s in enumerate(got):
        if s != start + i:
            hits.append(hit(f'sensitivity-sample: workload {i} of start_seed {start} is generated from seed {s!r}, '
                            f'not {start + i} (task.seed = {rec.tasks[i].seed if i < len(rec.tasks) else None})',
                            'sample-seed', recipe))
            break
    if n > 1 and len(set(got)) != len(got):
        hits.append(hit(f'sensitivity-sample: samples share a seed: {got}', 'sample-seed', recipe))
    dflt = recipe['default']
    # parse_args_with_defaults always supplies random_seed (42 when the file has none)
    inp = [1, 42 if dflt is None else dflt, start, n]
    obs = enc_list(got, lambda s: [1, s] if isinstance(s, int) else [0])
    return [dict(kind=KIND_SEED, inp=inp, obs=obs, recipe=recipe, gen='G-seed')], hits[:2]


# --------------------------------------------------------------------------------------------------
# CLI argument plumbing (tools snap / jitter): types and order of the arguments that reach the commands

def cli_hits():
    hits, seen = [], []
    saved = (M.snap_command, M.jitter_command)
    M.snap_command = lambda *a, **k: seen.append(('snap', a, k))
    M.jitter_command = lambda *a, **k: seen.append(('jitter', a, k))
    try:
        with quiet():
            M.main(['tools', 'snap', 'a.csv', 'b.csv', '100', '-f'])
            M.main(['tools', 'jitter', 'a.csv', 'b.csv', '0.25', '-s', '7'])
            M.main(['tools', 'jitter', 'a.csv', 'b.csv', '1e-3'])
    finally:
        M.snap_command, M.jitter_command = saved
    want = [('snap', ('a.csv', 'b.csv', 100), dict(force=True)),
            ('jitter', ('a.csv', 'b.csv', 0.25), dict(seed=7, force=False)),
            ('jitter', ('a.csv', 'b.csv', 0.001), dict(seed=None, force=False))]
    if seen != want:
        hits.append(dict(desc=f'tools command line passes {seen}, expected {want}', signature='tools-cli',
                         recipe=dict(gen='G-cli'), gen='G-cli'))
    return hits


# --------------------------------------------------------------------------------------------------

def replay(recipe):
    g = recipe.get('gen')
    if g == 'G-snap':
        cases, hits = snap_case(recipe)
        return cases[0], hits
    if g == 'G-jitter':
        cases, hits, _ = jitter_case(recipe)
        return cases[0], hits
    if g == 'G-seed':
        cases, hits = seed_case(recipe)
        return cases[0], hits
    return None, cli_hits()


FIXED_SNAP = [
    # the historical failing inputs (fixed in 5867ace): 0.29 @ 100 went to 0.28; snap(snap(0.295)) != snap(0.295)
    dict(gen='G-snap', tps=100, classes=['grid_dec', 'off', 'grid_dec', 'grid_dec'],
         rows=[['p0', '0.29', 'QUERY', 'op0', '', '1.0', 'const', '', '1'],
               ['p1', '0.295', 'QUERY', 'op0', '', '1.0', 'const', '', '1'],
               ['p2', '0.57', 'QUERY', 'op0', '', '1.0', 'const', '', '1'],
               ['p3', '0.07', 'QUERY', 'op0', '', '1.0', 'const', '', '1']]),
    dict(gen='G-snap', tps=20, classes=['off', 'off'],
         rows=[['p0', '0.123', 'QUERY', 'op0', '', '1.0', 'const', '', '1'],
               ['p0', '', '', 'op1', 'op0', '1.0', 'const', '', '1'],
               ['p1', '0.456', 'BATCH_PIPELINE', 'op0', '', '1.0', 'const', '', '1']]),
]


def run(ctx):
    cases, hits = [], []
    st = collections.Counter()
    seen = set()
    recipes = list(FIXED_SNAP) + [gen_snap(ctx.case_rng('G-snap', i)) for i in range(ctx.budget(1000, 20000))]
    for rec in recipes:
        cs, h = snap_case(rec)
        cases += cs
        hits += h
        st['snap_files'] += 1
        if not cs:
            st['snap_tool_raised'] += 1
            continue
        st['snap_cells'] += cs[0]['obs'][0]
        st[f'snap_tps_{rec["tps"]}'] += 1
        for c in rec['classes']:
            st['cell_' + c] += 1
        # how often the float product misses the tick and one of the two loops has to move
        ins, outs = cs[0]['inp'][2:], cs[0]['obs'][1:]
        for j in range(cs[0]['obs'][0]):
            o, v = ins[2 * j] / ins[2 * j + 1], outs[3 * j + 1] / outs[3 * j + 2]
            t0, kk = math.floor(o * rec['tps']), round(v * rec['tps'])
            fin = [k for k in (kk - 1, kk, kk + 1) if k / rec['tps'] == v]
            if fin:
                st['snap_loop_up_moved'] += min(fin) > t0
                st['snap_loop_down_moved'] += max(fin) < t0
            st['snap_unchanged_cells'] += o == v
        for c in cs:
            if c['obs'][0] > 0:
                seen.add(tuple(c['inp']))
    for i in range(ctx.budget(600, 12000)):
        rec = gen_jitter(ctx.case_rng('G-jitter', i))
        rec['xproc'] = i % 40 == 0 and len({r[0] for r in rec['rows']}) > 1
        cs, h, draws = jitter_case(rec)
        cases += cs
        hits += h
        st['jitter_files'] += 1
        if not cs:
            st['jitter_tool_raised'] += 1
            continue
        st['jitter_pipelines'] += cs[0]['inp'][0]
        st['jitter_delta_zero'] += rec['delta'] == 0
        st['jitter_default_seed'] += rec['seed'] is None
        obs = cs[0]['obs']
        order = obs[1::4] if obs and obs[0] > 0 else []
        st['jitter_reordered_files'] += order != sorted(order)
        if cs[0]['inp'][0] > 0:
            seen.add(tuple(cs[0]['inp']))
    for i in range(ctx.budget(60, 600)):
        rec = gen_seed(ctx.case_rng('G-seed', i))
        rec['via_cli'] = i % 4 == 0
        cs, h = seed_case(rec)
        cases += cs
        hits += h
        st['seed_runs'] += 1
        st['seed_runs_via_cli'] += rec['via_cli']
        st['seed_samples'] += rec['n']
        seen.add(tuple(cs[0]['inp']))
    hits += cli_hits()
    return dict(cases=cases, hits=hits, dist=dict(st), distinct_nontrivial=len(seen),
                rule='G-tools: the real snap_command on generated trace files (arrival cells on the grid as repr(k/tps) or '
                     'exact decimals, off-grid decimals of 1-12 digits, the doubles just below/above a boundary, decimals '
                     'within 1e-9..1e-17 of a boundary, zero, integers, scientific notation, padded cells; tps in '
                     '{1,2,3,7,10,60,100,1000,1e4,1e5}; 1-5 rows per pipeline, blank cells on later rows), run twice; the real '
                     'jitter_command (delta 0 and > 0, seeds incl. the default) run twice with one seed and once with '
                     'another; the real sensitivity_sample_command/_sensitivity_task with stubbed generator, trace writer, '
                     'simulation and pool. kind 20: Model snap (rnd64) on float(cell) of inputs and again of outputs, '
                     'bit-exact; kind 21: draws re-created from numpy, model addition + stable sort vs the written file; '
                     'kind 22: seeds received by the generator stub. non-trivial = distinct non-empty inputs',
                samples=[recipes[0], dict(cases[-1]['recipe'])])
