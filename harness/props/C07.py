"""C07 Runs are reproducible and every policy is evaluated on the same workload."""
import collections
import json
import os
import subprocess
from concurrent.futures import ThreadPoolExecutor

from harness import simdrv as S
from harness import simprops as SP
from harness import common as C

ID = 'C07'
MASK = S.M_DEC | S.M_RES | S.M_FIN | S.M_POOLS
ASSUMPTIONS = ['hash-order or identity-order nondeterminism of CPython cannot be exhibited by a Gallina model: it is detected '
               'as a disagreement between processes (different PYTHONHASHSEED, dirtied globals, patched uuid4) and with the '
               'single trace the model computes', '"different seeds give different workloads" is a property of numpy PCG64 '
               '(sampled)']


def generated_workload(params, nticks):
    """structure of what the real WorkloadGenerator emits for these parameters (no scheduler involved)"""
    from eudoxia.workload import WorkloadGenerator
    from eudoxia.simulator import parse_args_with_defaults
    # the route of `eudoxia run` / `gentrace`: parameters are parsed (defaults filled in) and handed to the generator
    g = WorkloadGenerator(**parse_args_with_defaults(dict(params)))
    out = []
    for t in range(nticks):
        for pl in g.run_one_tick():
            ops = list(pl.values.node_lookup.values())
            out.append([t, pl.pipeline_id, pl.priority.name,
                        [[[ops.index(q) for q in o.parents], o.get_segments()[0].baseline_cpu_seconds,
                          o.get_segments()[0].storage_read_gb] for o in ops]])
    return out


def sub(job, hashseed):
    env = dict(os.environ, PYTHONHASHSEED=str(hashseed), PYTHONPATH=f'{C.REPO}:{C.VERIF}')
    p = subprocess.run([C.PY, '-m', 'harness.detrun'], input=json.dumps(job), capture_output=True, text=True, env=env,
                       cwd=str(C.VERIF), timeout=600)
    if p.returncode != 0:
        raise RuntimeError('detrun failed: ' + p.stderr[-400:])
    return json.loads(p.stdout.strip().splitlines()[-1])


def gen_hits(base, other, nt):
    """the generated workload depends only on workload parameters, tick rate and seed - and does depend on the seed"""
    rec = dict(gen='G-det-gen', params=base, params2=other, nticks=nt)
    a = sub(dict(kind='gen', params=base, nticks=nt), 11)
    b = sub(dict(kind='gen', params=other, nticks=nt), 12)
    c = sub(dict(kind='gen', params=dict(base, random_seed=base['random_seed'] + 1), nticks=nt), 11)
    d = sub(dict(kind='gen', params=dict(base, random_seed=42), nticks=nt), 11)
    # seeds are arbitrary Python integers: one that differs only above bit 32 is a different seed
    wide = base['random_seed'] + 2 ** 32 * (1 + base['random_seed'] % 3)
    e = sub(dict(kind='gen', params=dict(base, random_seed=wide), nticks=nt), 11)
    out = []
    if a == e and len(a) >= 12:
        out.append(dict(desc=f'seeds {base["random_seed"]} and {wide} give the same workload',
                        signature='seed-ignored', recipe=rec, gen='G-det-gen'))
    if a != b:
        out.append(dict(desc=f'the generated workload differs when only scheduler/executor settings change ({base})',
                        signature='workload-dependence', recipe=rec, gen='G-det-gen'))
    if a == c and len(a) >= 12:
        out.append(dict(desc=f'seeds {base["random_seed"]} and {base["random_seed"] + 1} give the same workload',
                        signature='seed-ignored', recipe=rec, gen='G-det-gen'))
    if a == d and len(a) >= 12 and base['random_seed'] != 42:
        out.append(dict(desc=f'seed {base["random_seed"]} gives the same workload as the default seed 42',
                        signature='seed-ignored', recipe=rec, gen='G-det-gen'))
    return out, len(a)


def replay(recipe):
    if recipe.get('gen') == 'G-det-runsim':
        solo = sub(dict(kind='runsim', params=recipe['params']), 3)
        after = sub(dict(kind='runsim', params=recipe['params'], before=recipe['before'],
                         via_defaults=recipe.get('via_defaults', False)), 6)
        return None, ([] if solo == after else [dict(desc='run_simulator statistics depend on earlier simulations in the process',
                                                      signature='nondeterminism', recipe=recipe, gen='G-det-runsim')])
    if recipe.get('gen') == 'G-det-gen':
        return None, gen_hits(recipe['params'], recipe['params2'], recipe['nticks'])[0]
    case, run = S.drive(recipe, MASK)
    return case, variants(recipe, case)


def variants(recipe, case):
    jobs = [(dict(kind='sim', recipe=recipe, mask=MASK), 2),
            (dict(kind='sim', recipe=recipe, mask=MASK, warmup=2), 7),
            (dict(kind='sim', recipe=recipe, mask=MASK, patch_uuid=12345), 11),
            (dict(kind='sim', recipe=recipe, mask=MASK, patch_uuid=777, uuid_same_prefix=1), 2),
            # the process-global container counter stands just below a power of ten (ids are strings)
            (dict(kind='sim', recipe=recipe, mask=MASK, counter_start=[8, 97, 996, 9995][len(recipe['pipes']) % 4]), 5),
            # scaling laws handed over as anonymous callables, after other simulations did the same
            (dict(kind='sim', recipe=recipe, mask=MASK, callable_laws=True, warmup=1), 77)]
    hits = []
    for job, hs in jobs:
        r = sub(job, hs)
        if r['obs'] != case['obs_raw']:
            what = 'a fresh process' + (' after other simulations' if job.get('warmup') else '') + \
                   (' with other uuid values' + (' sharing their first 32 bits' if job.get('uuid_same_prefix') else '') if job.get('patch_uuid') else '') + \
                   (f' with the container counter at {job["counter_start"]}' if job.get('counter_start') else '') + \
                   (' with the scaling laws passed as callables' if job.get('callable_laws') else '') + \
                   f' (PYTHONHASHSEED={hs})'
            k = next((i for i, (a, b) in enumerate(zip(r['obs'], case['obs_raw'])) if a != b), min(len(r['obs']), len(case['obs_raw'])))
            hits.append(dict(desc=f'run differs in {what}: first difference at position {k} of the canonical event log',
                             signature='nondeterminism', recipe=recipe, gen=recipe.get('gen')))
            break
    return hits


def run(ctx):
    cases, hits = [], []
    st = collections.Counter()
    recipes = []
    n = ctx.budget(30, 400)
    for i in range(n):
        rng = ctx.case_rng('G-det', i)
        # i % 7: contended priority runs, mixed runs, saturated runs, and (single-operator containers) pipelines with
        # sibling operators of which some are killed and retried while others become ready / parallel chains
        rec = [lambda: S.gen_preempt(rng, gen='G-det'), lambda: S.gen_sim(rng, gen='G-det'),
               lambda: S.gen_saturate(rng, rng.choice(['overbook', 'overbook', 'priority-pool', 'priority']), gen='G-det'),
               lambda: S.gen_abandon(rng, gen='G-det', algo=rng.choice(['priority', 'priority', 'overbook'])),
               lambda: S.gen_branches(rng, rng.choice(['priority', 'overbook', 'naive']), gen='G-det'),
               lambda: S.gen_failready(rng, rng.choice(['priority', 'overbook']), gen='G-det'),
               # two suspensions of one pool in one round, ending together, with competition afterwards
               lambda: S.gen_twin_preempt(rng, gen='G-det')][i % 7]()
        case, run_ = S.drive(rec, MASK)
        case['obs_raw'] = list(case['obs'])
        SP.stats_of(run_, st)
        # the same run again in this process (globals dirtied by everything before)
        case2, _ = S.drive(rec, MASK)
        if case2['obs'] != case['obs_raw']:
            hits.append(dict(desc='the same run repeated in the same process differs', signature='nondeterminism',
                             recipe=rec, gen='G-det'))
        cases.append(case)
        recipes.append((rec, case))
    with ThreadPoolExecutor(8) as ex:
        for h in ex.map(lambda rc: variants(*rc), recipes):
            hits += h
            st['process_variants'] += 5
    # the generated workload depends only on workload parameters, tick rate and seed
    ngen = ctx.budget(12, 150)

    def gen_check(i):
        rng = ctx.case_rng('G-det-gen', i)
        # boundary seeds first (0 is a legitimate seed; 42 is the documented default), then random ones
        seed0 = [0, 1, 41, 2 ** 32 - 1][i] if i < 4 else rng.randrange(10 ** 6)
        base = dict(random_seed=seed0, ticks_per_second=rng.choice([1, 10, 100]),
                    waiting_seconds_mean=rng.choice([0.5, 2.0, 5.0]), num_pipelines=rng.choice([1, 3, 4]),
                    num_operators=rng.choice([1, 3, 5]), cpu_io_ratio=rng.choice([0.0, 0.5, 1.0]))
        if i == 4:
            # a seed whose stream contains an operator-count draw below zero (the rare clamp branch), at tick 121
            base = dict(random_seed=30, ticks_per_second=1000, waiting_seconds_mean=0.01, num_pipelines=4, num_operators=8)
        other = dict(base, scheduler_algo=rng.choice(['naive', 'priority-pool', 'overbook']), num_pools=rng.choice([1, 2, 5]),
                     cpus_per_pool=rng.choice([1, 8]), ram_gb_per_pool=rng.choice([4, 64]), duration=rng.choice([1, 77]),
                     multi_operator_containers=False, allow_memory_overcommit=True)
        nt = int(min(12000, max(60, 25 * base['waiting_seconds_mean'] * base['ticks_per_second'])))
        if i == 4:
            nt = 400
        return gen_hits(base, other, nt)
    # run_simulator itself (real generator, statistics as returned): alone in a fresh process vs. after runs with
    # OTHER parameters (another tick rate, another scheduler) in the same process
    def runsim_check(i):
        rng = ctx.case_rng('G-det-runsim', i)
        tps = rng.choice([10, 20, 100])
        base = dict(duration=rng.choice([20, 30, 45]), ticks_per_second=tps, waiting_seconds_mean=rng.choice([1.0, 2.5]),
                    num_pipelines=rng.choice([2, 4]), num_operators=rng.choice([2, 3]), random_seed=rng.randrange(1000),
                    scheduler_algo=rng.choice(['priority', 'naive', 'priority-pool']), num_pools=2,
                    cpus_per_pool=rng.choice([8, 16]), ram_gb_per_pool=rng.choice([32, 64]),
                    query_prob=0.4, interactive_prob=0.3, batch_prob=0.3)
        others = [dict(base, ticks_per_second=rng.choice([t for t in (10, 50, 100, 200) if t != tps]), duration=10),
                  dict(base, scheduler_algo='naive', random_seed=base['random_seed'] + 1, duration=10)]
        via = i % 2 == 1
        if via:
            # the run under test leaves most keys to the documented defaults; the other runs are configured by adjusting
            # the dict get_param_defaults() returns (as the README and the tests do)
            groups = [['waiting_seconds_mean'], ['num_pipelines'], ['num_operators'], ['random_seed'], ['cpus_per_pool'],
                      ['ram_gb_per_pool'], ['query_prob', 'interactive_prob', 'batch_prob']]
            for k in [k for g in rng.sample(groups, 5) for k in g]:
                base.pop(k, None)
                for o in others:
                    o.pop(k, None)
            others[0].update(random_seed=rng.randrange(1000), waiting_seconds_mean=0.5, num_pipelines=7)
            others[1].update(num_pools=1, cpus_per_pool=3, ram_gb_per_pool=5, interactive_prob=0.6, query_prob=0.1,
                             batch_prob=0.3, num_operators=6)
        solo = sub(dict(kind='runsim', params=base), 3)
        after = sub(dict(kind='runsim', params=base, before=others, via_defaults=via), 6)
        if solo != after:
            diff = sorted(k for k in solo if solo.get(k) != after.get(k))
            return [dict(desc=f'run_simulator with {base} returns different statistics ({", ".join(diff[:4])}) after other '
                              f'simulations (tick rates {[o["ticks_per_second"] for o in others]}) ran in the same process',
                         signature='nondeterminism', recipe=dict(gen='G-det-runsim', params=base, before=others, via_defaults=via), gen='G-det-runsim')]
        return []
    with ThreadPoolExecutor(8) as ex:
        for h in ex.map(runsim_check, range(ctx.budget(6, 60))):
            hits += h
            st['run_simulator_history_pairs'] += 1
    with ThreadPoolExecutor(8) as ex:
        for h, na in ex.map(gen_check, range(ngen)):
            hits += h
            st['generated_workload_pairs'] += 1
            st['generated_pipelines'] += na
    return dict(cases=cases, hits=hits, dist=dict(st), distinct_nontrivial=len({tuple(c['inp']) for c in cases}),
                rule='G-det: whole runs (all shipped schedulers incl. contended priority runs) executed in this process twice and '
                     'in four fresh interpreter processes (different PYTHONHASHSEED; after unrelated simulations; uuid4 '
                     'patched to another stream; container counter preset just below a power of ten): every canonical event log must equal the single trace the model computes; '
                     'generated workloads under different scheduler/executor settings must be identical, under different '
                     'seeds different. non-trivial = distinct run configurations',
                samples=[{k: recipes[0][0][k] for k in ('algo', 'tps', 'npools', 'cpu', 'ram', 'duration')}])
