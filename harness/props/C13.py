"""C13 Trace replay delivers each pipeline once, at the first tick >= its arrival; gentrace + run -w
simulate the arrivals of run."""
import collections
import io
import math
import os
import random
from fractions import Fraction as F

from harness.impl import Q, enc_list

from eudoxia.simulator import get_param_defaults
from eudoxia.workload import Workload, WorkloadGenerator
from eudoxia.workload.csv_io import CSVOperatorRow, CSVWorkloadReader, CSVWorkloadWriter, WorkloadTraceGenerator

ID = 'C13'
BRIDGE_IMPORTS = 'From Eudoxia Require Import Model.Trace.\n'
KIND_TRACE = 13
KIND_GENTRACE = 23
KNOWN = 'late-by-one-float-division'
BRIDGE = [
    ('trace_exprs', 'ext_trace_exprs = trace_exprs', 'reflexivity.'),
]
ASSUMPTIONS = [
    'rows of a trace are in arrival order (ascending arrival_seconds); NaN / inf cells are outside the domain',
    'the expected tick is ceil(d * tps) with d the decimal value of the CSV cell; when d * tps exceeds an integer k by '
    'less than 2^-38 * max(1, k) (a distance no binary64 computation resolves) tick k is accepted as well',
    'kind 13 cases with start > 0 set WorkloadTrace.current_tick before the first call (reach for far-out grid points)',
]
TRUSTED = ['csv / float() parse the cell to the binary64 nearest to its decimal value (CPython); the model receives that '
           'float as an exact rational']
SLACK = F(1, 2 ** 38)
TPS_ALL = [1, 2, 3, 7, 10, 60, 100, 1000, 10 ** 4, 10 ** 5]
TPS_DEC = [1, 2, 10, 100, 1000, 10 ** 4, 10 ** 5]


# ------------------------------------------------------------------------------------------------
# exact arithmetic helpers

def dec_str(fr):
    """exact decimal text of a fraction whose denominator divides a power of ten"""
    fr = F(fr)
    e = 0
    while (fr * 10 ** e).denominator != 1:
        e += 1
        if e > 40:
            raise ValueError('not a finite decimal: %s' % fr)
    n = (fr * 10 ** e).numerator
    if e == 0:
        return str(n)
    s = str(abs(n)).rjust(e + 1, '0')
    return ('-' if n < 0 else '') + s[:-e] + '.' + s[-e:]


def accepted_ticks(d, tps, start):
    """exact tick of an arrival with decimal value d, and the set of ticks the property accepts"""
    x = d * tps
    exact = max(start, math.ceil(x))
    acc = {exact}
    k = math.floor(x)
    if x > k and x - k < SLACK * max(1, k):
        acc.add(max(start, k))
    return exact, acc


def overshoot(cell_float, tps, k):
    """Does the float quotient of get_next_batch_tick exceed the integer k (and not k + 1)?"""
    q = cell_float / (1.0 / tps)
    return k < q <= k + 1, q


# ------------------------------------------------------------------------------------------------
# driving the real classes

def write_csv(pipes):
    """pipes: list of (arrival cell (text or float), number of operators). Real CSVWorkloadWriter."""
    f = io.StringIO()
    w = CSVWorkloadWriter(f)
    for i, (cell, nops) in enumerate(pipes):
        for j in range(nops):
            w.write_row(CSVOperatorRow(
                pipeline_id=f'p{i}', arrival_seconds=cell if j == 0 else None,
                priority='QUERY' if j == 0 else '', operator_id=f'op{j + 1}', parents=f'op{j}' if j else '',
                baseline_cpu_seconds=1.0, cpu_scaling='const', memory_gb=None, storage_read_gb=1.0))
    return f.getvalue()


def arrival_cells(text):
    """the arrival_seconds cells of the first row of every pipeline, as text (plain csv parse)"""
    import csv
    cells, last = [], None
    for row in csv.DictReader(io.StringIO(text)):
        if row['pipeline_id'] != last:
            cells.append(row['arrival_seconds'].strip())
            last = row['pipeline_id']
    return cells


def replay_real(text, tps, start, nticks, ids):
    """Real CSVWorkloadReader -> WorkloadTrace; returns per tick the file positions of the pipelines returned."""
    w = CSVWorkloadReader(io.StringIO(text)).get_workload(tps)
    if start:
        w.current_tick = start
    pos = {pid: i for i, pid in enumerate(ids)}
    out = []
    for _ in range(nticks):
        out.append([pos[p.pipeline_id] for p in w.run_one_tick()])
    return out


def enc_deliveries(per_tick):
    sp = [(t, d) for t, d in enumerate(per_tick) if d]
    return enc_list(sp, lambda td: [td[0]] + enc_list(td[1]))


# ------------------------------------------------------------------------------------------------
# monitors (exact rationals on the decimal text; no model involved)

def order_monitor(per_tick, npipes):
    flat = [i for d in per_tick for i in d]
    if flat != list(range(len(flat))):
        dup = [i for i, c in collections.Counter(flat).items() if c > 1]
        if dup:
            return f'pipeline {dup[0]} delivered {flat.count(dup[0])} times'
        return f'pipelines delivered out of file order or skipped: {flat[:12]}...'
    if len(flat) > npipes:
        return f'{len(flat)} deliveries for {npipes} pipelines'
    return None


def trace_monitor(rec, cells, per_tick):
    """rule of the property on one replay; yields (signature, desc, minimal recipe or None)"""
    tps, start, nticks = rec['tps'], rec.get('start', 0), rec['nticks']
    o = order_monitor(per_tick, len(cells))
    if o:
        yield 'replay-order', f'{o} (tps={tps}, {len(cells)} pipelines)', None
        return
    when = {i: start + t for t, d in enumerate(per_tick) for i in d}
    end = start + nticks
    prev = None
    for i, cell in enumerate(cells):
        d = F(cell)
        if prev is not None and d < prev:
            yield 'harness-precondition', f'generated trace is not in arrival order at row {i}', None
            return
        prev = d
        exact, acc = accepted_ticks(d, tps, start)
        t = when.get(i)
        mini = dict(gen='G-trace', sub='minimal', tps=tps, start=0, nticks=exact + 3, pipes=[[cell, 1]]) \
            if start == 0 and exact < 5000 else None
        if t is None:
            if max(acc) >= end:
                continue          # arrives after the run's end: not delivered, as demanded
            ov, q = overshoot(float(cell), tps, exact)
            if exact == end - 1 and ov:
                yield KNOWN, (f'pipeline {i} (arrival_seconds {cell}, {tps} ticks/s): exact tick {exact} is the last tick of '
                              f'the run but it was not delivered; float quotient {q!r} > {exact}'), mini
            else:
                yield 'replay-lost', (f'pipeline {i} (arrival_seconds {cell}, {tps} ticks/s) is due in tick {exact} < {end} '
                                      f'but was never delivered'), None
            continue
        if t in acc:
            continue
        ov, q = overshoot(float(cell), tps, exact)
        if t == exact + 1 and ov:
            yield KNOWN, (f'arrival_seconds {cell} at {tps} ticks/s delivered in tick {t}, first tick at or after the arrival '
                          f'is {exact}; float quotient {float(cell)!r}/{1.0 / tps!r} = {q!r} > {exact} (pipeline {i})'), mini
        elif t < min(acc):
            yield 'replay-tick', (f'pipeline {i} (arrival_seconds {cell}, {tps} ticks/s) delivered EARLY in tick {t}, '
                                  f'first tick at or after its arrival is {exact}'), None
        else:
            yield 'replay-tick', (f'pipeline {i} (arrival_seconds {cell}, {tps} ticks/s) delivered in tick {t}, '
                                  f'first tick at or after its arrival is {exact} (not explained by the float quotient {q!r})'), None


def roundtrip_monitor(tps, nticks, gen_ticks, cells, per_tick):
    """gentrace + run -w against the generator's own ticks"""
    o = order_monitor(per_tick, len(cells))
    if o:
        yield 'replay-order', f'{o} (gentrace round trip, tps={tps})'
        return
    when = {i: t for t, d in enumerate(per_tick) for i in d}
    for i, (g, cell) in enumerate(zip(gen_ticks, cells)):
        t = when.get(i)
        if t == g:
            continue
        ov, q = overshoot(float(cell), tps, g)
        if float(cell) != g * (1.0 / tps):
            # the recorded finding is about the float time of tick g (g * tick_length); any other written value
            # is a different defect of the round trip
            yield 'roundtrip-arrival', (f'gentrace at {tps} ticks/s wrote arrival_seconds {cell} for pipeline {i} generated in '
                                        f'tick {g}, whose time is {g * (1.0 / tps)!r}; it is replayed in tick {t}')
        elif ov and (t == g + 1 or (t is None and g == nticks - 1)):
            yield KNOWN, (f'gentrace round trip at {tps} ticks/s: pipeline {i} generated in tick {g} '
                          f'(arrival_seconds {cell}) is replayed in tick {"none (run over)" if t is None else t}; '
                          f'float quotient {float(cell)!r}/{1.0 / tps!r} = {q!r} > {g}')
        else:
            yield 'roundtrip-tick', (f'gentrace round trip at {tps} ticks/s: pipeline {i} generated in tick {g} '
                                     f'(arrival_seconds {cell}) is replayed in tick {t}')


# ------------------------------------------------------------------------------------------------
# cases

def trace_case(rec):
    pipes = [tuple(p) for p in rec['pipes']]
    text = write_csv(pipes)
    cells = arrival_cells(text)
    ids = [f'p{i}' for i in range(len(pipes))]
    tps, start, nticks = rec['tps'], rec.get('start', 0), rec['nticks']
    per_tick = replay_real(text, tps, start, nticks, ids)
    inp = [tps, start, nticks] + enc_list([float(c) for c in cells], Q)
    hits = []
    for sig, desc, mini in trace_monitor(rec, cells, per_tick):
        hits.append(dict(desc=desc, signature=sig, recipe=mini or rec, gen=rec['gen']))
    case = dict(kind=KIND_TRACE, inp=inp, obs=enc_deliveries(per_tick), recipe=rec, gen=rec['gen'])
    return case, hits, dict(cells=cells, per_tick=per_tick)


class Recorder:
    """the workload handed to WorkloadTraceGenerator: the real generator, with the size of every tick's output noted"""

    def __init__(self, inner):
        self.inner, self.counts = inner, []

    def run_one_tick(self):
        ps = self.inner.run_one_tick()
        self.counts.append(len(ps))
        return ps


class CountingWorkload(Workload):
    """an empty workload that counts how often run_simulator asks it for a tick"""

    def __init__(self):
        self.n = 0

    def run_one_tick(self):
        self.n += 1
        return []


def ticks_run_executes(params):
    from eudoxia.simulator import run_simulator
    import logging
    w = CountingWorkload()
    logging.disable(logging.CRITICAL)
    try:
        run_simulator(dict(params, scheduler_algo='naive', num_pools=1), workload=w)
    finally:
        logging.disable(logging.NOTSET)
    return w.n


# durations whose product with the tick rate lands just BELOW a whole number of ticks (0.29 s * 100 = 28.999999999999996)
SHORT_PRODUCTS = {tps: [k / tps for k in range(1, 2500 if tps == 1000 else 400) if (k / tps) * tps < k]
                  for tps in (100, 1000, 10000, 60, 333)}


def gentrace_cli(params):
    """the text `eudoxia gentrace` writes for a parameter file holding exactly `params`"""
    import contextlib
    import logging
    import tempfile
    import tomlkit
    from eudoxia.__main__ import gentrace_command
    with tempfile.TemporaryDirectory(prefix='c13g') as d:
        pf, of = os.path.join(d, 'params.toml'), os.path.join(d, 'trace.csv')
        with open(pf, 'w') as f:
            f.write(tomlkit.dumps(dict(params)))
        logging.disable(logging.CRITICAL)
        try:
            with contextlib.redirect_stdout(io.StringIO()), contextlib.redirect_stderr(io.StringIO()):
                try:
                    gentrace_command(pf, of)
                except SystemExit as e:
                    return f'<gentrace exited with {e.code}>'
                except Exception as e:      # noqa
                    return f'<gentrace raised {type(e).__name__}: {e}>'
        finally:
            logging.disable(logging.NOTSET)
        with open(of, newline='') as f:
            return f.read()


def gentrace_case(rec):
    params = get_param_defaults()
    params.update(rec['params'])
    tps = params['ticks_per_second']
    rw = Recorder(WorkloadGenerator(**params))
    tg = WorkloadTraceGenerator(workload=rw, ticks_per_second=tps, duration_secs=params['duration'])
    f = io.StringIO()
    w = CSVWorkloadWriter(f)
    ids = []
    for row in tg.generate_rows():
        w.write_row(row)
        if not ids or ids[-1] != row.pipeline_id:
            ids.append(row.pipeline_id)
    text = f.getvalue()
    gen_ticks = [t for t, c in enumerate(rw.counts) for _ in range(c)]
    nticks = int(params['duration'] * tps)        # run_simulator's max_ticks, as documented ...
    run_ticks = ticks_run_executes(params)          # ... and as executed
    cells = arrival_cells(text)
    hits = []
    # what `run` does with the same parameters: a fresh generator asked once per tick for nticks ticks
    direct = WorkloadGenerator(**params)
    direct_ticks = [t for t in range(nticks) for _ in direct.run_one_tick()]
    if direct_ticks != gen_ticks:
        k = next((i for i, (a, b) in enumerate(zip(direct_ticks, gen_ticks)) if a != b), min(len(direct_ticks), len(gen_ticks)))
        hits.append(dict(desc=f'run generates {len(direct_ticks)} pipelines in {nticks} ticks (duration {params["duration"]} s at '
                              f'{tps} ticks/s), gentrace wrote {len(gen_ticks)} from {len(rw.counts)} ticks; first difference at '
                              f'pipeline {k}', signature='roundtrip-count', recipe=rec, gen=rec['gen']))
    if run_ticks != len(rw.counts):
        hits.append(dict(desc=f'run executes {run_ticks} ticks for duration {params["duration"]} s at {tps} ticks/s '
                              f'(duration * ticks_per_second = {params["duration"] * tps!r}), gentrace covers {len(rw.counts)}: '
                              f'`run` and `gentrace` + `run -w` do not simulate the same span', signature='roundtrip-count',
                         recipe=rec, gen=rec['gen']))
    if len(cells) != len(gen_ticks) or len(ids) != len(cells) or tg.max_ticks != len(rw.counts):
        hits.append(dict(desc=f'trace has {len(cells)} pipelines, generator produced {len(gen_ticks)} in {len(rw.counts)} '
                              f'ticks (max_ticks {tg.max_ticks})', signature='roundtrip-count', recipe=rec, gen=rec['gen']))
        gen_ticks = (gen_ticks + [0] * len(cells))[:len(cells)]
    # the command-line route: `eudoxia gentrace params.toml out.csv` must write the trace of THESE parameters (the very
    # text the generator + trace generator + writer give above), whatever their values (seed 0, a zero probability)
    cli = gentrace_cli(rec['params'])
    if cli != text:
        a, b = cli.splitlines(), text.splitlines()
        k = next((i for i, (x, y) in enumerate(zip(a, b)) if x != y), min(len(a), len(b)))
        hits.append(dict(desc=f'`eudoxia gentrace` with {rec["params"]} wrote {len(a)} lines, the generator with the same '
                              f'parameters produces {len(b)}; first difference in line {k + 1}: '
                              f'{(a[k] if k < len(a) else "<end>")[:90]!r} instead of {(b[k] if k < len(b) else "<end>")[:90]!r}',
                         signature='roundtrip-cli', recipe=rec, gen=rec['gen']))
    per_tick = replay_real(text, tps, 0, nticks, ids)
    for sig, desc in roundtrip_monitor(tps, nticks, gen_ticks, cells, per_tick):
        hits.append(dict(desc=desc, signature=sig, recipe=rec, gen=rec['gen']))
    inp = [tps, nticks] + enc_list(gen_ticks)
    obs = enc_list([float(c) for c in cells], Q) + enc_deliveries(per_tick)
    case = dict(kind=KIND_GENTRACE, inp=inp, obs=obs, recipe=rec, gen=rec['gen'])
    return case, hits, dict(cells=cells, per_tick=per_tick, gen_ticks=gen_ticks)


def replay(recipe):
    if recipe.get('gen') == 'G-gentrace':
        c, h, _ = gentrace_case(recipe)
    else:
        c, h, _ = trace_case(recipe)
    return c, h


# ------------------------------------------------------------------------------------------------
# generators

def grid_recipes(kmax, chunk=300):
    """every grid point k/tps, k <= kmax, in three spellings of the cell"""
    for tps in TPS_ALL:
        for lo in range(0, kmax + 1, chunk):
            ks = list(range(lo, min(kmax, lo + chunk - 1) + 1))
            forms = []
            if tps in TPS_DEC:
                forms.append(('decimal', [dec_str(F(k, tps)) for k in ks]))
            forms.append(('k/tps', [k / tps for k in ks]))
            forms.append(('k*(1.0/tps)', [k * (1.0 / tps) for k in ks]))
            for name, cells in forms:
                yield dict(gen='G-trace', sub='grid ' + name, tps=tps, start=0, nticks=ks[-1] + 3,
                           pipes=[[c, 1] for c in cells])


def far_recipe(rng):
    """grid points far from 0: the replay starts with current_tick just before them"""
    tps = rng.choice(TPS_ALL)
    k0 = rng.choice([10 ** 4, 10 ** 5, 10 ** 6, 10 ** 7, 2 ** 20, 2 ** 23]) + rng.randint(0, 5000)
    ks = sorted(set(k0 + rng.randint(0, 400) for _ in range(rng.randint(50, 250))))
    form = rng.choice(['decimal', 'k/tps', 'k*(1.0/tps)'] if tps in TPS_DEC else ['k/tps', 'k*(1.0/tps)'])
    cells = [dec_str(F(k, tps)) if form == 'decimal' else (k / tps if form == 'k/tps' else k * (1.0 / tps)) for k in ks]
    start = k0 - rng.choice([0, 1, 2, 2, 2]) + rng.choice([0, 0, 0, 30])
    return dict(gen='G-trace', sub='far ' + form, tps=tps, start=start, nticks=max(0, ks[-1] - start + rng.choice([-1, 0, 1, 2, 3])),
                pipes=[[c, 1] for c in cells])


def sig_decimal(rng, hi):
    """a decimal in [0, hi] with at most 9 significant digits, as Fraction"""
    digits = rng.randint(1, 9)
    m = rng.randint(0, 10 ** digits - 1)
    e = rng.randint(0, 12)
    v = F(m, 10 ** e)
    while v > hi:
        v /= 10
    return v


def spell(rng, fr):
    """one of several texts float() and Fraction() read as the same decimal"""
    s = dec_str(fr)
    r = rng.random()
    if r < 0.1:
        t = s + '0' if '.' in s else s + '.0'
    elif r < 0.2:
        from decimal import Decimal
        t = '%.11E' % Decimal(s)
    else:
        t = s
    return t if F(t) == fr else s


def grid_decimal(k, tps):
    """k/tps as a decimal: exact when tps divides a power of ten, else rounded to 9 decimals"""
    return F(k, tps) if tps in TPS_DEC else F(round(F(k, tps) * 10 ** 9), 10 ** 9)


def mixed_recipe(rng):
    """off-grid decimals, values hugging grid points, equal arrivals, gaps, arrivals beyond the end"""
    tps = rng.choice(TPS_ALL)
    span = rng.choice([5, 40, 300])                 # ticks covered
    n = rng.randint(1, 120)
    vals = []
    for _ in range(n):
        r = rng.random()
        if r < 0.35:
            vals.append(sig_decimal(rng, F(span, tps)))
        elif r < 0.75:
            eps = rng.choice([0, 0, 0, F(1, 10 ** 9), F(-1, 10 ** 9), F(1, 10 ** 12), F(-1, 10 ** 12),
                              F(1, 10 ** 16), F(-1, 10 ** 16)])
            vals.append(max(F(0), grid_decimal(rng.randint(0, span), tps) + eps))
        elif r < 0.88 and vals:
            vals += [rng.choice(vals)] * rng.randint(1, 4)      # equal arrivals
        else:
            vals.append(grid_decimal(rng.randint(span, 3 * span + 2), tps))   # gap / beyond the end
    vals.sort()
    vals = vals[:300]
    last = math.ceil(vals[-1] * tps)
    nticks = rng.choice([last + 2, last + 2, last + 1, last, max(1, last - 1), max(1, last // 2), span + 1, 1])
    pipes = [[spell(rng, v), rng.choice([1, 1, 1, 2, 3])] for v in vals]
    return dict(gen='G-trace', sub='mixed', tps=tps, start=0, nticks=nticks, pipes=pipes)


def burst_recipe(rng):
    """hundreds of pipelines with one and the same arrival time (an arrival event of a large batch), plus a few before
    and after: every one of them is delivered, once, in the same tick"""
    tps = rng.choice(TPS_ALL)
    k = rng.randint(0, 30)
    v = grid_decimal(k, tps) + rng.choice([0, 0, F(1, 10 ** 9)])
    n = rng.choice([129, 150, 200, 257, 300])
    before = sorted(grid_decimal(rng.randint(0, k), tps) for _ in range(rng.randint(0, 3))) if k else []
    after = sorted(grid_decimal(rng.randint(k + 1, k + 20), tps) for _ in range(rng.randint(0, 4)))
    vals = [x for x in before if x < v] + [v] * n + [x for x in after if x > v]
    last = math.ceil(vals[-1] * tps)
    pipes = [[spell(rng, x) if x != v else dec_str(v), 1] for x in vals]
    return dict(gen='G-trace', sub='burst', tps=tps, start=0, nticks=last + 2, pipes=pipes)


def gentrace_recipe(rng):
    tps = rng.choice([1, 2, 10, 100, 1000, 3, 7, 16, 30, 60, 128, 333, 4096, 10000, 100000])
    nt = rng.choice([20, 60, 150, 300])
    wait_ticks = rng.choice([1, 1, 2, 3, 5, 10, 20])
    params = dict(ticks_per_second=tps, duration=nt / tps + rng.choice([0, 0, 0.5 / tps]),
                  waiting_seconds_mean=(wait_ticks + rng.choice([0, 0.25])) / tps,
                  num_pipelines=rng.choice([1, 1, 2, 4]), num_operators=rng.choice([1, 2, 5]),
                  random_seed=rng.randint(0, 10 ** 6))
    if SHORT_PRODUCTS.get(tps) and rng.random() < 0.5:
        params['duration'] = rng.choice(SHORT_PRODUCTS[tps])
    # zero-valued parameters are values like any other (drawn last, from a side stream, so that the cases above stay put)
    r2 = random.Random(rng.random())
    if r2.random() < 0.2:
        params['random_seed'] = 0
    z = r2.random()
    if z < 0.3:
        a = r2.choice([0.25, 0.5, 0.75])
        triple = [0.0, a, 1 - a]
        r2.shuffle(triple)
        params.update(interactive_prob=triple[0], query_prob=triple[1], batch_prob=triple[2])
    return dict(gen='G-gentrace', params=params)


# ------------------------------------------------------------------------------------------------

def run(ctx):
    cases, hits = [], []
    st = collections.Counter()
    seen = set()

    def account(rec, extra, h):
        tps = rec['tps'] if 'tps' in rec else rec['params']['ticks_per_second']
        cells = extra['cells']
        st['pipelines'] += len(cells)
        st[f'tps_{tps}_pipelines'] += len(cells)
        delivered = sum(len(d) for d in extra['per_tick'])
        st['delivered'] += delivered
        st['not_delivered_beyond_end'] += len(cells) - delivered
        st['ticks_replayed'] += len(extra['per_tick'])
        st['ticks_with_several_pipelines'] += sum(len(d) > 1 for d in extra['per_tick'])
        for c in cells:
            x = F(c) * tps
            st['on_grid' if x.denominator == 1 else 'off_grid'] += 1
            if x.denominator != 1 and x - math.floor(x) < SLACK * max(1, math.floor(x)):
                st['in_slack_band'] += 1
        nk = sum(1 for x in h if x['signature'] == KNOWN)
        st['late_by_one_known'] += nk
        if nk:
            st[f'tps_{tps}_late_by_one'] += nk

    recs = list(grid_recipes(5000 if ctx.thorough else 2000))
    for i in range(ctx.budget(250, 6000)):
        recs.append(mixed_recipe(ctx.case_rng('G-trace-mixed', i)))
    for i in range(ctx.budget(20, 1500)):
        recs.append(far_recipe(ctx.case_rng('G-trace-far', i)))
    for i in range(ctx.budget(8, 200)):
        recs.append(burst_recipe(ctx.case_rng('G-trace-burst', i)))
    for rec in recs:
        c, h, extra = trace_case(rec)
        cases.append(c)
        hits += h
        st['cases_' + rec['sub'].split()[0]] += 1
        st['cases_start_gt_0'] += rec.get('start', 0) > 0
        account(rec, extra, h)
        seen.add(tuple(c['inp']))
    for i in range(ctx.budget(120, 4000)):
        rec = gentrace_recipe(ctx.case_rng('G-gentrace', i))
        c, h, extra = gentrace_case(rec)
        cases.append(c)
        hits += h
        st['cases_gentrace'] += 1
        st['gentrace_pipelines'] += len(extra['cells'])
        st['gentrace_late_by_one'] += sum(1 for x in h if x['signature'] == KNOWN)
        account(rec, extra, h)
        if extra['cells']:
            seen.add(tuple(c['inp']))
    hits.sort(key=lambda h: 0 if h['desc'].startswith('arrival_seconds 0.07 at 100 ticks/s') else 1)   # show the canonical F7 input
    return dict(cases=cases, hits=hits, dist=dict(st), distinct_nontrivial=len(seen), exhaustive=False,
                rule='G-trace: every grid point k/tps, k <= 2000 (thorough 5000), tps in {1,2,3,7,10,60,100,1000,1e4,1e5}, cell '
                     'written as exact decimal / repr(k/tps) / repr(k*(1.0/tps)), in files of <= 300 pipelines; mixed files of '
                     'off-grid decimals (<= 9 significant digits), values 1e-9..1e-16 around grid points, equal arrivals (also '
                     'different spellings of one float), multi-operator pipelines, gaps, arrivals beyond the end, runs cut short; '
                     'far-out grid points (10^4..10^7 ticks) with current_tick preset. Real CSVWorkloadWriter -> CSV text -> real '
                     'CSVWorkloadReader.get_workload -> run_one_tick. G-gentrace: real WorkloadGenerator -> WorkloadTraceGenerator -> '
                     'CSVWorkloadWriter -> reader -> replay for int(duration*tps) ticks, over seeds, tps in {1,2,10,100,1000}, waiting '
                     'time, pipelines per burst; model gets the generation ticks and must reproduce the arrival column and the '
                     'deliveries. non-trivial = distinct inputs with at least one pipeline',
                samples=[dict(recs[0], pipes=recs[0]['pipes'][:5]), cases[-1]['recipe']])
