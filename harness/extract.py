"""Fail-closed extractor: parses /repo sources with `ast` (never imports them) and emits Coq text for
the parts of the code that are tables or closed expressions. Anything outside the recognised subset
becomes `ExtractionFailed "<why>"`, which makes exactly the bridge obligation that mentions it
ill-typed. Output: build/bridge/Extracted.v"""
import ast
import os
import re
import sys
from pathlib import Path

REPO = Path(os.environ.get('VERIF_REPO', '/repo'))
OUT = Path(os.environ.get('VERIF_ROOT', '/verif')) / 'build/bridge/Extracted.v'

OST = {'PENDING': 'Pending', 'ASSIGNED': 'Assigned', 'RUNNING': 'Running',
       'SUSPENDING': 'Suspending', 'COMPLETED': 'Completed', 'FAILED': 'Failed'}
PRIO = {'QUERY': 'Query', 'INTERACTIVE': 'Interactive', 'BATCH_PIPELINE': 'Batch'}


class Fail(Exception):
    pass


def parse(rel):
    return ast.parse((REPO / rel).read_text())


def find(tree, kind, name):
    for n in ast.walk(tree):
        if isinstance(n, kind) and getattr(n, 'name', None) == name:
            return n
    raise Fail(f'{kind.__name__} {name} not found')


def find_assign(body, name):
    for n in body:
        if isinstance(n, ast.Assign) and len(n.targets) == 1 and isinstance(n.targets[0], ast.Name) \
                and n.targets[0].id == name:
            return n.value
        if isinstance(n, ast.AnnAssign) and isinstance(n.target, ast.Name) and n.target.id == name:
            return n.value
    raise Fail(f'assignment to {name} not found')


def ost(node):
    if isinstance(node, ast.Attribute) and isinstance(node.value, ast.Name) \
            and node.value.id == 'OperatorState' and node.attr in OST:
        return OST[node.attr]
    raise Fail('not an OperatorState member: ' + ast.dump(node)[:80])


def strip_doc(body):
    if body and isinstance(body[0], ast.Expr) and isinstance(body[0].value, ast.Constant) \
            and isinstance(body[0].value.value, str):
        return body[1:]
    return body


def src(node):
    return re.sub(r'\s+', ' ', ast.unparse(node))


def qstr(s):
    return '"' + s.replace('"', "'")[:200] + '"'


def coq_list(items):
    return '[' + '; '.join(items) + ']'


def num_q(node):
    """a Python numeric literal as an exact Q literal"""
    from fractions import Fraction
    if isinstance(node, ast.UnaryOp) and isinstance(node.op, ast.USub):
        f = -Fraction(str(node.operand.value))
    elif isinstance(node, ast.Constant) and isinstance(node.value, (int, float)) \
            and not isinstance(node.value, bool):
        f = Fraction(str(node.value))
    else:
        raise Fail('not a numeric literal: ' + src(node))
    return f'({f.numerator} # {f.denominator})%Q' if f >= 0 else f'(({f.numerator}) # {f.denominator})%Q'


# ------------------------------------------------------------------------------------------------
# items

def item_ostates():
    t = parse('eudoxia/workload/runtime_status.py')
    cls = find(t, ast.ClassDef, 'OperatorState')
    names = []
    for n in strip_doc(cls.body):
        if isinstance(n, ast.Assign) and isinstance(n.targets[0], ast.Name):
            if n.targets[0].id not in OST:
                raise Fail('unknown OperatorState member ' + n.targets[0].id)
            names.append(OST[n.targets[0].id])
        else:
            raise Fail('unexpected statement in OperatorState: ' + src(n))
    return 'list ostate', coq_list(names)


def item_valid_transitions():
    t = parse('eudoxia/workload/runtime_status.py')
    v = find_assign(t.body, 'VALID_TRANSITIONS')
    if not isinstance(v, ast.Dict):
        raise Fail('VALID_TRANSITIONS is not a dict literal')
    rows = []
    for k, val in zip(v.keys, v.values):
        if not isinstance(val, ast.List):
            raise Fail('VALID_TRANSITIONS value is not a list literal')
        rows.append(f'({ost(k)}, {coq_list([ost(e) for e in val.elts])})')
    return 'list (ostate * list ostate)', coq_list(rows)


def item_assignable():
    t = parse('eudoxia/workload/runtime_status.py')
    v = find_assign(t.body, 'ASSIGNABLE_STATES')
    want = ("frozenset((state for state, transitions in VALID_TRANSITIONS.items() "
            "if OperatorState.ASSIGNED in transitions))")
    if src(v) != want:
        raise Fail('ASSIGNABLE_STATES has an unrecognised definition: ' + src(v))
    return 'ostate', 'Assigned'


def _ck_tokens(fn):
    """check_transition as a token list: CkTable, then CkParents when need"""
    body = strip_doc(fn.body)
    toks = []
    i = 0
    # current_state = self.operator_states[operator]
    if src(body[0]) != 'current_state = self.operator_states[operator]':
        raise Fail('check_transition: unexpected first statement ' + src(body[0]))
    for st in body[1:]:
        s = src(st)
        if isinstance(st, ast.If) and src(st.test) == 'new_state not in VALID_TRANSITIONS[current_state]':
            r = st.body[-1]
            if not (isinstance(r, ast.Return) and src(r.value).startswith('(False,')) or st.orelse:
                raise Fail('check_transition: table test does not refuse')
            toks.append('CkTable')
        elif isinstance(st, ast.If) and isinstance(st.test, ast.Compare) and src(st.test.left) == 'new_state' \
                and len(st.test.ops) == 1 and isinstance(st.test.ops[0], ast.Eq) and not st.orelse:
            when = ost(st.test.comparators[0])
            if len(st.body) != 1 or not isinstance(st.body[0], ast.For):
                raise Fail('check_transition: unexpected dependency block')
            f = st.body[0]
            if src(f.iter) != 'operator.parents' or len(f.body) != 1 or not isinstance(f.body[0], ast.If):
                raise Fail('check_transition: unexpected dependency loop')
            c = f.body[0]
            if not (isinstance(c.test, ast.Compare) and src(c.test.left) == f'self.operator_states[{src(f.target)}]'
                    and isinstance(c.test.ops[0], ast.NotEq)):
                raise Fail('check_transition: unexpected parent test ' + src(c.test))
            need = ost(c.test.comparators[0])
            r = c.body[-1]
            if not (isinstance(r, ast.Return) and src(r.value) == "(False, 'Dependencies not satisfied')"):
                raise Fail('check_transition: parent test does not refuse')
            toks.append(f'CkParents {when} {need}')
        elif isinstance(st, ast.Return) and s == 'return (True, None)':
            toks.append('CkAccept')
        else:
            raise Fail('check_transition: unrecognised statement ' + s)
    return toks


def item_check_prog():
    t = parse('eudoxia/workload/runtime_status.py')
    cls = find(t, ast.ClassDef, 'PipelineRuntimeStatus')
    fn = find(cls, ast.FunctionDef, 'check_transition')
    return 'list ck_step', coq_list(_ck_tokens(fn))


def item_transition_prog():
    t = parse('eudoxia/workload/runtime_status.py')
    cls = find(t, ast.ClassDef, 'PipelineRuntimeStatus')
    fn = find(cls, ast.FunctionDef, 'transition')
    table = {
        'can_transition, error = self.check_transition(operator, new_state)': 'TrCheck',
        'assert can_transition, error': 'TrAssert',
        'old_state = self.operator_states[operator]': 'TrReadOld',
        'self.state_counts[old_state] -= 1': 'TrDecOld',
        'self.state_counts[new_state] += 1': 'TrIncNew',
        'self.operator_states[operator] = new_state': 'TrSet',
    }
    toks = []
    for st in strip_doc(fn.body):
        s = src(st)
        if s not in table:
            raise Fail('transition: unrecognised statement ' + s)
        toks.append(table[s])
    return 'list tr_step', coq_list(toks)


def item_disk_scan():
    t = parse('eudoxia/utils/consts.py')
    v = find_assign(t.body, 'DISK_SCAN_GB_SEC')
    return 'Q', num_q(v)


def item_priorities():
    t = parse('eudoxia/utils/utils.py')
    cls = find(t, ast.ClassDef, 'Priority')
    rows = []
    for n in strip_doc(cls.body):
        if isinstance(n, ast.Assign) and n.targets[0].id in PRIO and isinstance(n.value, ast.Constant):
            rows.append(f'({PRIO[n.targets[0].id]}, {int(n.value.value)}%Z)')
        else:
            raise Fail('unexpected statement in Priority: ' + src(n))
    return 'list (prio * Z)', coq_list(rows)


ITEMS = [
    ('ostates', item_ostates),
    ('valid_transitions', item_valid_transitions),
    ('assignable_target', item_assignable),
    ('check_prog', item_check_prog),
    ('transition_prog', item_transition_prog),
    ('disk_scan', item_disk_scan),
    ('priorities', item_priorities),
]

HEADER = '''(* GENERATED by harness/extract.py from /repo on every run. Do not edit. *)
From Coq Require Import ZArith QArith List String.
Import ListNotations.
Close Scope Q_scope.
From Eudoxia Require Import Model.Types Model.Lifecycle Model.Shapes Model.Timing.
Inductive ext_fail := ExtractionFailed (why : string).
'''


def main():
    from harness import extract_more
    items = ITEMS + extract_more.ITEMS
    out = [HEADER]
    status = {}
    for name, fn in items:
        try:
            ty, val = fn()
            out.append(f'Definition ext_{name} : {ty} := {val}.')
            status[name] = 'ok'
        except Fail as e:
            out.append(f'Definition ext_{name} : ext_fail := ExtractionFailed {qstr(str(e))}%string.')
            status[name] = 'FAILED: ' + str(e)
        except Exception as e:  # fail closed on anything unexpected
            out.append(f'Definition ext_{name} : ext_fail := ExtractionFailed {qstr(repr(e))}%string.')
            status[name] = 'FAILED: ' + repr(e)
    text = '\n'.join(out) + '\n'
    OUT.parent.mkdir(parents=True, exist_ok=True)
    if not OUT.exists() or OUT.read_text() != text:
        OUT.write_text(text)
    return status


if __name__ == '__main__':
    for k, v in main().items():
        print(k, v)
