"""Shared machinery of the checks: building the Coq development, the bridge obligations, the two
back ends that evaluate the model (K: vm_compute inside coqc, X: extracted OCaml), evidence,
replays and the known-findings file."""
import ast
import fcntl
import hashlib
import json
import os
import re
import subprocess
import sys
import time
from concurrent.futures import ThreadPoolExecutor
from pathlib import Path

VERIF = Path(os.environ.get('VERIF_ROOT', '/verif'))
REPO = Path(os.environ.get('VERIF_REPO', '/repo'))
COQ = VERIF / 'coq'
BUILD = VERIF / 'build'
XDIR = BUILD / 'x'
BRIDGE = BUILD / 'bridge'
PY = '/venv/bin/python'
NCPU = 16

HYGIENE_RE = re.compile(
    r'\b(Admitted|admit|Axiom|Axioms|Parameter|Parameters|Conjecture|Hypothesis|Variable|Variables)\b'
    r'|Unset\s+Guard|bypass_check|type-in-type|impredicative-set|Admit\s+Obligations')


def sh(cmd, timeout=600, cwd=None, input=None, env=None):
    p = subprocess.run(cmd, shell=isinstance(cmd, str), cwd=cwd, input=input, env=env,
                       stdout=subprocess.PIPE, stderr=subprocess.STDOUT, text=True, timeout=timeout)
    return p.returncode, p.stdout


class Lock:
    def __init__(self, name='.lock'):
        BUILD.mkdir(parents=True, exist_ok=True)
        self.path = BUILD / name

    def __enter__(self):
        self.f = open(self.path, 'w')
        fcntl.flock(self.f, fcntl.LOCK_EX)
        return self

    def __exit__(self, *a):
        fcntl.flock(self.f, fcntl.LOCK_UN)
        self.f.close()


# ----------------------------------------------------------------------------------------------
# building

def coq_sources():
    return [l.strip() for l in (COQ / '_CoqProject').read_text().splitlines()
            if l.strip().endswith('.v')]


def hygiene():
    """Forbidden vernacular anywhere in the development. Section variables/hypotheses are allowed
    only inside a Section: checked by tracking Section/End nesting."""
    bad = []
    for rel in coq_sources() + ['Extract.v']:
        depth = 0
        text = (COQ / rel).read_text()
        text = re.sub(r'\(\*.*?\*\)', lambda m: '\n' * m.group(0).count('\n'), text, flags=re.S)
        for n, line in enumerate(text.splitlines(), 1):
            s = line.strip()
            if re.match(r'(Section|Module)\s+\w+', s):
                depth += 1
            elif re.match(r'End\s+\w+\s*\.', s):
                depth = max(0, depth - 1)
            m = HYGIENE_RE.search(s)
            if m:
                word = m.group(0)
                if word in ('Hypothesis', 'Variable', 'Variables') and depth > 0:
                    continue
                bad.append(f'{rel}:{n}: {s[:80]}')
    return bad


def build_model():
    """Full .vo build of the development (incremental), then the extracted driver.
    Returns (ok, log)."""
    with Lock():
        t0 = time.time()
        if (not (COQ / 'Makefile').exists()
                or (COQ / 'Makefile').stat().st_mtime < (COQ / '_CoqProject').stat().st_mtime):
            rc, out = sh('coq_makefile -f _CoqProject -o Makefile', cwd=COQ)
            if rc != 0:
                return False, out
        rc, out = sh(f'timeout 3000 make -j{NCPU}', cwd=COQ, timeout=3100)
        if rc != 0:
            return False, out
        ok, log = build_driver()
        return ok, out + log + f'\n[build {time.time() - t0:.1f}s]'


def build_driver():
    XDIR.mkdir(parents=True, exist_ok=True)
    drv = XDIR / 'model_driver'
    newest = max((COQ / 'Model').glob('*.vo'), key=lambda p: p.stat().st_mtime, default=None)
    srcs = [COQ / 'Extract.v', VERIF / 'harness/ocaml/driver.ml']
    stamp = max([newest.stat().st_mtime if newest else 0] + [s.stat().st_mtime for s in srcs])
    if drv.exists() and drv.stat().st_mtime >= stamp:
        return True, ''
    (XDIR / 'Extract.v').write_text((COQ / 'Extract.v').read_text())
    (XDIR / 'driver.ml').write_text((VERIF / 'harness/ocaml/driver.ml').read_text())
    rc, out = sh(f'timeout 600 coqc -R {COQ} Eudoxia Extract.v', cwd=XDIR, timeout=700)
    if rc != 0:
        return False, out
    rc, out2 = sh('timeout 600 ocamlfind ocamlopt -O2 -package zarith -linkpkg -w -a '
                  'model.mli model.ml driver.ml -o model_driver', cwd=XDIR, timeout=700)
    return rc == 0, out + out2


def extraction_directives():
    """Verbatim list of the extraction directives back end X relies on (for the trusted base)."""
    res = []
    for f in ('ExtrOcamlBasic.v', 'ExtrOcamlZBigInt.v'):
        p = Path('/usr/lib/ocaml/coq/plugins/extraction') / f
        if not p.exists():
            p = Path('/usr/lib/ocaml/coq/theories/extraction') / f
        txt = p.read_text()
        n = len(re.findall(r'^\s*Extract (Constant|Inductive|Inlined Constant)', txt, flags=re.M))
        res.append(f'{f}: {n} Extract directives (standard library file, used verbatim)')
    return res


# ----------------------------------------------------------------------------------------------
# theorems of a property: compile Properties/<id>.v, collect Print Assumptions

def check_theorems(pid):
    """Re-compile Properties/<pid>.v (it only contains `exact lemma` proofs) and collect, per theorem,
    what Print Assumptions reports. Returns dict(ok, theorems=[(name, assumptions)], log)."""
    src = COQ / 'Properties' / f'{pid}.v'
    if not src.exists():
        return dict(ok=False, theorems=[], log=f'{src} missing')
    out_dir = BUILD / pid
    out_dir.mkdir(parents=True, exist_ok=True)
    rc, out = sh(f'timeout 900 coqc -R {COQ} Eudoxia -o {out_dir}/{pid}.vo {src}', timeout=1000)
    names = re.findall(r'^\s*(?:Theorem|Example)\s+(\w+)', src.read_text(), flags=re.M)
    printed = re.findall(r'^\s*Print Assumptions\s+(\w+)\.', src.read_text(), flags=re.M)
    blocks = []
    cur = None
    for line in out.splitlines():
        if line.startswith('Closed under the global context'):
            blocks.append('closed')
        elif line.startswith('Axioms:'):
            cur = []
            blocks.append(cur)
        elif cur is not None and (line.startswith(' ') or line.strip() == '') and line.strip():
            cur.append(line.strip())
        else:
            cur = None
    thms = []
    for i, n in enumerate(printed):
        a = blocks[i] if i < len(blocks) else 'unknown'
        thms.append((n, a if a == 'closed' else ' | '.join(a) if isinstance(a, list) else a))
    ok = rc == 0 and len(blocks) == len(printed)
    return dict(ok=ok, theorems=thms, all_names=names, log=out[-3000:])


# ----------------------------------------------------------------------------------------------
# bridge obligations: Gen/Extracted.v regenerated from /repo, one tiny file per obligation

def build_bridge(obligations, extra_imports=''):
    """obligations: list of (name, coq_statement, proof_script). Extracted.v must already have been
    written to build/bridge/Extracted.v by harness.extract. Returns list of (name, ok, log)."""
    BRIDGE.mkdir(parents=True, exist_ok=True)
    res = []
    with Lock('.bridge.lock'):
        rc, out = sh(f'timeout 300 coqc -R {COQ} Eudoxia -R {BRIDGE} EudoxiaGen Extracted.v',
                     cwd=BRIDGE, timeout=400)
        if rc != 0:
            return [(n, False, 'Extracted.v does not compile (extractor failed closed): ' + out[-1500:])
                    for n, _, _ in obligations]

        def one(ob):
            name, stmt, proof = ob
            f = BRIDGE / f'B_{name}.v'
            f.write_text(
                'From Coq Require Import ZArith QArith List Bool String.\nImport ListNotations.\n'
                'From Eudoxia Require Import Model.Types Model.Lifecycle.\n'
                + BRIDGE_IMPORTS + extra_imports +
                'From EudoxiaGen Require Import Extracted.\n'
                f'Goal {stmt}.\nProof. {proof} Qed.\n')
            rc, out = sh(f'timeout 300 coqc -R {COQ} Eudoxia -R {BRIDGE} EudoxiaGen B_{name}.v',
                         cwd=BRIDGE, timeout=400)
            return (name, rc == 0, out[-1500:])
        with ThreadPoolExecutor(NCPU) as ex:
            res = list(ex.map(one, obligations))
    return res


BRIDGE_IMPORTS = 'From Eudoxia Require Import Model.Shapes Model.Timing.\n'


# ----------------------------------------------------------------------------------------------
# back end X

def run_x(cases, chunk=400):
    """cases: list of (kind, [ints]); returns list of [ints] (model answers)."""
    drv = XDIR / 'model_driver'
    if not cases:
        return []
    chunks = [cases[i:i + chunk] for i in range(0, len(cases), chunk)]

    def one(ch):
        text = '\n'.join(str(k) + ' ' + ' '.join(map(str, inp)) for k, inp in ch) + '\n'
        p = subprocess.run([str(drv)], input=text, stdout=subprocess.PIPE, stderr=subprocess.PIPE,
                           text=True, timeout=3000)
        if p.returncode != 0:
            raise RuntimeError('model_driver failed: ' + p.stderr[-500:])
        lines = p.stdout.split('\n')[:len(ch)]
        return [[int(t) for t in ln.split()] for ln in lines]
    with ThreadPoolExecutor(NCPU) as ex:
        outs = list(ex.map(one, chunks))
    return [o for ch in outs for o in ch]


# ----------------------------------------------------------------------------------------------
# back end K

def _zl(l):
    return '[' + ';'.join(str(x) if x >= 0 else f'({x})' for x in l) + ']'


def _parse_coq_value(txt):
    txt = txt.replace('%Z', '').replace('%nat', '').replace(';', ',')
    return ast.literal_eval(re.sub(r'\s+', ' ', txt))


def _eval_outputs(out):
    """Values printed by `Eval vm_compute in ...`, in order."""
    vals = []
    for m in re.finditer(r'^\s*=\s(.*?)^\s*:\s', out, flags=re.S | re.M):
        vals.append(_parse_coq_value(m.group(1)))
    return vals


def run_k(kind, cases, tag, max_numbers=15000):
    """cases: list of (inp, obs). Evaluates `run kind inp` with vm_compute inside coqc and compares with
    obs there. Returns (mismatch_indices, {index: model_answer for the first few}, n_shards, log)."""
    d = BUILD / tag / 'k'
    d.mkdir(parents=True, exist_ok=True)
    for f in d.glob('k_*'):
        f.unlink()
    shards, cur, size, base = [], [], 0, 0
    for i, (inp, obs) in enumerate(cases):
        n = len(inp) + len(obs) + 4
        if cur and size + n > max_numbers:
            shards.append((base, cur))
            base, cur, size = i, [], 0
        cur.append((inp, obs))
        size += n
    if cur:
        shards.append((base, cur))

    def one(arg):
        si, (base, cs) = arg
        f = d / f'k_{si}.v'
        body = ';\n'.join(f'({_zl(i)},{_zl(o)})' for i, o in cs)
        f.write_text(
            'From Coq Require Import ZArith List.\nImport ListNotations.\nOpen Scope Z_scope.\n'
            'From Eudoxia Require Import Model.Run.\n'
            f'Definition cases : list (list Z * list Z) := [\n{body}].\n'
            f'Definition bad := mismatches {kind} 0 cases.\n'
            'Eval vm_compute in bad.\n'
            f'Eval vm_compute in map (fun i => run {kind} (fst (nth i cases ([],[])))) (firstn 3 bad).\n')
        # a single large case can exceed the default 8 MB stack while its literal is parsed
        rc, out = sh(f'ulimit -s unlimited 2>/dev/null; timeout 1200 coqc -R {COQ} Eudoxia -o {d}/k_{si}.vo {f}', timeout=1300)
        if rc != 0:
            return base, None, None, out[-2000:]
        vals = _eval_outputs(out)
        return base, vals[0], vals[1], ''
    bad, answers, log = [], {}, ''
    with ThreadPoolExecutor(NCPU) as ex:
        for base, b, ans, lg in ex.map(one, enumerate(shards)):
            if b is None:
                log += lg
                bad.append(base)  # the shard itself failed: treat as mismatch of its first case
                continue
            for j, i in enumerate(b):
                bad.append(base + i)
                if j < len(ans):
                    answers[base + i] = ans[j]
    return sorted(bad), answers, len(shards), log


# ----------------------------------------------------------------------------------------------
# known findings

def known_findings():
    f = VERIF / 'known_findings.txt'
    findings, fixed = [], []
    if f.exists():
        for line in f.read_text().splitlines():
            line = line.strip()
            if line.startswith('finding:'):
                m = re.match(r'finding:\s+property=(\S+)\s+key=(\S+)\s+(.*)', line)
                if m:
                    findings.append(dict(property=m.group(1), key=m.group(2), what=m.group(3)))
            elif line.startswith('fixed:'):
                fixed.append(line)
    return findings, fixed


def write_replay(pid, payload):
    h = hashlib.sha1(json.dumps(payload, sort_keys=True, default=str).encode()).hexdigest()[:12]
    p = VERIF / 'replays' / f'{pid}-{h}.json'
    p.parent.mkdir(exist_ok=True)
    p.write_text(json.dumps(payload, indent=1, default=str))
    return p


def write_evidence(pid, ev):
    p = VERIF / 'evidence' / f'{pid}.json'
    p.parent.mkdir(exist_ok=True)
    p.write_text(json.dumps(ev, indent=1, default=str))
    return p


def repo_fingerprint():
    rc, out = sh(f'git -C {REPO} rev-parse HEAD; git -C {REPO} status --porcelain | head -20')
    return out.strip()
