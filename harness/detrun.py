"""Subprocess entry for C07: runs one recipe (JSON on stdin) in a fresh interpreter, optionally after other
simulations (process-global container counter and registries dirtied) and with uuid.uuid4 patched to a different
deterministic stream; prints the canonical observed answer as JSON."""
import json
import sys


def main():
    job = json.loads(sys.stdin.read())
    if job.get('patch_uuid'):
        import uuid
        import random
        rnd = random.Random(job['patch_uuid'])
        if job.get('uuid_same_prefix'):
            # all identifiers distinct but with the same leading 32 bits (time_low): behaviour may depend on identity,
            # never on how much of an identifier is looked at
            uuid.uuid4 = lambda: uuid.UUID(int=(0xABCDEF01 << 96) | rnd.getrandbits(96), version=4)
        else:
            uuid.uuid4 = lambda: uuid.UUID(int=rnd.getrandbits(128), version=4)
    from harness import simdrv as S
    import random as _r
    if job.get('callable_laws'):
        from harness import impl
        impl.CALLABLE_LAWS = True
    for i in range(job.get('warmup', 0)):
        S.drive(S.gen_sim(_r.Random(1000 + i)), 3)
    if job.get('counter_start'):
        from eudoxia.executor.container import Container
        Container.next_container_num = job['counter_start']
    if job['kind'] == 'sim':
        case, run = S.drive(job['recipe'], job['mask'])
        print(json.dumps(dict(obs=case['obs'], slots=case['float_slots'], err=run.err)))
    elif job['kind'] == 'runsim':
        # the public entry point with the real WorkloadGenerator: optionally after other runs in this process
        import logging
        logging.disable(logging.CRITICAL)
        from eudoxia.simulator import run_simulator
        for other in job.get('before', []):
            if job.get('via_defaults'):
                # the way the README and the test suite configure a run: take the table of defaults and adjust it
                from eudoxia.simulator import get_param_defaults
                q = get_param_defaults()
                q.update(other)
                run_simulator(q)
            else:
                run_simulator(dict(other))
        print(json.dumps(run_simulator(dict(job['params'])).to_dict(), sort_keys=True, default=str))
    elif job['kind'] == 'gen':
        from harness.props.C07 import generated_workload
        print(json.dumps(generated_workload(job['params'], job['nticks'])))


if __name__ == '__main__':
    main()
