"""Shared scaffolding of the executor-level properties (C03 C04 C09 C10 C11 and the executor parts of
C01 C02): generate command histories with G-exec, run them on the implementation, project the trace
with the property's mask for the correspondence, run the property's monitor."""
import collections
from fractions import Fraction as F

from harness import execdrv as X


def first_hit(hits_fn, run, recipe, signature):
    """hits_fn(run) yields descriptions; returns at most one hit dict"""
    for desc in hits_fn(run):
        return [dict(desc=desc, signature=signature, recipe=recipe, gen=recipe.get('gen'))]
    return []


def drive(recipe, mask, monitor, signature):
    run = X.run_recipe(recipe)
    case = X.make_case(recipe, run, mask)
    return case, first_hit(monitor, run, recipe, signature), run


def stats_of(run, st):
    st['histories'] += 1
    st['ticks'] += len(run.trace)
    last = run.trace[-1] if run.trace else None
    if last and last['err']:
        st[f'ended_with_error_{last["err"]}'] += 1
    for e in run.trace:
        if e['err']:
            continue
        st['containers_created'] += len(e['new'])
        st['results'] += len(e['results'])
        fails = sum(r['err'] for r in e['results'])
        st['failures'] += fails
        st['ticks_with_2plus_failures'] += fails > 1
        st['suspends_accepted'] += len(e['cmd']['susp'])
        st['ticks_over_capacity_demand'] += any(
            sum(F(e['demand'][c['cid']] or 0) for c in p['active'] if c['cid'] in e['demand']) > F(p['max_ram'])
            for p in e['pools'])


def run_property(ctx, mask, monitor, signature, streams, nontrivial=None):
    """streams: list of (gen name, n_quick, n_thorough, kwargs for gen_history)"""
    cases, hits = [], []
    st = collections.Counter()
    nt = set()
    for name, nq, nth, kw in streams:
        for i in range(ctx.budget(nq, nth)):
            rng = ctx.case_rng(name, i)
            if kw.get('twins'):
                recipe, _ = X.gen_twins(rng, gen=name, odd=kw.get('twins') == 'odd')
            elif kw.get('burst'):
                recipe, _ = X.gen_burst(rng, gen=name)
            elif kw.get('waves'):
                recipe, _ = X.gen_waves(rng, gen=name)
            elif kw.get('over_susp'):
                recipe, _ = X.gen_over_susp(rng, gen=name)
            elif kw.get('overlap'):
                recipe, _ = X.gen_overlap(rng, gen=name)
            else:
                recipe, _ = X.gen_history(rng, gen=name, **kw)
            recipe['case_index'] = i
            case, h, run = drive(recipe, mask, monitor, signature)
            cases.append(case)
            hits += h
            stats_of(run, st)
            if nontrivial is None or nontrivial(run):
                nt.add(tuple(case['inp']))
    return dict(cases=cases, hits=hits, dist=dict(st), distinct_nontrivial=len(nt),
                samples=[dict(gen=c['recipe']['gen'], tps=c['recipe']['tps'], npools=c['recipe']['npools'],
                              cpu=c['recipe']['cpu'], ram=c['recipe']['ram'], over=c['recipe']['over'],
                              pipes=c['recipe']['pipes'], first_ticks=c['recipe']['ticks'][:4])
                         for c in cases[:2]])


def live(p):
    return p['active'] + p['suspending']
