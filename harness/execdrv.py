"""Executor-level driver: runs command histories on the real Executor/ResourcePool/Container and
records a rich per-tick trace; the state-aware generator G-exec; script probing; the encoders for
the Coq case format (kind 3, Model/RunExec.v)."""
import math
from fractions import Fraction

from harness import impl
from harness.impl import OST, OST_IDX, PRIO, PRIO_VAL, World, Q, enc_list, enc_pipes, err_code, random_dag

from eudoxia.executor import Executor
from eudoxia.executor.assignment import Assignment, Suspend
from eudoxia.executor.container import Container
from eudoxia.workload.pipeline import Pipeline, Segment
from eudoxia.utils import Priority

KIND_EXEC = 3
LAWS = ['const', 'log', 'sqrt', 'linear3', 'linear7', 'squared', 'exp']
M_RES, M_MEM, M_RESULTS, M_STATES, M_LISTS, M_COUNTS = 1, 2, 4, 8, 16, 32


def num(x):
    """int if integral else float (what the schedulers hand to the executor)"""
    return int(x) if float(x).is_integer() else float(x)


class _StubPool:
    def __init__(self):
        self.consumed_ram_gb = 0.0
        self.pool_id = 0
        self.max_ram_pool = float('inf')

    def get_consumed_ram_gb(self):
        return self.consumed_ram_gb


_probe_cache = {}
PROBE_ERRORS = {}      # probe key -> exception raised by the real Container while running the operator alone


def probe_script(segs, cpus, tps):
    """Per-tick memory demand of one operator with these segments, obtained from the real Container:
    a throw-away copy of the operator runs alone with unlimited RAM, every set_current_memory_usage call
    is recorded. Returns list of floats (one per tick the operator occupies)."""
    key = (tuple(tuple(sorted(s.items())) for s in segs), cpus, tps)
    if key in _probe_cache:
        return _probe_cache[key]
    p = Pipeline('probe', Priority.BATCH_PIPELINE)
    op = p.new_operator()
    for s in segs:
        op.add_segment(Segment(**s))
    a = Assignment([op], cpus, float('inf'), Priority.BATCH_PIPELINE, 0, 'probe')
    saved = Container.next_container_num
    c = Container(a, _StubPool(), tps)
    Container.next_container_num = saved
    rec = []
    orig = c.set_current_memory_usage

    def recorder(m):
        rec.append(m)
        orig(m)
    c.set_current_memory_usage = recorder
    script = []
    while not c.is_completed():
        del rec[:]
        before = c.get_current_memory_usage()
        try:
            c.tick()
        except Exception as e:      # the operator cannot even run alone: remember why, keep what was observed
            PROBE_ERRORS[key] = f'{type(e).__name__}: {e}'[:160]
            break
        # the demand of the tick is the first value the container sets in it (a completing container sets a
        # second one, 0.0, when it marks itself completed); a tick without any update keeps the old value
        script.append(rec[0] if rec else before)
        if len(script) > 10 ** 6:
            raise RuntimeError('probe does not terminate')
    _probe_cache[key] = script
    return script


class ExecRun:
    """Executes a recipe tick by tick on the implementation; `trace` is a list of per-tick dicts."""

    def __init__(self, recipe):
        self.r = recipe
        self.w = World(recipe['pipes'], recipe['segs'])
        self.base = Container.next_container_num
        self.ex = Executor(num_pools=recipe['npools'], cpus_per_pool=recipe['cpu'],
                           ram_gb_per_pool=num(recipe['ram']), ticks_per_second=recipe['tps'],
                           allow_memory_overcommit=bool(recipe['over']),
                           multi_operator_containers=bool(recipe['multi']))
        self.trace = []
        self.used = {}        # (op gid, cpus) -> script
        self.info = {}        # cid -> dict(cpu, ram, ops, full script, pool, age, born)
        self.next_cid = 0

    def cid(self, c):
        return int(c.container_id[1:]) - self.base

    def snap_container(self, c):
        return dict(cid=self.cid(c), cpu=c.assignment.cpu, ram=c.assignment.ram, mem=c.get_current_memory_usage(),
                    can_suspend=bool(c.can_suspend_container()), opidx=c._current_op_idx, ticks=c.ticks_elapsed(),
                    left=c._suspend_ticks_left, ops=[self.w.gid[o] for o in c.operators],
                    prio=PRIO_VAL[c.priority], completed=c.is_completed())

    def snapshot(self):
        pools = []
        for p in self.ex.pools:
            pools.append(dict(avail_cpu=p.avail_cpu_pool, avail_ram=p.avail_ram_pool, consumed=p.consumed_ram_gb,
                              max_cpu=p.max_cpu_pool, max_ram=p.max_ram_pool,
                              active=[self.snap_container(c) for c in p.active_containers],
                              suspending=[self.snap_container(c) for c in p.suspending_containers],
                              suspended=[self.cid(c) for c in p.suspended_containers],
                              num_completed=p.num_completed, tick_times=list(p.container_tick_times)))
        return pools

    def step(self, tick):
        """tick: dict(susp=[(cid, pool)], asg=[(ops, cpu, ram, prio, pool)]). Returns the trace entry."""
        ent = dict(cmd=tick, err=0, pre_states=None)
        if self.r.get('peek'):
            # what every scheduler does before deciding: list the assignable operators of every pipeline, with and
            # without the parents filter. These are queries: they must not change what the executor does next.
            from eudoxia.workload.runtime_status import ASSIGNABLE_STATES
            for p in self.w.pipes:
                p.to_dict()
                p.runtime_status().get_ops(ASSIGNABLE_STATES, require_parents_complete=False)
                p.runtime_status().get_ops(ASSIGNABLE_STATES, require_parents_complete=True)
        try:
            asgs = []
            for a in tick['asg']:
                (ops, cpu, ram, prio, pool) = a[:5]
                for o in ops:
                    if 0 <= o < len(self.w.ops) and cpu >= 1:
                        segs = self.w.segs_of(o)
                        self.used[(o, cpu)] = probe_script(segs, cpu, self.r['tps'])
                # optional 6th element: [container number or None, is_resume, force_run] - the informational
                # fields of an Assignment, which the executor must ignore (the model does not receive them)
                deco = a[5] if len(a) > 5 and a[5] else [None, False, False]
                asgs.append(Assignment([self.w.ops[o] for o in ops], cpu, num(ram), PRIO[prio], pool,
                                       self.w.ops[ops[0]].pipeline.pipeline_id if ops else 'none',
                                       container_id=None if deco[0] is None else f'c{self.base + deco[0]}',
                                       is_resume=bool(deco[1]), force_run=bool(deco[2])))
            ent['pre_states'] = self.w.states()
            sus = [Suspend(f'c{self.base + cid}', pool) for (cid, pool) in tick['susp']]
            prev = self.trace[-1]['pools'] if self.trace and not self.trace[-1]['err'] else []
            prev_active = [c['cid'] for p in prev for c in p['active']]
            ent['pre_pools'] = prev
            results = self.ex.run_one_tick(sus, asgs)
            # containers created by this tick's batch: pools in order, assignments in order
            new = []
            for pid in range(self.r['npools']):
                for a in tick['asg']:
                    (ops, cpu, ram, prio, pool) = a[:5]
                    if pool == pid:
                        full = [m for o in ops for m in self.used[(o, cpu)]]
                        self.info[self.next_cid] = dict(cpu=cpu, ram=ram, ops=list(ops), full=full, pool=pid, age=0,
                                                        born=len(self.trace), prio=prio)
                        new.append(self.next_cid)
                        self.next_cid += 1
            suspended_now = {cid for (cid, _) in tick['susp']}
            ent['new'] = new
            ent['demand'] = {}
            ent['age'] = {}
            for cid in [c for c in prev_active if c not in suspended_now] + new:
                inf = self.info[cid]
                inf['age'] += 1
                ent['age'][cid] = inf['age']
                ent['demand'][cid] = inf['full'][inf['age'] - 1] if inf['age'] - 1 < len(inf['full']) else None
            ent['results'] = [dict(cid=int(r.container_id[1:]) - self.base, ops=[self.w.gid[o] for o in r.ops],
                                   cpu=r.cpu, ram=r.ram, prio=PRIO_VAL[r.priority], pool=r.pool_id,
                                   err=1 if r.failed() else 0) for r in results]
            ent['pools'] = self.snapshot()
            ent['states'] = self.w.states()
            ent['counts'] = [[p.runtime_status().state_counts[s] for s in OST] for p in self.w.pipes]
        except Exception as e:  # noqa
            ent['err'] = err_code(e)
            ent['exc'] = f'{type(e).__name__}: {e}'[:200]
            ent['states'] = self.w.states()
            ent['counts'] = [[p.runtime_status().state_counts[s] for s in OST] for p in self.w.pipes]
            ent['pre_pools'] = self.trace[-1]['pools'] if self.trace else None
            try:
                ent['pools_after_err'] = self.snapshot()
            except Exception:
                ent['pools_after_err'] = None
        self.trace.append(ent)
        return ent


def run_recipe(recipe):
    run = ExecRun(recipe)
    for t in recipe['ticks']:
        ent = run.step(t)
        if ent['err']:
            break
    return run


# ------------------------------------------------------------------------------------------------
# encoding for the model

def dump_trace(run, mask):
    out = []
    for ent in run.trace:
        if ent['err']:
            out.append(ent['err'])
            break
        out.append(0)
        for p in ent['pools']:
            if mask & M_RES:
                out += [p['avail_cpu']] + Q(p['avail_ram'])
                out += enc_list(p['active'], lambda c: [c['cid'], c['cpu']] + Q(c['ram']))
                out += enc_list(p['suspending'], lambda c: [c['cid'], c['cpu']] + Q(c['ram']))
            if mask & M_MEM:
                out += Q(p['consumed']) + enc_list(p['active'], lambda c: [c['cid']] + Q(c['mem']))
            if mask & M_LISTS:
                out += enc_list(p['active'], lambda c: [c['cid'], int(c['can_suspend']), c['opidx'], c['ticks']])
                out += enc_list(p['suspending'], lambda c: [c['cid'], c['left']])
                out += enc_list(p['suspended'])
                out += [p['num_completed']] + enc_list(p['tick_times'])
        if mask & M_RESULTS:
            out += enc_list(ent['results'], lambda r: [r['cid']] + enc_list(r['ops']) + [r['cpu']] + Q(r['ram'])
                            + [r['prio'], r['pool'], r['err']])
        if mask & M_STATES:
            out += enc_list(ent['states'])
        if mask & M_COUNTS:
            for c in ent['counts']:
                out += c
    return out


def encode_recipe(recipe, run, mask):
    r = recipe
    scripts, idx, entries = [], {}, []
    for (op, cpus), sc in sorted(run.used.items()):
        key = tuple(sc)
        if key not in idx:
            idx[key] = len(scripts)
            scripts.append(sc)
        entries.append((op, cpus, idx[key]))
    inp = [r['tps'], int(bool(r['over'])), int(bool(r['multi'])), r['npools'], r['cpu']] + Q(r['ram'])
    inp += enc_pipes(r['pipes'])
    inp += enc_list(scripts, lambda s: enc_list(s, Q))
    inp += enc_list(entries, lambda e: list(e))
    inp += [mask]
    inp += enc_list(r['ticks'][:len(run.trace)],
                    lambda t: enc_list(t['susp'], lambda s: list(s))
                    + enc_list(t['asg'], lambda a: enc_list(a[0]) + [a[1]] + Q(a[2]) + [a[3], a[4]]))
    return inp


def make_case(recipe, run, mask, gen=None):
    return dict(kind=KIND_EXEC, inp=encode_recipe(recipe, run, mask), obs=dump_trace(run, mask),
                recipe=recipe, gen=gen or recipe.get('gen'))


# ------------------------------------------------------------------------------------------------
# G-exec: state-aware command fuzzer

def gen_segments(rng, tps, cap, big=False):
    """1-3 segments with tick counts of 0..6 each, sizes derived from the tick rate; peak demand kept
    below `cap` most of the time (so that most containers can succeed)"""
    segs = []
    for _ in range(rng.choice([1, 1, 1, 2, 3])):
        io_t = rng.choice([0, 0, 1, 1, 2, 3, 5])
        cpu_t = rng.choice([0, 1, 1, 2, 3, 4])
        frac = rng.choice([0, 0, 0.25, 0.5, 0.9])
        read = (io_t + frac) * 20.0 / tps
        if big:
            read = max(read, rng.choice([1, 2, 4, 8]) * 1.0)
        cpu_secs = (cpu_t + rng.choice([0, 0.1, 0.5])) / tps * rng.choice([1, 1, 2, 3])
        s = dict(baseline_cpu_seconds=float(cpu_secs), cpu_scaling=rng.choice(LAWS), storage_read_gb=float(read))
        if rng.random() < 0.3 or (read > cap and rng.random() < 0.9):
            s['memory_gb'] = float(rng.choice([m for m in [0, 0.25, 0.5, 1, 2, 3, 8] if m <= cap] or [0.25]))
        segs.append(s)
    return segs


def gen_config(rng, overcommit=None):
    tps = rng.choice([1, 2, 4, 10, 16, 100])
    over = rng.random() < 0.5 if overcommit is None else overcommit
    multi = rng.random() < 0.75
    ram = rng.choice([1, 4, 16, 64, 100, 256]) if not over else rng.choice([4, 8, 16, 32])
    pipes, segs = [], []
    for _ in range(rng.randint(1, 5)):
        n = rng.randint(1, 5)
        dag = random_dag(rng, n, rng.choice([0.2, 0.5, 0.9]))
        pipes.append((rng.choice([1, 2, 3]), dag))
        segs.append([gen_segments(rng, tps, ram / 2.0, big=over and rng.random() < 0.3) for _ in range(n)])
    return dict(tps=tps, over=int(over), multi=int(multi), npools=rng.randint(1, 3), cpu=rng.choice([1, 2, 4, 8, 16]),
                ram=ram, pipes=pipes, segs=segs, ticks=[])


def peak_of(run, op, cpu):
    sc = probe_script(run.w.segs_of(op), cpu, run.r['tps'])
    return max(sc) if sc else 0.0


def dyadic_near(rng, x, lo=0.125):
    """a dyadic RAM size around x: mostly just enough, sometimes just too little"""
    k = rng.choice([-1, 1, 1, 1, 1, 2, 2, 4, 8, 16])
    v = math.floor(x * 8 + k) / 8.0
    return max(lo, v)


def gen_tick(rng, run, bad=None):
    """looks at the implementation state and emits admissible commands; `bad` (a kind name) injects
    exactly one inadmissible command"""
    w, ex, r = run.w, run.ex, run.r
    tick = dict(susp=[], asg=[])
    st = w.states()
    # suspensions
    for pi, p in enumerate(ex.pools):
        for c in p.active_containers:
            if c.can_suspend_container() and rng.random() < 0.45:
                tick['susp'].append((run.cid(c), pi))
    if bad == 'susp-mid':
        cs = [(run.cid(c), pi) for pi, p in enumerate(ex.pools) for c in p.active_containers
              if not c.can_suspend_container()]
        if cs:
            # anywhere in the batch: a batch is admissible only if every member is
            tick['susp'].insert(rng.randrange(len(tick['susp']) + 1), rng.choice(cs))
    elif bad == 'susp-dup' and tick['susp']:
        tick['susp'].append(tick['susp'][0])
    elif bad == 'susp-unknown':
        tick['susp'].insert(rng.randrange(len(tick['susp']) + 1), (rng.randrange(60), rng.randrange(r['npools'])))
    elif bad == 'susp-suspending':
        cs = [(run.cid(c), pi) for pi, p in enumerate(ex.pools) for c in p.suspending_containers]
        if cs:
            tick['susp'].insert(rng.randrange(len(tick['susp']) + 1), rng.choice(cs))
    elif bad == 'susp-suspended':
        # a stale request for a container whose write-out has FINISHED, in the same batch that re-assigns its work
        cs = [(run.cid(c), pi, c) for pi, p in enumerate(ex.pools) for c in p.suspended_containers]
        if cs:
            cid, pi, c = rng.choice(cs)
            tick['susp'].insert(rng.randrange(len(tick['susp']) + 1), (cid, pi))
            tick['_reassign'] = [w.gid[o] for o in c.operators if st[w.gid[o]] == 0]
    elif bad == 'susp-badpool':
        cs = [run.cid(c) for p in ex.pools for c in p.active_containers]
        cid = rng.choice(cs) if cs else rng.randrange(5)
        tick['susp'] = [(cid, rng.choice([-1, -r['npools'], r['npools'], r['npools'] + 2]))]
    elif bad == 'susp-wrongpool' and r['npools'] > 1:
        cs = [(run.cid(c), (pi + 1) % r['npools']) for pi, p in enumerate(ex.pools) for c in p.active_containers
              if c.can_suspend_container()]
        if cs:
            tick['susp'] = [rng.choice(cs)]
    # assignments
    taken = set()
    avail = [[p.avail_cpu_pool, p.avail_ram_pool] for p in ex.pools]
    re = tick.pop('_reassign', None)
    if re and all(st[w.gid[q]] == 4 or w.gid[q] in re for o in re for q in w.ops[o].parents):
        pool = rng.randrange(r['npools'])
        if avail[pool][0] >= 1 and (r['over'] or avail[pool][1] >= 0.25):
            ram = min(avail[pool][1], 4.0) if not r['over'] else r['ram']
            tick['asg'].append([re if r['multi'] else re[:1], 1, ram, PRIO_VAL[w.ops[re[0]].pipeline.priority], pool])
            taken.update(tick['asg'][-1][0])
            avail[pool][0] -= 1
            avail[pool][1] -= ram
    for _ in range(rng.choice([0, 1, 1, 2, 3])):
        ready = [i for i, o in enumerate(w.ops) if (st[i] == 0 or (st[i] == 5 and rng.random() < 0.4))
                 and i not in taken and all(st[w.gid[q]] == 4 for q in o.parents)]
        if not ready:
            break
        op = rng.choice(ready)
        ops = [op]
        if r['multi'] and rng.random() < 0.6:
            # extend with later operators of the same pipeline whose parents are completed or in the pack
            k = max(i for i, f in enumerate(w.first) if f <= op)
            for j in range(op + 1, w.first[k] + len(r['pipes'][k][1])):
                if st[j] in (0, 5) and j not in taken and rng.random() < 0.7 and \
                        all(st[w.gid[q]] == 4 or w.gid[q] in ops for q in w.ops[j].parents):
                    ops.append(j)
            if rng.random() < r.get('p_inflight', 0.2):
                # operators whose parents are still in flight in ANOTHER container, queued behind the pack (legal
                # at assignment time; the dependency check happens when the operator starts)
                for j in range(w.first[k], w.first[k] + len(r['pipes'][k][1])):
                    if st[j] in (0, 5) and j not in taken and j not in ops and rng.random() < 0.6 and \
                            all(st[w.gid[q]] in (1, 2, 4) or w.gid[q] in ops for q in w.ops[j].parents) and \
                            any(st[w.gid[q]] in (1, 2) for q in w.ops[j].parents):
                        ops.append(j)
            if rng.random() < 0.2:
                # a container that mixes pipelines (the executor allows it): ready operators of other pipelines
                for j in range(len(w.ops)):
                    if not (w.first[k] <= j < w.first[k] + len(r['pipes'][k][1])) and st[j] == 0 and j not in taken \
                            and j not in ops and rng.random() < 0.4 and \
                            all(st[w.gid[q]] == 4 or w.gid[q] in ops for q in w.ops[j].parents):
                        ops.append(j)
        pool = rng.randrange(r['npools'])
        acpu, aram = avail[pool]
        if acpu < 1 or (aram <= 0 and not r['over']):
            continue
        cpu = rng.randint(1, max(1, min(acpu, 4)))
        peak = max(peak_of(run, o, cpu) for o in ops)
        if r['over']:
            ram = rng.choice([r['ram'], r['ram'], dyadic_near(rng, peak), r['ram'] / 2])
        else:
            ram = dyadic_near(rng, peak) if rng.random() < 0.8 else rng.choice([0.5, 1, 2, 4])
            ram = min(ram, aram)
            if ram <= 0:
                continue
        tick['asg'].append([ops, cpu, ram, PRIO_VAL[w.ops[op].pipeline.priority], pool])
        taken.update(ops)
        avail[pool][0] -= cpu
        avail[pool][1] -= ram
    if bad and bad.startswith('asg-'):
        if not tick['asg']:
            free = [i for i in range(len(st)) if st[i] in (0, 5)]
            tick['asg'].append([[rng.choice(free)] if free else [0], 1, 1, 3, 0])
        a = tick['asg'][-1]
        pool = a[4]
        if bad in ('asg-cpu+1', 'asg-ram+') and not any(x[4] == pool for x in tick['asg'][:-1]):
            # make it a batch of two for that pool whose first member fits: a rejected batch must leave nothing
            free = [i for i, o in enumerate(w.ops) if st[i] == 0 and i not in taken
                    and all(st[w.gid[q]] == 4 for q in o.parents)]
            if free and ex.pools[pool].avail_cpu_pool >= 2 and (r['over'] or ex.pools[pool].avail_ram_pool >= 0.25):
                o = rng.choice(free)
                tick['asg'].insert(len(tick['asg']) - 1, [[o], 1, 0.125, PRIO_VAL[w.ops[o].pipeline.priority], pool])
                taken.add(o)
        if bad == 'asg-cpu+1':
            a[1] = ex.pools[pool].avail_cpu_pool - sum(x[1] for x in tick['asg'][:-1] if x[4] == pool) + 1
        elif bad == 'asg-ram+':
            a[2] = ex.pools[pool].avail_ram_pool - sum(x[2] for x in tick['asg'][:-1] if x[4] == pool) + 0.125
        elif bad == 'asg-pool':
            a[4] = rng.choice([-1, -2, -r['npools'], -r['npools'] - 1, r['npools'], r['npools'] + 3])
        elif bad == 'asg-empty':
            a[0] = []
        elif bad == 'asg-cpu0':
            a[1] = rng.choice([0, -1])
        elif bad == 'asg-ram0':
            a[2] = 0
        elif bad == 'asg-dup-op':
            a[0] = a[0] + [rng.choice(a[0])]          # one request naming an operator twice
        elif bad == 'asg-busy':
            done = [i for i in range(len(st)) if st[i] in (1, 2, 3, 4)]
            if done:
                a[0] = a[0] + [rng.choice(done)]
        elif bad == 'asg-parent':
            blocked = [i for i, o in enumerate(w.ops) if st[i] == 0 and i not in taken
                       and any(st[w.gid[q]] != 4 for q in o.parents)]
            if blocked:
                a[0] = [rng.choice(blocked)]
        elif bad == 'asg-order':
            a[0] = list(reversed(a[0]))
        elif bad == 'asg-early-reuse':
            # an assignment that fits only if the allocation of a container whose write-out ENDS in this tick (or
            # that is suspended in this very tick for a single tick) were already free: it must be refused
            cands = []
            for pi, p in enumerate(ex.pools):
                for c in p.suspending_containers:
                    if c._suspend_ticks_left == 1:
                        cands.append((pi, c.assignment.cpu, c.assignment.ram))
                for (cid, ppi) in tick['susp']:
                    if ppi == pi:
                        c = next((x for x in p.active_containers if run.cid(x) == cid), None)
                        if c is not None and max(1, int((c.assignment.ram / 20.0) / (1.0 / r['tps']))) == 1:
                            cands.append((pi, c.assignment.cpu, c.assignment.ram))
            if cands:
                pi, vcpu, vram = rng.choice(cands)
                others = [x for x in tick['asg'][:-1] if x[4] == pi]
                fc = ex.pools[pi].avail_cpu_pool - sum(x[1] for x in others)
                fr = ex.pools[pi].avail_ram_pool - sum(x[2] for x in others)
                a[4] = pi
                if rng.random() < 0.5 or r['over']:
                    a[1] = fc + rng.randint(1, max(1, vcpu))
                    a[2] = min(a[2], max(0.125, fr)) if not r['over'] else a[2]
                else:
                    a[1] = max(1, min(a[1], fc)) if fc >= 1 else 1
                    a[2] = fr + rng.choice([0.125, vram / 2.0, vram])
                if a[1] < 1:
                    a[1] = 1
        elif bad == 'asg-resume-suspending':
            # a "resume" of a container whose write-out is still in flight: its remaining operators are SUSPENDING and
            # still belong to it, so the claim must be refused whatever the informational fields say
            cands = [(pi, c) for pi, p in enumerate(ex.pools) for c in p.suspending_containers]
            if cands:
                pi, c = rng.choice(cands)
                rest = [w.gid[o] for o in c.operators if st[w.gid[o]] == 3]
                if rest:
                    a[0] = rest
                    a[4] = pi if rng.random() < 0.7 else a[4]
                    a[3] = PRIO_VAL[c.priority]
                    if len(a) == 5:
                        a.append([run.cid(c), True, rng.random() < 0.3])
        elif bad == 'asg-two' and not r['multi']:
            free = [i for i in range(len(st)) if st[i] in (0, 5) and i not in taken]
            if free:
                a[0] = a[0] + [rng.choice(free)]
    if bad and bad.startswith('asg-') and len(tick['asg']) > 1 and rng.random() < 0.5:
        rng.shuffle(tick['asg'])          # the inadmissible member anywhere in the batch
    # informational Assignment fields (container_id of an earlier container, is_resume, force_run)
    if run.next_cid and rng.random() < 0.35:
        for a in tick['asg']:
            if len(a) == 5 and rng.random() < 0.6:
                ended = [cid for p in ex.pools for c in p.suspended_containers for cid in [run.cid(c)]]
                known = ended if ended and rng.random() < 0.7 else list(range(run.next_cid))
                a.append([rng.choice(known) if rng.random() < 0.85 else None, rng.random() < 0.8, rng.random() < 0.3])
    tick['asg'] = [tuple(a) for a in tick['asg']]
    return tick


BAD_KINDS = ['susp-mid', 'susp-dup', 'susp-unknown', 'susp-suspending', 'susp-suspended', 'susp-wrongpool', 'susp-badpool', 'asg-cpu+1', 'asg-ram+',
             'asg-pool', 'asg-empty', 'asg-cpu0', 'asg-ram0', 'asg-busy', 'asg-parent', 'asg-order', 'asg-two',
             'asg-early-reuse', 'asg-dup-op', 'asg-resume-suspending']


def gen_history(rng, gen='G-exec', overcommit=None, max_ticks=None, p_bad=0.3, bad_kinds=None, bad_early=False,
                p_inflight=None, huge=False):
    cfg = gen_config(rng, overcommit)
    cfg['gen'] = gen
    if huge:
        # pools so large that an excess of one CPU or 1/8 GB is below 1e-9 of the free amount (all of it exact in
        # float and in the model): "fits" is <=, not approximately <=
        cfg['over'] = 0
        if rng.random() < 0.5:
            cfg['ram'] = 2 ** rng.choice([31, 33, 36])
        else:
            cfg['cpu'] = 2 ** 31          # (its square still fits the int64 of the numpy scaling laws)
    if rng.random() < 0.3:
        cfg['peek'] = 1
    if p_inflight is not None:
        cfg['p_inflight'] = p_inflight
        cfg['multi'] = 1
    run = ExecRun(cfg)
    n = max_ticks or rng.randint(15, 70)
    bad_at = (rng.randrange(0, 6) if bad_early else rng.randrange(3, n)) if rng.random() < p_bad else None
    bad_kind = rng.choice(bad_kinds or BAD_KINDS)
    idle = 0
    for i in range(n):
        if bad_at is not None and bad_kind == 'asg-early-reuse' and i < bad_at and \
                any(c._suspend_ticks_left == 1 for p in run.ex.pools for c in p.suspending_containers):
            bad_at = i            # a write-out ends in this tick
        if bad_at is not None and bad_kind == 'susp-suspended' and i < bad_at and rng.random() < 0.5 and \
                any(any(st_ == 0 for st_ in [run.w.states()[run.w.gid[o]] for o in c.operators])
                    for p in run.ex.pools for c in p.suspended_containers):
            bad_at = i            # suspended work is waiting to be re-assigned
        if bad_at is not None and bad_kind in ('susp-suspending', 'asg-resume-suspending') and i < bad_at and \
                rng.random() < 0.5 and any(p.suspending_containers for p in run.ex.pools):
            bad_at = i            # a write-out is in progress now: ask for that container's suspension
        if bad_at == i and bad_kind == 'asg-resume-suspending' and i < n - 1 and \
                not any(p.suspending_containers for p in run.ex.pools):
            bad_at = i + 1        # wait for a write-out to be in flight
        t = gen_tick(rng, run, bad_kind if i == bad_at else None)
        cfg['ticks'].append(t)
        ent = run.step(t)
        if ent['err']:
            break
        busy = any(p['active'] or p['suspending'] for p in ent['pools'])
        idle = 0 if (busy or t['asg']) else idle + 1
        if idle > 3 and (bad_at is None or i > bad_at):
            break
    cfg['bad'] = bad_kind if bad_at is not None else None
    return cfg, run


def gen_twins(rng, gen='G-exec-twins', odd=False):
    """several identical multi-operator containers started in the same tick on one pool, so that they reach
    operator boundaries together, are suspended in the same tick and finish suspending in the same tick.
    odd=True adds one container with longer operators (so it is in the middle of an operator when the twins are
    at a boundary) and once asks for its suspension inside the batch of admissible ones, at a random position"""
    tps = rng.choice([1, 2, 4, 10])
    n = rng.randint(2, 4)
    nops = rng.randint(2, 3)
    lens = [rng.randint(1, 3) for _ in range(nops)]
    ram = rng.choice([1, 2, 8, 20, 40])
    pipes = [(3, [[j - 1] if j else [] for j in range(nops)]) for _ in range(n)]
    segs = [[[dict(baseline_cpu_seconds=float(L) / tps, cpu_scaling='const', storage_read_gb=0.0, memory_gb=0.5)]
             for L in lens] for _ in range(n)]
    if odd:
        pipes.append((3, [[j - 1] if j else [] for j in range(nops)]))
        segs.append([[dict(baseline_cpu_seconds=float(L + 2 + 3 * j) / tps, cpu_scaling='const', storage_read_gb=0.0,
                           memory_gb=0.5)] for j, L in enumerate(lens)])
    cfg = dict(gen=gen, tps=tps, over=0, multi=1, npools=rng.choice([1, 2]), cpu=16, ram=256, pipes=pipes, segs=segs,
               ticks=[], bad=None)
    run = ExecRun(cfg)
    t0 = dict(susp=[], asg=[(list(range(k * nops, (k + 1) * nops)), 1, ram, 3, 0) for k in range(n + int(odd))])
    cfg['ticks'].append(t0)
    run.step(t0)
    for i in range(1, 60):
        t = dict(susp=[], asg=[])
        for pi, p in enumerate(run.ex.pools):
            cs = [c for c in p.active_containers if c.can_suspend_container()]
            if cs and rng.random() < 0.7:
                t['susp'] += [(run.cid(c), pi) for c in cs]
                mid = [c for c in p.active_containers if not c.can_suspend_container()]
                if odd and mid and cfg['bad'] is None and rng.random() < 0.7:
                    t['susp'].insert(rng.randrange(len(t['susp']) + 1), (run.cid(rng.choice(mid)), pi))
                    cfg['bad'] = 'susp-mid'
        st = run.w.states()
        if rng.random() < 0.3:
            for k in range(n):
                ops = [o for o in range(k * nops, (k + 1) * nops) if st[o] == 0]
                busy = any(st[o] in (1, 2, 3) for o in range(k * nops, (k + 1) * nops))
                if ops and not busy and len(ops) < nops:
                    t['asg'].append((ops, 1, ram, 3, 0))
        cfg['ticks'].append(t)
        ent = run.step(t)
        if ent['err'] or all(x in (4, 5) for x in run.w.states()):
            break
    return cfg, run


def gen_over_susp(rng, gen='G-exec-over-susp'):
    """overcommitted pool in which a write-out is in flight while the running containers come close to the capacity:
    container S (two operators, the first holding a fixed amount) is suspended at its operator boundary with a large
    allocation (a write-out of many ticks); containers R grow meanwhile to a total that fits the pool on its own but
    not together with what S held when it was suspended. Sometimes the running total does cross the capacity (a
    justified kill), mostly it stays just below"""
    tps = rng.choice([2, 10])
    cap = rng.choice([40, 100, 200])
    pipes, segs = [], []

    def seg(t, m):
        return dict(baseline_cpu_seconds=float(t) / tps, cpu_scaling='const', storage_read_gb=0.0, memory_gb=float(m))
    ms = cap * rng.choice([0.3, 0.4, 0.5])
    t1 = rng.randint(1, 4)
    pipes.append((3, [[], [0]]))
    segs.append([[seg(t1, ms)], [seg(rng.randint(2, 6), 1)]])
    nr = rng.randint(1, 3)
    total_hi = cap * rng.choice([0.7, 0.8, 0.9, 0.95, 1.0, 1.0, 1.1])
    for k in range(nr):
        hi = total_hi / nr
        pipes.append((rng.choice([1, 2, 3]), [[]]))
        segs.append([[seg(t1 + rng.randint(1, 3), 1), seg(rng.randint(8, 30), hi), seg(rng.randint(1, 4), 1)]])
    cfg = dict(gen=gen, tps=tps, over=1, multi=1, npools=1, cpu=16, ram=cap, pipes=pipes, segs=segs, ticks=[], bad=None)
    run = ExecRun(cfg)
    first = run.w.first
    alloc_s = cap * rng.choice([0.6, 0.8, 1.0])
    t0 = dict(susp=[], asg=[([0, 1], 1, alloc_s, 3, 0)] +
              [([first[k]], 1, rng.choice([cap, cap * 0.8, max(total_hi / nr, cap * 0.5)]), pipes[k][0], 0)
               for k in range(1, nr + 1)])
    cfg['ticks'].append(t0)
    run.step(t0)
    done = False
    for _ in range(70):
        t = dict(susp=[], asg=[])
        if not done:
            for c in run.ex.pools[0].active_containers:
                if run.cid(c) == 0 and c.can_suspend_container():
                    t['susp'].append((0, 0))
                    done = True
        cfg['ticks'].append(t)
        ent = run.step(t)
        if ent['err'] or not (ent['pools'][0]['active'] or ent['pools'][0]['suspending']):
            break
    return cfg, run


def gen_decimal_fill(rng, gen='G-exec-decimal-fill'):
    """one pool whose free RAM is handed out in one batch of 2-4 assignments with DECIMAL sizes (one decimal place) that
    add up to the pool exactly in decimal arithmetic; their float sum may differ from the float capacity in the last
    place, so the batch is accepted or refused as the code's own comparison says, and an ACCEPTED batch must create one
    container per assignment. Outside the model's domain (non-dyadic RAM): monitor only."""
    tps = rng.choice([1, 10])
    cap = rng.choice([4, 8, 10, 16])
    k = rng.randint(2, 4)
    tenths = cap * 10
    cuts = sorted(rng.sample(range(1, tenths), k - 1))
    parts = [b - a for a, b in zip([0] + cuts, cuts + [tenths])]
    rams = [p_ / 10.0 for p_ in parts]
    pipes = [(rng.choice([1, 2, 3]), [[]]) for _ in range(k)]
    segs = [[[dict(baseline_cpu_seconds=float(rng.randint(1, 4)) / tps, cpu_scaling='const', storage_read_gb=0.0,
                   memory_gb=0.0625)]] for _ in range(k)]
    cfg = dict(gen=gen, tps=tps, over=0, multi=1, npools=1, cpu=16, ram=cap, pipes=pipes, segs=segs, ticks=[], bad=None)
    run = ExecRun(cfg)
    t0 = dict(susp=[], asg=[([j], 1, rams[j], pipes[j][0], 0) for j in range(k)])
    cfg['ticks'].append(t0)
    ent = run.step(t0)
    for _ in range(8):
        if ent['err']:
            break
        t = dict(susp=[], asg=[])
        cfg['ticks'].append(t)
        ent = run.step(t)
    return cfg, run


def gen_burst(rng, gen='G-exec-burst'):
    """overcommitted pool, 3-8 containers started together whose demand jumps in the same tick to different
    levels (and different allocations), so that the pool-level killer needs several victims among many
    candidates; some containers also exceed their own limit in that tick, some finish in it, ties included"""
    tps = rng.choice([1, 2, 10])
    n = rng.randint(3, 8)
    cap = rng.choice([8, 16, 32])
    levels = [rng.choice([0.5, 1, 2, 3, 4, 5, 6, 8]) * cap / 8.0 for _ in range(n)]
    if rng.random() < 0.4:
        levels[rng.randrange(n)] = levels[rng.randrange(n)]         # a tie
    pre = rng.randint(1, 3)
    # sometimes all containers belong to ONE pipeline with n independent operators (as under overbook), several of
    # them with bit-identical usage and allocation: exact score ties inside a pipeline
    one_pipe = rng.random() < 0.4
    if one_pipe:
        k0 = rng.randrange(n)
        for j in rng.sample(range(n), min(n, rng.randint(2, 4))):
            levels[j] = levels[k0]
    pipes = [(rng.choice([1, 2, 3]), [[]]) for _ in range(n)]
    segs = []
    for m in levels:
        post = rng.choice([0, 1, 2, 4])
        sg = [dict(baseline_cpu_seconds=float(pre) / tps, cpu_scaling='const', storage_read_gb=0.0,
                   memory_gb=float(rng.choice([0, 0.25, 0.5])))]
        sg.append(dict(baseline_cpu_seconds=float(max(1, post)) / tps, cpu_scaling='const', storage_read_gb=0.0,
                       memory_gb=float(m)))
        segs.append([sg])
    if one_pipe:
        post = rng.choice([1, 2, 4])
        segs = [[[dict(sg[0]), dict(sg[1], baseline_cpu_seconds=float(post) / tps)] for (sg,) in segs]]
        pipes = [(pipes[0][0], [[] for _ in range(n)])]
    cfg = dict(gen=gen, tps=tps, over=1, multi=rng.choice([0, 1]), npools=rng.choice([1, 1, 2]), cpu=16, ram=cap,
               pipes=pipes, segs=segs, ticks=[], bad=None)
    run = ExecRun(cfg)
    allocs = [rng.choice([cap, cap, cap / 2.0, levels[k], max(0.5, levels[k] - 0.5)]) for k in range(n)]
    if one_pipe:
        allocs = [cap] * n
    t0 = dict(susp=[], asg=[([k], 1, allocs[k], pipes[0 if one_pipe else k][0],
                             rng.randrange(cfg['npools']) if (rng.random() < 0.2 and not one_pipe) else 0)
                            for k in range(n)])
    cfg['ticks'].append(t0)
    run.step(t0)
    for _ in range(pre + 8):
        t = dict(susp=[], asg=[])
        cfg['ticks'].append(t)
        ent = run.step(t)
        if ent['err'] or not any(p['active'] for p in ent['pools']):
            break
    return cfg, run


def gen_overlap(rng, gen='G-exec-overlap'):
    """suspensions that overlap in time: one pipeline made of 2-3 independent chains, each chain in its own
    container (so several containers of the SAME pipeline are live), optionally one container mixing a chain of
    a second pipeline with a chain of the first; different allocations, so that the write-outs started in the
    same or neighbouring ticks end in different ticks; what comes back is re-assigned"""
    tps = rng.choice([1, 2, 4, 10])
    nch = rng.randint(2, 3)
    clen = rng.randint(2, 3)
    # pipeline 0: nch independent chains, operator index = chain * clen + position
    dag0 = [[c * clen + j - 1] if j else [] for c in range(nch) for j in range(clen)]
    pipes = [(rng.choice([1, 2, 3]), dag0)]
    mixed = rng.random() < 0.5
    if mixed:
        pipes.append((rng.choice([1, 2, 3]), [[j - 1] if j else [] for j in range(clen)]))
    mk = lambda: [dict(baseline_cpu_seconds=float(rng.randint(1, 3)) / tps, cpu_scaling='const', storage_read_gb=0.0,
                       memory_gb=0.5)]
    segs = [[mk() for _ in range(len(d))] for (_, d) in pipes]
    cfg = dict(gen=gen, tps=tps, over=0, multi=1, npools=rng.choice([1, 2]), cpu=16, ram=512, pipes=pipes, segs=segs,
               ticks=[], bad=None)
    run = ExecRun(cfg)
    rams = rng.sample([1, 20, 40, 60, 100, 20.0 / tps, 40.0 / tps, 80.0 / tps], nch)
    groups = [list(range(c * clen, (c + 1) * clen)) for c in range(nch)]
    if mixed:
        base = nch * clen
        groups[0] = groups[0] + list(range(base, base + clen)) if rng.random() < 0.5 else \
            [x for pr in zip(groups[0], range(base, base + clen)) for x in pr]
    t0 = dict(susp=[], asg=[(g, 1, rams[c], pipes[0][0], rng.randrange(cfg['npools'])) for c, g in enumerate(groups)])
    cfg['ticks'].append(t0)
    run.step(t0)
    for i in range(1, 80):
        t = dict(susp=[], asg=[])
        for pi, p in enumerate(run.ex.pools):
            for c in p.active_containers:
                if c.can_suspend_container() and rng.random() < 0.6:
                    t['susp'].append((run.cid(c), pi))
        st = run.w.states()
        if rng.random() < 0.4:
            for g in groups:
                ops = [o for o in g if st[o] == 0]
                if ops and not any(st[o] in (1, 2, 3) for o in g) and \
                        all(st[run.w.gid[q]] == 4 or run.w.gid[q] in ops for o in ops for q in run.w.ops[o].parents):
                    t['asg'].append((ops, 1, rng.choice(rams), pipes[0][0], rng.randrange(cfg['npools'])))
        cfg['ticks'].append(t)
        ent = run.step(t)
        if ent['err'] or all(x in (4, 5) for x in run.w.states()):
            break
    return cfg, run


def gen_waves(rng, gen='G-exec-waves'):
    """overcommitted pool; containers whose demand goes high - low - high again (three segments, or operators with
    different footprints), started together with different phase lengths: the pool total can cross the capacity in
    a tick in which no container exceeds a level it has reached before"""
    tps = rng.choice([1, 2, 10])
    n = rng.randint(2, 4)
    cap = rng.choice([8, 16, 32])
    pipes, segs = [], []

    def seg(t, m):
        return dict(baseline_cpu_seconds=float(t) / tps, cpu_scaling='const', storage_read_gb=0.0, memory_gb=float(m))
    staggered = rng.random() < 0.6
    for k in range(n):
        hi = rng.choice([3, 4, 5, 6] if not staggered else [5, 6, 6]) * cap / 8.0
        lo = rng.choice([0, 0.25, 0.5])
        a, b, c = rng.randint(1, 4), rng.randint(1, 6), rng.randint(2, 6)
        parts = [(a, hi), (b, lo), (c, hi)]
        if staggered:
            # first highs one after the other (each container alone at its level), second highs together: the total
            # crosses the capacity while every container is at a level it has already visited
            parts = ([(2 * k, lo)] if k else []) + [(2, hi), (2 * n - 2 * k - 1, lo), (c, hi)]
        if rng.random() < 0.5:
            pipes.append((rng.choice([1, 2, 3]), [[]]))
            segs.append([[seg(t, m) for t, m in parts]])
        else:
            pipes.append((rng.choice([1, 2, 3]), [[j - 1] if j else [] for j in range(len(parts))]))
            segs.append([[seg(t, m)] for t, m in parts])
    cfg = dict(gen=gen, tps=tps, over=1, multi=1, npools=1, cpu=16, ram=cap, pipes=pipes, segs=segs, ticks=[], bad=None)
    run = ExecRun(cfg)
    first = run.w.first
    t0 = dict(susp=[], asg=[(list(range(first[k], first[k] + len(pipes[k][1]))), 1, rng.choice([cap, cap, cap / 2.0 + 4]),
                             pipes[k][0], 0) for k in range(n)])
    cfg['ticks'].append(t0)
    run.step(t0)
    for _ in range(24):
        t = dict(susp=[], asg=[])
        cfg['ticks'].append(t)
        ent = run.step(t)
        if ent['err'] or not any(p['active'] for p in ent['pools']):
            break
    return cfg, run
