"""Helpers that drive the real eudoxia classes (imported from /repo via PYTHONPATH) and canonicalise
what they do into the integer wire format shared with the Coq model (coq/Model/Codec.v)."""
import logging
from fractions import Fraction

logging.disable(logging.CRITICAL)

from eudoxia.workload.pipeline import Pipeline, Operator, Segment          # noqa: E402
from eudoxia.workload.runtime_status import OperatorState, ASSIGNABLE_STATES  # noqa: E402
from eudoxia.utils import Priority                                          # noqa: E402

OST = [OperatorState.PENDING, OperatorState.ASSIGNED, OperatorState.RUNNING,
       OperatorState.SUSPENDING, OperatorState.COMPLETED, OperatorState.FAILED]
OST_IDX = {s: i for i, s in enumerate(OST)}
PRIO = {1: Priority.QUERY, 2: Priority.INTERACTIVE, 3: Priority.BATCH_PIPELINE}
PRIO_VAL = {v: k for k, v in PRIO.items()}

E_DEP, E_TRANS, E_CPU, E_RAM, E_SUSP, E_OPCOUNT, E_ARGS, E_POOL, E_STOP, E_SCHED, E_OTHER = range(1, 12)


def err_code(exc):
    """Class of a Python exception, as in Model/Types.v [err_code]."""
    msg = str(exc)
    if isinstance(exc, StopIteration):
        return E_STOP
    if isinstance(exc, AssertionError):
        if 'Dependencies not satisfied' in msg:
            return E_DEP
        if 'Cannot transition' in msg:
            return E_TRANS
        if 'Overallocated CPU' in msg:
            return E_CPU
        if 'Overallocated RAM' in msg:
            return E_RAM
        if 'cannot be suspended' in msg:
            return E_SUSP
        if 'Assignment must have' in msg:
            return E_OPCOUNT
        if 'assignments cannot have zero' in msg or 'must assign positive' in msg:
            return E_ARGS
        if 'Unknown pool' in msg:
            return E_POOL
        return E_SCHED
    if isinstance(exc, AttributeError) and 'NoneType' in msg and \
            ('can_suspend_container' in msg or 'suspend_container' in msg):
        return E_SUSP
    return E_OTHER


def Q(x):
    """exact rational of a Python number, as [num, den]"""
    try:
        f = Fraction(x)
    except (TypeError, ValueError, OverflowError):
        # None, NaN, infinity, text: a value the implementation should never have produced here. The markers are not
        # integers, so check.evaluate_cases counts the case as a mismatch of its own (outside the model's domain)
        return [f'not-a-number:{x!r}'[:40], 1]
    return [f.numerator, f.denominator]


def enc_list(items, f=lambda x: [x]):
    out = [len(items)]
    for it in items:
        out.extend(f(it))
    return out


def enc_dag(dag):
    return enc_list(dag, lambda ps: enc_list(ps))


def enc_pipes(pipes):
    """pipes: list of (prio_val, dag)"""
    return enc_list(pipes, lambda pg: [pg[0]] + enc_dag(pg[1]))


CALLABLE_LAWS = False     # C07 variant: every scaling law handed over as an (anonymous) callable instead of its name


def as_callable(seg):
    """the same segment with its scaling law wrapped in a fresh closure (all of them are called '<lambda>'); a
    Segment must behave exactly as with the named law"""
    law = Segment.SCALING_FUNCS[seg.get('cpu_scaling', 'const')]
    return dict(seg, cpu_scaling=(lambda f: (lambda n, secs: f(n, secs)))(law))


class World:
    """A set of real Pipeline objects with the model's global operator numbering
    (pipeline k's operator with insertion index i has id first_k + i)."""

    def __init__(self, pipes, segs=None):
        self.pipes = []          # Pipeline objects
        self.ops = []            # global id -> Operator
        self.first = []
        self.gid = {}            # Operator -> global id
        self._segs = segs
        style = (len(pipes) + sum(len(ps) for _, d in pipes for ps in d)) % 3
        scratch = []
        for k, (prio, dag) in enumerate(pipes):
            p = Pipeline(f'p{k + 1}', PRIO[prio])
            self.first.append(len(self.ops))
            local = []
            for i, parents in enumerate(dag):
                # the parents are handed over as a list, a one-shot generator or a tuple (chosen by the shape of the
                # workload, so that a replay builds it the same way): add_node must not care
                if not parents:
                    pl = None
                elif style == 1:
                    pl = (local[j] for j in parents)
                elif style == 2:
                    pl = tuple(local[j] for j in parents)
                else:
                    # ... nor keep the caller's list: the same scratch list is refilled for every operator and
                    # emptied at the end
                    scratch[:] = [local[j] for j in parents]
                    pl = scratch
                op = p.new_operator(pl)
                local.append(op)
                self.gid[op] = len(self.ops)
                self.ops.append(op)
                for s in (segs[k][i] if segs else [dict(baseline_cpu_seconds=1, storage_read_gb=1)]):
                    op.add_segment(Segment(**as_callable(s) if CALLABLE_LAWS else s))
            self.pipes.append(p)
        del scratch[:]

    def segs_of(self, gid):
        k = max(i for i, f in enumerate(self.first) if f <= gid)
        return self._segs[k][gid - self.first[k]]

    def states(self):
        return [OST_IDX[op.state()] for op in self.ops]

    def dump(self):
        out = enc_list(self.states())
        for p in self.pipes:
            rs = p.runtime_status()
            out += [rs.state_counts[s] for s in OST]
            out += [1 if rs.is_pipeline_successful() else 0]
            out += [1 if rs.state_counts[OperatorState.FAILED] > 0 else 0]
            g = lambda l: enc_list([self.gid[o] for o in l])
            out += g(rs.get_ops(ASSIGNABLE_STATES, require_parents_complete=False))
            out += g(rs.get_ops(ASSIGNABLE_STATES, require_parents_complete=True))
            out += g(rs.get_ops(OperatorState.PENDING, require_parents_complete=True))
            out += g(rs.get_ops([OperatorState.COMPLETED, OperatorState.FAILED]))
        return out


def all_dags(n):
    """every DAG on n nodes whose parents are earlier nodes (parent lists ascending)"""
    if n == 0:
        yield []
        return
    for g in all_dags(n - 1):
        j = n - 1
        for mask in range(1 << j):
            yield g + [[i for i in range(j) if mask >> i & 1]]


def random_dag(rng, n, p=0.4):
    return [[i for i in range(j) if rng.random() < p] for j in range(n)]
