"""Extractor items for C15 (see extract.py): the prototype ladder of
WorkloadGenerator.generate_segment_from_val, the query prototype, the clip of
generate_segment_not_heavy_io, the constant passed for the first operator, and the normalised source of
the control flow the model in coq/Model/Generator.v was transcribed from. Fail-closed."""
import ast

from harness.extract import Fail, parse, find, strip_doc, src, coq_list, num_q, qstr

WL = 'eudoxia/workload/workload.py'
SEG_KW = ['baseline_cpu_seconds', 'cpu_scaling', 'storage_read_gb']


def gen_class():
    return find(parse(WL), ast.ClassDef, 'WorkloadGenerator')


def segment_call(node, where):
    """Segment(baseline_cpu_seconds=<num>, cpu_scaling="<name>", storage_read_gb=<num>) -> (Q, string, Q)"""
    if not (isinstance(node, ast.Call) and src(node.func) == 'Segment' and not node.args):
        raise Fail(f'{where}: not a Segment(...) call with keywords only: ' + src(node))
    kw = {k.arg: k.value for k in node.keywords}
    if sorted(kw) != sorted(SEG_KW) or len(node.keywords) != 3:
        raise Fail(f'{where}: unexpected Segment keywords {[k.arg for k in node.keywords]}')
    law = kw['cpu_scaling']
    if not (isinstance(law, ast.Constant) and isinstance(law.value, str)):
        raise Fail(f'{where}: cpu_scaling is not a string literal')
    return num_q(kw['baseline_cpu_seconds']), qstr(law.value) + '%string', num_q(kw['storage_read_gb'])


def cmp_val(node, op):
    """`val <op> <number>` -> Q literal"""
    if isinstance(node, ast.Compare) and src(node.left) == 'val' and len(node.ops) == 1 \
            and isinstance(node.ops[0], op) and len(node.comparators) == 1:
        return num_q(node.comparators[0])
    raise Fail('unrecognised ladder test: ' + src(node))


def ladder_test(test):
    """-> (lo option, hi option) as Coq text"""
    if isinstance(test, ast.BoolOp) and isinstance(test.op, ast.And) and len(test.values) == 2:
        return f'Some {cmp_val(test.values[0], ast.GtE)}', f'Some {cmp_val(test.values[1], ast.Lt)}'
    if isinstance(test, ast.Compare) and isinstance(test.ops[0], ast.Lt):
        return 'None', f'Some {cmp_val(test, ast.Lt)}'
    if isinstance(test, ast.Compare) and isinstance(test.ops[0], ast.GtE):
        return f'Some {cmp_val(test, ast.GtE)}', 'None'
    raise Fail('unrecognised ladder test: ' + src(test))


def item_gen_ladder():
    fn = find(gen_class(), ast.FunctionDef, 'generate_segment_from_val')
    if [a.arg for a in fn.args.args] != ['self', 'val']:
        raise Fail('generate_segment_from_val: unexpected parameters')
    body = strip_doc(fn.body)
    if len(body) != 1 or not isinstance(body[0], ast.If):
        raise Fail('generate_segment_from_val: body is not a single if/elif chain')
    rows = []
    node = body[0]
    while True:
        lo, hi = ladder_test(node.test)
        if len(node.body) != 1 or not isinstance(node.body[0], ast.Return):
            raise Fail('generate_segment_from_val: an arm is not a single return')
        cpu, law, read = segment_call(node.body[0].value, 'generate_segment_from_val')
        rows.append(f'({lo}, {hi}, {cpu}, {law}, {read})')
        if not node.orelse:
            break
        if len(node.orelse) != 1 or not isinstance(node.orelse[0], ast.If):
            raise Fail('generate_segment_from_val: else branch is not an elif')
        node = node.orelse[0]
    return 'list (option Q * option Q * Q * string * Q)', coq_list(rows)


def item_gen_query_proto():
    fn = find(gen_class(), ast.FunctionDef, 'generate_query_segment')
    body = strip_doc(fn.body)
    if len(body) != 1 or not isinstance(body[0], ast.Return):
        raise Fail('generate_query_segment: body is not a single return')
    cpu, law, read = segment_call(body[0].value, 'generate_query_segment')
    return 'Q * string * Q', f'({cpu}, {law}, {read})'


def item_gen_clip():
    """generate_segment_not_heavy_io: (threshold, replacement) of `if val < t: val = r`"""
    fn = find(gen_class(), ast.FunctionDef, 'generate_segment_not_heavy_io')
    body = strip_doc(fn.body)
    if len(body) != 3 or src(body[0]) != 'val = self.rng.normal(self.cpu_io_ratio)' \
            or src(body[2]) != 'return self.generate_segment_from_val(val)':
        raise Fail('generate_segment_not_heavy_io: unrecognised body')
    st = body[1]
    if not (isinstance(st, ast.If) and not st.orelse and len(st.body) == 1 and isinstance(st.body[0], ast.Assign)
            and src(st.body[0].targets[0]) == 'val'):
        raise Fail('generate_segment_not_heavy_io: unrecognised clip ' + src(st))
    return 'Q * Q', f'({cmp_val(st.test, ast.Lt)}, {num_q(st.body[0].value)})'


def clean(body):
    """statements without docstrings and logger calls"""
    out = []
    for st in strip_doc(body):
        if isinstance(st, ast.Expr) and isinstance(st.value, ast.Call) and src(st.value.func).startswith('logger.'):
            continue
        out.append(st)
    return out


def flat(body, ind, out):
    """normalised source, one entry per simple statement / compound header, indentation as leading dots"""
    for st in clean(body):
        pre = '.' * ind
        if isinstance(st, ast.If):
            out.append(pre + 'if ' + src(st.test) + ':')
            flat(st.body, ind + 1, out)
            if st.orelse:
                out.append(pre + 'else:')
                flat(st.orelse, ind + 1, out)
        elif isinstance(st, ast.For):
            if st.orelse:
                raise Fail('for/else')
            out.append(pre + 'for ' + src(st.target) + ' in ' + src(st.iter) + ':')
            flat(st.body, ind + 1, out)
        elif isinstance(st, (ast.Assign, ast.AugAssign, ast.Return, ast.Expr, ast.Assert)):
            s = src(st)
            if len(s) > 190:
                raise Fail('statement too long to compare: ' + s[:60])
            out.append(pre + s)
        else:
            raise Fail('unrecognised statement kind: ' + src(st)[:80])


def item_gen_source():
    cls = gen_class()
    out = []
    for name in ('generate_pipelines', 'run_one_tick', 'generate_segment_not_heavy_io'):
        fn = find(cls, ast.FunctionDef, name)
        out.append('def ' + name + '(' + ', '.join(a.arg for a in fn.args.args) + '):')
        flat(fn.body, 1, out)
    init = find(cls, ast.FunctionDef, '__init__')
    keep = ('ticks_since_last_gen', 'waiting_ticks', 'pipeline_counter', 'priority_values', 'priority_probs',
            'prob_array', 'self.rng', 'num_pipelines', 'num_operators', 'cpu_io_ratio')
    out.append('def __init__:')
    for st in clean(init.body):
        s = src(st)
        if any(k in s for k in keep):
            if len(s) > 190:
                raise Fail('statement too long to compare: ' + s[:60])
            out.append('.' + s)
    return 'list string', coq_list([qstr(s) + '%string' for s in out])


ITEMS = [
    ('gen_ladder', item_gen_ladder),
    ('gen_query_proto', item_gen_query_proto),
    ('gen_clip', item_gen_clip),
    ('gen_source', item_gen_source),
]

if __name__ == '__main__':
    for n, f in ITEMS:
        print(n, *f(), sep='\n  ')
