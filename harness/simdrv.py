"""Whole-simulation driver: runs run_simulator on the real code with a list workload, records per-tick
decisions/results/states through wrappers, encodes cases of kind 5 (Model/RunSim.v), generator G-sim."""
import importlib
import math
import os
import sys
import shutil
import tempfile
from fractions import Fraction as F

from harness import impl
from harness import execdrv as X
from harness.impl import OST, PRIO, PRIO_VAL, World, Q, enc_list, enc_pipes, err_code, random_dag

import eudoxia.executor.executor as exmod
from eudoxia.executor.container import Container
from eudoxia.scheduler.decorators import SCHEDULING_ALGOS, INIT_ALGOS
from eudoxia.simulator import run_simulator, get_param_defaults
from eudoxia.workload import Workload

KIND_SIM = 5
ALGOS = {'naive': 0, 'starter': 1, 'overbook': 2, 'priority': 3, 'priority-pool': 4}
M_DEC, M_RES, M_FIN, M_POOLS, M_STATES = 1, 2, 4, 8, 16
STARTER_NAME = 'verifstarter'


def ensure_starter():
    """the scheduler that `eudoxia init -s NAME` writes, generated from the template in /repo and imported"""
    if STARTER_NAME in SCHEDULING_ALGOS:
        return
    from eudoxia.__main__ import SCHEDULER_TEMPLATE
    d = tempfile.mkdtemp(prefix='verifstarter')
    path = os.path.join(d, STARTER_NAME + '.py')
    with open(path, 'w') as f:
        f.write(SCHEDULER_TEMPLATE.format(scheduler_name=STARTER_NAME))
    spec = importlib.util.spec_from_file_location(STARTER_NAME, path)
    mod = importlib.util.module_from_spec(spec)
    spec.loader.exec_module(mod)
    shutil.rmtree(d, ignore_errors=True)


class ListWorkload(Workload):
    def __init__(self, world, arrivals):
        self.world = world
        self.by_tick = {}
        for t, k in arrivals:
            self.by_tick.setdefault(t, []).append(world.pipes[k])
        self.tick = 0
        self.delivered = []

    def run_one_tick(self):
        out = self.by_tick.get(self.tick, [])
        self.delivered.append([self.world.pipes.index(p) for p in out])
        self.tick += 1
        return list(out)


class TraceWorkload(Workload):
    """the same arrivals handed to the simulator through the REAL trace replayer: an in-memory WorkloadReader whose
    batches are replayed by WorkloadTrace (via WorkloadReader.get_workload), as `eudoxia run -w` does. Arrival times are
    written in the middle of the tick before the intended one (tick t >= 1: (t - 0.5) / tps; tick 0: 0.0), safely away
    from the float boundaries of the tick mapping, so the replayer delivers in exactly the intended tick. A pipeline that
    shares its tick with its predecessor in the file is sometimes written with an EARLIER time than its predecessor (the
    file is then not in arrival order): batches are handed out in file order, so it is still delivered in that tick."""

    def __init__(self, world, arrivals, tps):
        from eudoxia.workload.workload import PipelineArrival, WorkloadReader
        self.world = world
        self.delivered = []
        batches, prev_t, prev_w = [], None, None
        for t, k in arrivals:
            wt = 0.0 if t == 0 else (t - 0.5) / tps
            if prev_t == t and (k * 7 + t) % 5 == 0:
                wt = max(0.0, (t - 1.5 - (k % 4))) / tps        # earlier than the predecessor, delivered with it
            if batches and wt == prev_w:
                batches[-1].append(PipelineArrival(wt, world.pipes[k]))
            else:
                batches.append([PipelineArrival(wt, world.pipes[k])])
            prev_t, prev_w = t, wt

        class Reader(WorkloadReader):
            def batch_by_arrival(self_):
                for b in batches:
                    yield list(b)
        self.real = Reader().get_workload(tps)

    def run_one_tick(self):
        out = self.real.run_one_tick()
        self.delivered.append([self.world.pipes.index(p) for p in out])
        return out


class SimRun:
    def __init__(self, recipe):
        self.r = recipe
        self.ticks = []      # per completed tick: dict(susp, asg, results, pools, states)
        self.err = 0
        self.exc = None
        self.stats = None
        self.used = {}

    def run(self):
        r = self.r
        w = self.w = World(r['pipes'], r['segs'])
        wl = self.wl = (TraceWorkload(w, r['arrivals'], r['tps']) if r.get('via_trace') else ListWorkload(w, r['arrivals']))
        name = r['algo']
        key = STARTER_NAME if name == 'starter' else name
        if name == 'starter':
            ensure_starter()
        base = self.base = Container.next_container_num
        params = dict(get_param_defaults())
        params.update(dict(duration=r['duration'], ticks_per_second=r['tps'], scheduler_algo=key,
                           num_pools=r['npools'], cpus_per_pool=r['cpu'], ram_gb_per_pool=X.num(r['ram']),
                           multi_operator_containers=bool(r['multi']), allow_memory_overcommit=bool(r['over'])))
        pending = {}
        orig_algo = SCHEDULING_ALGOS[key]
        orig_tick = exmod.Executor.run_one_tick
        me = self

        def cid(c):
            return int(c[1:]) - base

        def rec_algo(s, results, pipelines):
            sus, asg = orig_algo(s, results, pipelines)
            if r.get('relabel'):
                # a scheduler that labels its containers with another priority than the pipeline's (an external policy
                # boosting old batch work, say): the label travels assignment -> container -> result
                from eudoxia.utils import Priority
                for a in asg:
                    a.priority = Priority(a.priority.value % 3 + 1)
                    if r['relabel'] == 2:
                        # ... and that flags its assignments as resumes (the flag is informational: the executor
                        # starts a container for a flagged assignment like for any other, and it is a decision)
                        a.is_resume = True
            pending['susp'] = [(cid(x.container_id), x.pool_id) for x in sus]
            pending['asg'] = [([w.gid[o] for o in a.ops], a.cpu, a.ram, PRIO_VAL[a.priority], a.pool_id) for a in asg]
            pending['asg_tick'] = len(me.ticks)       # the tick these decisions are for (not yet executed)
            for a in asg:
                for o in a.ops:
                    k = (w.gid[o], a.cpu)
                    if k not in me.used:
                        me.used[k] = X.probe_script(w.segs_of(w.gid[o]), a.cpu, r['tps'])
            return sus, asg

        def rec_tick(ex, suspensions, assignments):
            pending['pre_states'] = w.states()
            pending['pre_tick'] = len(me.ticks)
            res = orig_tick(ex, suspensions, assignments)
            me.ticks.append(dict(
                susp=pending.get('susp', []), asg=pending.get('asg', []), pre_states=pending.get('pre_states'),
                results=[dict(cid=cid(x.container_id), ops=[w.gid[o] for o in x.ops], cpu=x.cpu, ram=x.ram,
                              prio=PRIO_VAL[x.priority], pool=x.pool_id, err=1 if x.failed() else 0) for x in res],
                pools=[dict(avail_cpu=p.avail_cpu_pool, avail_ram=p.avail_ram_pool, max_cpu=p.max_cpu_pool,
                            max_ram=p.max_ram_pool,
                            active=[dict(cid=cid(c.container_id), can_suspend=bool(c.can_suspend_container()),
                                         prio=PRIO_VAL[c.priority], cpu=c.assignment.cpu, ram=c.assignment.ram,
                                         ops=[w.gid[o] for o in c.operators], opidx=c._current_op_idx)
                                    for c in p.active_containers],
                            suspending=[cid(c.container_id) for c in p.suspending_containers],
                            suspended=[cid(c.container_id) for c in p.suspended_containers]) for p in ex.pools],
                states=w.states()))
            return res

        SCHEDULING_ALGOS[key] = rec_algo
        exmod.Executor.run_one_tick = rec_tick
        from eudoxia.scheduler import Scheduler
        orig_sched_init = Scheduler.__init__
        if r.get('lean_sched'):
            # a Scheduler built the way the unit tests build it: only the keyword arguments its algorithm documents,
            # without the executor's pool sizes (the schedulers read those from the executor)
            def lean_init(self_, executor, scheduler_algo, **kw):
                for k in ('cpus_per_pool', 'ram_gb_per_pool', 'num_pools'):
                    kw.pop(k, None)
                return orig_sched_init(self_, executor, scheduler_algo, **kw)
            Scheduler.__init__ = lean_init
        try:
            self.stats = run_simulator(params, workload=wl)
        except BaseException as e:  # noqa
            if isinstance(e, (KeyboardInterrupt, SystemExit)):
                raise
            self.err = err_code(e)
            self.exc = f'{type(e).__name__}: {e}'[:200]
            self.err_pending = dict(pending)
        finally:
            SCHEDULING_ALGOS[key] = orig_algo
            exmod.Executor.run_one_tick = orig_tick
            Scheduler.__init__ = orig_sched_init
        for t, d in enumerate(self.ticks):
            d['new'] = wl.delivered[t] if t < len(wl.delivered) else []
            order = [k for _, k in r['arrivals']]          # outstanding_pipelines is insertion (arrival) ordered
            d['finished'] = [k for k in order if w.pipes[k].runtime_status().finish_tick == t]
        return self


def opt_q(x):
    return [0] if (x is None or (isinstance(x, float) and math.isnan(x))) else [1] + Q(x)


def dump_sim(run, mask):
    """observed answer + positions of float-valued statistics (compared with tolerance, see check.py)"""
    out, slots = [], []
    for d in run.ticks:
        out.append(0)
        if mask & M_DEC:
            out += enc_list(d['susp'], lambda s: list(s))
            out += enc_list(d['asg'], lambda a: enc_list(a[0]) + [a[1]] + Q(a[2]) + [a[3], a[4]])
        if mask & M_RES:
            out += enc_list(d['results'], lambda x: [x['cid']] + enc_list(x['ops']) + [x['cpu']] + Q(x['ram'])
                            + [x['prio'], x['pool'], x['err']])
        if mask & M_FIN:
            out += enc_list(d['finished'])
        if mask & M_POOLS:
            for p in d['pools']:
                out += [p['avail_cpu']] + Q(p['avail_ram'])
        if mask & M_STATES:
            out += enc_list(d['states'])
    if run.err:
        out.append(run.err)
        return out, slots
    st = run.stats
    out.append(99)
    out += [st.pipelines_created, st.containers_completed]

    def fq(x):
        nonlocal out
        slots.append((len(out), float(x)))
        out += Q(x)

    def fo(x):
        nonlocal out
        if x is None or (isinstance(x, float) and math.isnan(x)):
            out += [0]
        else:
            out += [1]
            slots.append((len(out), float(x)))
            out += Q(float(x))
    fq(float(st.throughput))
    fo(st.p99_latency)
    out += [st.assignments, st.suspensions, st.failures]
    for ps in (st.pipelines_all, st.pipelines_query, st.pipelines_interactive, st.pipelines_batch):
        out += [ps.arrival_count, ps.completion_count]
        fo(ps.mean_latency_seconds)
        fo(ps.p99_latency_seconds)
    return out, slots


def encode_sim(recipe, run, mask):
    r = recipe
    scripts, idx, entries = [], {}, []
    for (op, cpus), sc in sorted(run.used.items()):
        key = tuple(sc)
        if key not in idx:
            idx[key] = len(scripts)
            scripts.append(sc)
        entries.append((op, cpus, idx[key]))
    inp = [ALGOS[r['algo']], r['tps'], int(bool(r['over'])), int(bool(r['multi'])), r['npools'], r['cpu']] + Q(r['ram'])
    inp += Q(r['duration'])
    inp += enc_pipes(r['pipes'])
    inp += enc_list(scripts, lambda s: enc_list(s, Q))
    inp += enc_list(entries, lambda e: list(e))
    inp += [mask]
    inp += enc_list(r['arrivals'], lambda a: [a[0], a[1]])
    return inp


def make_case(recipe, run, mask):
    obs, slots = dump_sim(run, mask)
    return dict(kind=KIND_SIM, inp=encode_sim(recipe, run, mask), obs=obs, float_slots=slots, recipe=recipe,
                gen=recipe.get('gen'))


def drive(recipe, mask):
    run = SimRun(recipe).run()
    return make_case(recipe, run, mask), run


# ------------------------------------------------------------------------------------------------
# G-sim

def gen_sim(rng, algo=None, gen='G-sim', small=True):
    algo = algo or rng.choice(list(ALGOS))
    tps = rng.choice([1, 2, 10, 100] if not small else [1, 1, 2, 2, 10, 100])
    nticks = rng.choice([0, 1, 5, 20, 40, 80, 120] if tps < 100 else [3, 50, 120, 200])
    zero_ticks = nticks == 0
    duration = nticks / tps + (0.4 / tps if zero_ticks else rng.choice([0, 0, 0.4 / tps]))
    if rng.random() < 0.5 and float(duration).is_integer():
        duration = int(duration)
    npools = 2 if algo == 'priority-pool' else rng.choice([1, 1, 2, 3, 4])
    cpu = rng.choice([1, 2, 4, 8, 10, 16, 32])
    ram = rng.choice([1, 2, 4, 8, 16, 20, 32, 64, 100, 0.5, 2.5, 12.5, 62.5])      # sub-GB and fractional pool sizes too
    over = 1 if algo == 'overbook' else 0
    multi = 1 if algo == 'priority-pool' else rng.choice([0, 1, 1])
    pipes, segs, arrivals = [], [], []
    npipes = rng.choice([0, 1, 2, 4, 6, 10, 14])
    mix = rng.choice([(1, 1, 1), (1, 0, 0), (0, 1, 0), (0, 0, 1), (1, 0, 3), (3, 1, 0), (1, 2, 4)])
    share = max(1.0, ram / 10.0)
    for k in range(npipes):
        pr = rng.choices([1, 2, 3], weights=mix)[0]
        n = 1 if (pr == 1 and rng.random() < 0.7) else rng.randint(1, 5)
        dag = [[j - 1] if j else [] for j in range(n)] if rng.random() < 0.6 else random_dag(rng, n, rng.choice([0.3, 0.7]))
        pipes.append((pr, dag))
        ops = []
        for _ in range(n):
            io_t = rng.choice([0, 1, 1, 2, 3, 6])
            cpu_t = rng.choice([0, 1, 2, 3, 5, 9])
            s = dict(baseline_cpu_seconds=float(cpu_t) / tps * rng.choice([1, 1, 2, 4]), cpu_scaling=rng.choice(X.LAWS),
                     storage_read_gb=float((io_t + rng.choice([0, 0.3])) * 20.0 / tps))
            # demand around the share a new job gets (total/10), so that OOM retries and the 50% cut-off occur
            if rng.random() < 0.65 or s['storage_read_gb'] > ram:
                s['memory_gb'] = float(rng.choice([0, 0.25, 0.5, 1, 1.5, 2, 3, 5, 9, 17, 40]) * rng.choice([share, 1, 1]))
                if s['memory_gb'] > 2 * ram:
                    s['memory_gb'] = float(ram)
            ops.append([s] if rng.random() < 0.8 else
                       [s, dict(baseline_cpu_seconds=float(rng.choice([0, 0.4, 1, 2, 3])) / tps,
                                cpu_scaling=rng.choice(['const', 'squared']), storage_read_gb=0.0,
                                memory_gb=float(rng.choice([0, 0.25, 0.5, 1])))])
        segs.append(ops)
        t = rng.choice([0, 0, 0, 1, 2, 5, 10, 30, 60]) if rng.random() < 0.7 else rng.randrange(0, max(1, nticks))
        arrivals.append((t, k))
    arrivals.sort(key=lambda a: a[0])
    return dict(gen=gen, algo=algo, tps=tps, over=over, multi=multi, npools=npools, cpu=cpu, ram=ram,
                duration=duration, pipes=pipes, segs=segs, arrivals=arrivals)


def gen_preempt(rng, gen='G-sim-preempt'):
    """priority scheduler under contention: pools saturated by batch/interactive chains with frequent operator
    boundaries, query pipelines arriving while nothing is free, so that preemption and resumption occur"""
    tps = rng.choice([1, 2, 2, 10])
    npools = rng.choice([1, 1, 2, 3])
    cpu = rng.choice([2, 3, 4, 6, 10])
    ram = rng.choice([10, 20, 100, 200, 400])
    nticks = rng.choice([30, 60, 100])
    share = max(1, int(ram / 10))
    pipes, segs, arrivals = [], [], []
    nb = npools * cpu + rng.randint(0, 4)

    def mkops(n, heavy=False):
        ops = []
        for _ in range(n):
            ticks = rng.choice([1, 1, 2, 3])
            s = dict(baseline_cpu_seconds=float(ticks) / tps, cpu_scaling='const', storage_read_gb=0.0,
                     memory_gb=float(rng.choice([0.25, 0.5, 1.0]) * (share if not heavy else 3 * share)))
            # sometimes two segments per operator: segment boundaries inside an operator are not operator boundaries
            ops.append([s] if rng.random() < 0.7 else
                       [s, dict(s, baseline_cpu_seconds=float(rng.choice([1, 2])) / tps)])
        return ops
    for k in range(nb):
        n = rng.randint(2, 5)
        pipes.append((rng.choice([3, 3, 2]), [[j - 1] if j else [] for j in range(n)]))
        segs.append(mkops(n, heavy=rng.random() < 0.15))
        arrivals.append((rng.choice([0, 0, 0, 1, 2]), k))
    for q in range(rng.randint(1, 6)):
        n = rng.choice([1, 1, 2])
        pipes.append((1, [[j - 1] if j else [] for j in range(n)]))
        segs.append(mkops(n))
        arrivals.append((rng.randint(1, 15), len(pipes) - 1))
    arrivals.sort(key=lambda a: a[0])
    return dict(gen=gen, algo='priority', tps=tps, over=0, multi=rng.choice([1, 1, 1, 0]), npools=npools, cpu=cpu, ram=ram,
                duration=nticks / tps, pipes=pipes, segs=segs, arrivals=arrivals)


def gen_saturate(rng, algo, gen='G-sim-saturate'):
    """more work than the pools can hold: many pipelines arriving within a few ticks, 1-CPU slices (5-19 CPUs per
    pool), a quarter of the operators above the RAM slice so that OOM retries (doubling) compete for the last
    free CPUs and GBs of a pool"""
    tps = rng.choice([1, 2, 10])
    npools = 2 if algo == 'priority-pool' else rng.choice([1, 2, 3])
    cpu = rng.choice([5, 6, 7, 8, 10, 12, 16, 19])
    ram = rng.choice([40, 100, 200, 12.5, 62.5])
    share = ram / 10.0 if ram != int(ram) else ram // 10
    nticks = rng.choice([40, 80, 150])
    pipes, segs, arrivals = [], [], []
    n = rng.randint(npools * cpu, 3 * npools * cpu)
    for k in range(n):
        pr = rng.choice([1, 2, 2, 3, 3, 3])
        nops = 1 if pr == 1 else rng.randint(1, 3)
        pipes.append((pr, [[j - 1] if j else [] for j in range(nops)]))
        ops = []
        for _ in range(nops):
            r = rng.random()
            mem = share * (rng.choice([0.25, 0.5, 1.0]) if r < 0.7 else rng.choice([1.5, 2.0]) if r < 0.92 else
                           rng.choice([3.0, 6.0] if algo not in ('naive', 'starter') else [6.0, 12.0, 15.0]))   # naive hands out whole pools
            ops.append([dict(baseline_cpu_seconds=float(rng.randint(2, 9)) / tps, cpu_scaling='const',
                             storage_read_gb=0.0, memory_gb=float(mem))])
        segs.append(ops)
        arrivals.append((rng.choice([0, 0, 1, 2, 3]) if rng.random() < 0.6 else rng.randrange(0, nticks // 2), k))
    arrivals.sort(key=lambda a: a[0])
    return dict(gen=gen, algo=algo, tps=tps, over=1 if algo == 'overbook' else 0, multi=1, npools=npools, cpu=cpu, ram=ram,
                duration=nticks / tps, pipes=pipes, segs=segs, arrivals=arrivals)


def gen_abandon(rng, gen='G-sim-overbook-abandon', algo='overbook'):
    """overbook: pipelines with parallel branches of which one always dies (demand above the pool), so that the
    pipeline is abandoned after three failures WHILE a sibling container of the same pipeline is still running;
    further pipelines keep arriving, few CPUs, so that every freed CPU matters"""
    tps = rng.choice([1, 2, 10])
    npools = rng.choice([1, 1, 2])
    cpu = rng.choice([1, 2, 2, 3, 4])
    ram = rng.choice([16, 32, 64])
    nticks = rng.choice([60, 100, 150])
    pipes, segs, arrivals = [], [], []

    def op(ticks, mem):
        return [dict(baseline_cpu_seconds=float(ticks) / tps, cpu_scaling='const', storage_read_gb=0.0, memory_gb=float(mem))]
    for k in range(rng.randint(1, 3)):
        nb = rng.randint(2, 4)                      # independent roots: 1-3 bad ones (always killed), the others long
        nbad = min(nb, rng.choice([1, 1, 2, 3]))
        dag = [[] for _ in range(nb)]
        ops = [op(rng.randint(1, 3), ram * rng.choice([1.5, 2, 4])) for _ in range(nbad)] + \
              [op(rng.randint(8, 25), rng.choice([0.5, 1, 2])) for _ in range(nb - nbad)]
        if rng.random() < 0.5:                      # a join behind them (never runs)
            dag.append(list(range(nb)))
            ops.append(op(2, 1))
        order = list(range(nb))
        rng.shuffle(order)
        dag = [dag[i] for i in order] + dag[nb:]
        ops = [ops[i] for i in order] + ops[nb:]
        pipes.append((rng.choice([1, 2, 3]), dag))
        segs.append(ops)
        arrivals.append((rng.choice([0, 0, 1, 3]), len(pipes) - 1))
    for k in range(rng.randint(2, 8)):
        n = rng.randint(1, 3)
        dag = [[] for _ in range(n)] if rng.random() < 0.5 else [[j - 1] if j else [] for j in range(n)]
        pipes.append((rng.choice([1, 2, 3]), dag))
        segs.append([op(rng.randint(1, 6), rng.choice([0.5, 1, 2])) for _ in range(n)])
        arrivals.append((rng.randint(0, nticks // 2), len(pipes) - 1))
    arrivals.sort(key=lambda a: a[0])
    if algo != 'overbook':
        # the same workloads for the single-operator-container mode of another policy on several pools: sibling
        # operators of one pipeline run at the same time in different pools, one of them is killed
        return dict(gen=gen, algo=algo, tps=tps, over=0, multi=0, npools=rng.choice([2, 3, 4]), cpu=cpu, ram=ram,
                    duration=nticks / tps, pipes=pipes, segs=segs, arrivals=arrivals)
    return dict(gen=gen, algo='overbook', tps=tps, over=1, multi=rng.choice([0, 1]), npools=npools, cpu=cpu, ram=ram,
                duration=nticks / tps, pipes=pipes, segs=segs, arrivals=arrivals)


def gen_branches(rng, algo, gen='G-sim-branches'):
    """single-operator containers and pipelines made of 2-3 parallel chains (listed level by level, as the DAG
    iterator does) that advance at different speeds, so that an operator of the fast chain becomes ready while the
    operator listed before it, of a slow chain, is still blocked; lower-priority pipelines keep arriving"""
    tps = rng.choice([1, 2, 10])
    npools = 2 if algo == 'priority-pool' else rng.choice([1, 2, 3])
    cpu = rng.choice([2, 4, 8, 10])
    ram = rng.choice([20, 50, 100])
    nticks = rng.choice([60, 100, 150])
    pipes, segs, arrivals = [], [], []

    def op(ticks):
        return [dict(baseline_cpu_seconds=float(ticks) / tps, cpu_scaling='const', storage_read_gb=0.0,
                     memory_gb=float(rng.choice([0.25, 0.5, 1])))]
    for k in range(rng.randint(1, 3)):
        nch, depth = rng.randint(2, 3), rng.randint(2, 3)
        speeds = [rng.choice([1, 2]) if c else rng.randint(6, 14) for c in range(nch)]
        rng.shuffle(speeds)
        common_root = rng.random() < 0.4
        dag, ops = ([[]], [op(1)]) if common_root else ([], [])
        base = len(dag)
        for lvl in range(depth):
            for c in range(nch):
                dag.append(([0] if common_root else []) if lvl == 0 else [base + (lvl - 1) * nch + c])
                ops.append(op(speeds[c]))
        pipes.append((rng.choice([1, 1, 2, 3]), dag))
        segs.append(ops)
        arrivals.append((rng.choice([0, 0, 1, 2]), len(pipes) - 1))
    for k in range(rng.randint(1, 6)):
        n = rng.randint(1, 2)
        pipes.append((rng.choice([2, 3, 3]), [[j - 1] if j else [] for j in range(n)]))
        segs.append([op(rng.randint(1, 4)) for _ in range(n)])
        arrivals.append((rng.randint(1, nticks // 3), len(pipes) - 1))
    arrivals.sort(key=lambda a: a[0])
    return dict(gen=gen, algo=algo, tps=tps, over=1 if algo == 'overbook' else 0, multi=0, npools=npools, cpu=cpu,
                ram=ram, duration=nticks / tps, pipes=pipes, segs=segs, arrivals=arrivals)


def gen_failready(rng, algo, gen='G-sim-failready'):
    """single-operator containers; pipelines A -> {B, C}, C -> D where B is killed (own limit) in the very tick in
    which its sibling C completes: a FAILED operator to retry and a PENDING operator that just became ready appear
    together; few CPUs, several such pipelines, so the order in which they are picked up matters"""
    tps = rng.choice([1, 2, 10])
    npools = 2 if algo == 'priority-pool' else rng.choice([1, 1, 2])
    cpu = rng.choice([2, 3, 4])
    ram = rng.choice([20, 40, 100])
    nticks = rng.choice([60, 100])
    pipes, segs, arrivals = [], [], []

    def seg(t, m):
        return dict(baseline_cpu_seconds=float(t) / tps, cpu_scaling='const', storage_read_gb=0.0, memory_gb=float(m))
    for k in range(rng.randint(1, 3)):
        t = rng.randint(1, 4)
        small = rng.choice([0.25, 0.5, 1])
        # priority hands out a tenth of the pool, overbook the whole pool: make B exceed either
        big = ram * rng.choice([1.5, 2])
        a = [seg(rng.randint(1, 2), small)]
        b = [seg(t, small), seg(2, big)]            # dies in tick t + 1 of its life
        c = [seg(t + 1, small)]                     # completes in tick t + 1 of its life
        d = [seg(rng.randint(1, 3), small)]
        order = rng.choice([[a, b, c, d], [a, c, b, d]])
        dag = [[], [0], [0], [2 if order[2] is c else 1]] if True else None
        pipes.append((rng.choice([1, 2, 3]), dag))
        segs.append(order)
        arrivals.append((rng.choice([0, 0, 1]), len(pipes) - 1))
    for k in range(rng.randint(0, 3)):
        pipes.append((rng.choice([2, 3]), [[]]))
        segs.append([[seg(rng.randint(2, 8), 0.5)]])
        arrivals.append((rng.randint(0, 6), len(pipes) - 1))
    arrivals.sort(key=lambda x: x[0])
    return dict(gen=gen, algo=algo, tps=tps, over=1 if algo == 'overbook' else 0, multi=0, npools=npools, cpu=cpu,
                ram=ram, duration=nticks / tps, pipes=pipes, segs=segs, arrivals=arrivals)


def gen_failbranch(rng, algo='naive', gen='G-sim-failbranch'):
    """single-operator containers, 2-3 pools; a pipeline with two branches A -> B and C -> F where F runs out of
    memory at once while the slow A is still running; short fillers and a long-running late pipeline compete for the
    pool F frees, so the pipeline is sometimes NOT looked at between the failure of F and the moment B becomes ready
    (B is listed before F): the first time the scheduler sees it again it holds a FAILED operator and a ready PENDING
    operator in front of it"""
    tps = rng.choice([1, 2, 10])
    npools = rng.choice([2, 2, 3])
    cpu = rng.choice([2, 4])
    ram = rng.choice([10, 20, 40])
    nticks = rng.choice([60, 90])
    pipes, segs, arrivals = [], [], []

    def seg(t, m):
        return dict(baseline_cpu_seconds=float(t) / tps, cpu_scaling='const', storage_read_gb=0.0, memory_gb=float(m))
    small = rng.choice([0.25, 0.5, 1])
    for k in range(rng.randint(1, 2)):
        a = [seg(rng.randint(12, 25), small)]
        b = [seg(rng.randint(2, 8), small)]
        c = [seg(rng.randint(1, 2), small)]
        f = [seg(1, small), seg(2, ram * 2)] if rng.random() < 0.5 else [seg(2, ram * 2)]
        if rng.random() < 0.5:
            dag, ops = [[], [0], [], [2]], [a, b, c, f]          # A, B, C, F
        else:
            dag, ops = [[], [], [0], [1]], [a, c, b, f]          # A, C, B, F (level by level)
        pipes.append((rng.choice([1, 2, 3]), dag))
        segs.append(ops)
        arrivals.append((0, len(pipes) - 1))
    for k in range(rng.randint(1, 2)):                           # short fillers arriving with it
        pipes.append((rng.choice([2, 3]), [[]]))
        segs.append([[seg(rng.randint(1, 2), small)]])
        arrivals.append((0, len(pipes) - 1))
    for k in range(rng.randint(1, 3)):                           # late, long-running pipelines
        pipes.append((rng.choice([2, 3]), [[]]))
        segs.append([[seg(rng.randint(15, 40), small)]])
        arrivals.append((rng.randint(1, 8), len(pipes) - 1))
    arrivals.sort(key=lambda x: x[0])
    return dict(gen=gen, algo=algo, tps=tps, over=0, multi=0, npools=npools, cpu=cpu, ram=ram, duration=nticks / tps,
                pipes=pipes, segs=segs, arrivals=arrivals)


def gen_twin_preempt(rng, gen='G-sim-twin-preempt'):
    """priority scheduler, multi-operator containers: every pool is filled exactly (ten containers of a tenth of the
    pool each) by chains of one-tick operators, so every tick is an operator boundary for all of them; more queries
    than pools arrive together while nothing is free, so two containers of ONE pool are suspended in the same round
    and (equal allocations) their write-outs end in the same tick; fresh batch pipelines arrive around that tick and
    compete with the resumed work"""
    tps = rng.choice([1, 2, 10])
    npools = rng.choice([1, 1, 2])
    cpu, ram = 10, rng.choice([20, 100, 200])
    nticks = rng.choice([40, 60])
    share = ram / 10
    pipes, segs, arrivals = [], [], []

    def chain(n, prio, at, mem):
        pipes.append((prio, [[j - 1] if j else [] for j in range(n)]))
        segs.append([[dict(baseline_cpu_seconds=1.0 / tps, cpu_scaling='const', storage_read_gb=0.0,
                           memory_gb=float(mem))] for _ in range(n)])
        arrivals.append((at, len(pipes) - 1))
    mem = share * rng.choice([0.25, 0.5])
    ni = rng.randint(2, 4)
    for k in range(10 * npools):
        chain(rng.randint(8, 20), 2 if k < ni * npools else 3, 0, mem)
    tq = rng.randint(1, 4)
    for q in range(rng.randint(npools + 1, 2 * npools + 2)):
        chain(rng.randint(1, 3), 1, tq, mem)
    d = max(1, int(share / 20 * tps))
    for k in range(rng.randint(1, 4)):
        chain(rng.randint(1, 4), 3, tq + d + rng.randint(0, 3), mem)
    arrivals.sort(key=lambda a: a[0])
    return dict(gen=gen, algo='priority', tps=tps, over=0, multi=1, npools=npools, cpu=cpu, ram=ram,
                duration=nticks / tps, pipes=pipes, segs=segs, arrivals=arrivals)


def gen_ppool_stuck(rng, gen='G-sim-ppool-stuck'):
    """priority-pool with pool 0 filled exactly: nq queries that all run out of memory in the same tick, 9 - nq
    interactive multi-operator pipelines of which the first fails at once and comes back with a doubled allocation
    that takes the last slot; when the queries fail only some of their retries fit, the others wait in the queue
    while interactive containers pass their operator boundaries"""
    tps = rng.choice([10, 20, 100])
    ram = rng.choice([50, 100])
    share = ram / 10.0
    nq = rng.choice([3, 4, 5])
    ni = 9 - nq
    pipes, segs, arrivals = [], [], []
    for _ in range(nq):
        pipes.append((1, [[]]))
        segs.append([[dict(baseline_cpu_seconds=0.5, cpu_scaling='const', storage_read_gb=1.5 * share)]])
    for i in range(ni):
        n = rng.choice([2, 3, 3])
        pipes.append((2, [[j - 1] if j else [] for j in range(n)]))
        segs.append([[dict(baseline_cpu_seconds=round(0.6 + 0.05 * i + 0.1 * rng.randrange(3), 2), cpu_scaling='const',
                           storage_read_gb=0.0, memory_gb=float(1.2 * share if (i == 0 and k == 0) else share / 10.0))]
                     for k in range(n)])
    for _ in range(rng.randint(1, 3)):
        pipes.append((3, [[], [0]]))
        segs.append([[dict(baseline_cpu_seconds=0.7, cpu_scaling='const', storage_read_gb=0.0, memory_gb=share / 5.0)]
                     for _ in range(2)])
    arrivals = [(0, k) for k in range(len(pipes))]
    if rng.random() < 0.3:                         # a late query as well
        pipes.append((1, [[]]))
        segs.append([[dict(baseline_cpu_seconds=0.3, cpu_scaling='const', storage_read_gb=0.0, memory_gb=share / 10.0)]])
        arrivals.append((rng.randint(1, 3 * tps), len(pipes) - 1))
    return dict(gen=gen, algo='priority-pool', tps=tps, over=0, multi=1, npools=2, cpu=10, ram=ram,
                duration=rng.choice([4, 6]), pipes=pipes, segs=segs, arrivals=arrivals)
