(* Back end X driver: one case per input line "kind n1 n2 ...", one answer line of integers. *)
let () =
  try
    while true do
      let line = input_line stdin in
      let toks = List.filter (fun s -> s <> "") (String.split_on_char ' ' line) in
      match toks with
      | [] -> print_newline ()
      | k :: rest ->
        let kind = Big_int_Z.big_int_of_string k in
        let inp = List.map Big_int_Z.big_int_of_string rest in
        let out = Model.run kind inp in
        print_string (String.concat " " (List.map Big_int_Z.string_of_big_int out));
        print_newline ()
    done
  with End_of_file -> ()
