"""./check <id> [quick|thorough]   |   ./check replay <path>   |   ./check setup

Decides one property: (1) the theorems of coq/Properties/<id>.v and the bridge obligations regenerated
from /repo must check; (2) the executable model must agree with the implementation on the generated
cases (back end X in bulk, back end K for the corpus, the enumerations, a sample and every mismatch);
(3) a model-independent monitor of the property statement runs over every implementation trace and is
the search oracle for failing inputs."""
import importlib
import json
import os
import random
import sys
import time
import traceback

from harness import common as C
from harness import extract


def load(pid):
    return importlib.import_module(f'harness.props.{pid}')


class Ctx:
    def __init__(self, pid, tier, seed):
        self.pid, self.tier, self.seed = pid, tier, seed
        self.rng = random.Random(seed * 1000003 + sum(map(ord, pid)))
        self.thorough = tier == 'thorough'
        self.amplify = 1

    def budget(self, quick, thorough):
        return (thorough if self.thorough else quick) * self.amplify

    def case_rng(self, gen, i):
        return random.Random(f'{self.seed}/{gen}/{i}')


def match_known(pid, hit, findings):
    for f in findings:
        if f['property'] == pid and f['key'] == hit.get('signature'):
            return f
    return None


def corpus_recipes(pid):
    d = C.VERIF / 'corpus' / pid
    out = []
    if d.exists():
        for f in sorted(d.glob('*.json')):
            out.append(json.loads(f.read_text()))
    return out


def adopt_float_slots(case, model):
    """Statistics the implementation computes with numpy floats (means, percentiles, throughput) are
    compared with the model's exact rational with relative tolerance 1e-9; where they agree the observed
    answer adopts the model's rational, so that the exact comparison (X and K) covers everything else."""
    slots = case.get('float_slots') or []
    obs = case['obs']
    if not slots or len(model) < len(obs):
        return
    # the encodings have equal length only if all optional fields agree; positions then coincide
    for pos, val in slots:
        if pos + 1 >= len(model) or model[pos + 1] <= 0:
            continue
        m = model[pos] / model[pos + 1]
        if abs(m - val) <= 1e-9 * max(1.0, abs(m)) + 1e-12:
            obs[pos], obs[pos + 1] = model[pos], model[pos + 1]


def evaluate_cases(pid, cases, ctx, k_all_kinds=()):
    """Returns dict with mismatches (confirmed by K), counts."""
    res = dict(n=len(cases), x_mismatch=[], k_checked=0, k_mismatch=[], k_shards=0, answers={},
               backend_disagreement=[], log='')
    if not cases:
        return res
    # the wire carries integers only: a case whose encoding contains anything else (the implementation produced a
    # value outside the model's domain, e.g. a fractional CPU count) cannot agree with the model - it is a mismatch
    # of its own and is replaced by an empty probe so that the indices stay aligned
    odd = [i for i, c in enumerate(cases)
           if not all(type(x) is int for x in c['inp']) or not all(type(x) is int for x in c['obs'])]
    for i in odd:
        cases[i] = dict(cases[i], inp=[], obs=[-3], outside_domain=True)
    xs = C.run_x([(c['kind'], c['inp']) for c in cases])
    for i, c in enumerate(cases):
        adopt_float_slots(c, xs[i])
    xm = [i for i, c in enumerate(cases) if xs[i] != c['obs']]
    res['x_mismatch'] = xm
    for i in xm:
        res['answers'][i] = xs[i]
    # K: every X mismatch, the corpus, declared kinds in full, and a random sample
    chosen = set(xm[:200])   # every mismatch up to a cap: K confirms, it need not repeat thousands
    for i, c in enumerate(cases):
        if c.get('corpus') or c['kind'] in k_all_kinds or c.get('force_k'):
            chosen.add(i)
    rest = [i for i in range(len(cases)) if i not in chosen]
    k = max(50, len(cases) // 20)
    chosen.update(ctx.rng.sample(rest, min(k, len(rest))))
    by_kind = {}
    for i in sorted(chosen):
        by_kind.setdefault(cases[i]['kind'], []).append(i)
    kbad = []
    for kind, idxs in by_kind.items():
        bad, answers, nsh, log = C.run_k(kind, [(cases[i]['inp'], cases[i]['obs']) for i in idxs],
                                         f'{pid}/kind{kind}')
        res['k_shards'] += nsh
        res['log'] += log
        for b in bad:
            kbad.append(idxs[b])
            if b in answers:
                res['answers'][idxs[b]] = answers[b]
    res['k_checked'] = len(chosen)
    res['k_mismatch'] = sorted(kbad)
    res['backend_disagreement'] = sorted((set(xm) & chosen) ^ set(kbad))
    return res


def run_check(pid, tier):
    t0 = time.time()
    seed = int(os.environ.get('VERIF_SEED', '1'))
    ctx = Ctx(pid, tier, seed)
    mod = load(pid)
    failed = []          # obligations that no longer check: (kind, name, detail)
    obligations = 0

    # 1. build, hygiene, theorems, bridge
    hyg = C.hygiene()
    if hyg:
        failed.append(('hygiene', 'forbidden vernacular', '; '.join(hyg[:5])))
    ok, log = C.build_model()
    if not ok:
        print(log[-3000:])
        failed.append(('build', 'coq development does not build', log[-1500:]))
    th = C.check_theorems(pid) if ok else dict(ok=False, theorems=[], all_names=[], log='not built')
    obligations += max(1, len(th['theorems']))
    if ok and not th['ok']:
        failed.append(('theorem', f'Properties/{pid}.v', th['log'][-1500:]))
    ext_status = extract.main()
    from harness import execpins
    pins = execpins.obligations(pid)
    bridge_obs = list(getattr(mod, 'BRIDGE', [])) + pins
    bres = C.build_bridge(bridge_obs, getattr(mod, 'BRIDGE_IMPORTS', '') + (execpins.IMPORTS if pins else '')) \
        if ok and bridge_obs else []
    obligations += len(bridge_obs)
    pinned = {n for n, _, _ in pins}
    for name, bok, blog in bres:
        if not bok:
            if name in pinned:
                blog = 'source differs from the skeleton recorded in Model/ExecSrc.v: ' + execpins.first_difference(name)
            failed.append(('bridge', name, blog[-800:]))

    # 2. generate, drive the implementation, monitors
    out = dict(cases=[], hits=[], dist={}, rule='', exhaustive=False, samples=[])
    if ok:
        try:
            out.update(mod.run(ctx))
        except Exception:
            traceback.print_exc()
            failed.append(('harness', 'driver raised', traceback.format_exc()[-1500:]))
    cases = out['cases']
    kall = getattr(mod, 'K_ALL_KINDS', ())
    if callable(kall):
        kall = kall(ctx)
    empty_ev = dict(n=0, x_mismatch=[], k_checked=0, k_mismatch=[], k_shards=0, answers={},
                    backend_disagreement=[], log='')
    try:
        ev = evaluate_cases(pid, cases, ctx, kall) if ok else empty_ev
    except Exception:
        traceback.print_exc()
        failed.append(('harness', 'evaluation of the cases raised', traceback.format_exc()[-1500:]))
        ev = empty_ev
    obligations += ev['k_shards']
    if ev['backend_disagreement']:
        i = ev['backend_disagreement'][0]
        failed.append(('backend', 'back ends K and X disagree', json.dumps(cases[i].get('recipe'))[:500]))
    corr_bad = sorted(set(ev['k_mismatch']) | set(ev['x_mismatch']))
    for i in corr_bad[:1]:
        failed.append(('correspondence', f"kind {cases[i]['kind']} case {cases[i].get('gen')}",
                       'model answer differs from the implementation'))

    # 3. classify monitor hits
    findings, fixed = C.known_findings()
    known_lines, new_hits = [], []
    for h in out['hits']:
        f = match_known(pid, h, findings)
        if f:
            known_lines.append((f, h))
        else:
            new_hits.append(h)

    # 4. search when an obligation failed and the monitor is silent
    if failed and not new_hits and ok and hasattr(mod, 'search'):
        try:
            sctx = Ctx(pid, tier, seed + 7919)
            sctx.amplify = 4
            more = mod.search(sctx, [cases[i] for i in corr_bad[:20]], failed)
            for h in more:
                if not match_known(pid, h, findings):
                    new_hits.append(h)
        except Exception:
            traceback.print_exc()

    # 5. outcome
    violations = 0
    seen = set()
    for f, h in known_lines:
        if f['key'] in seen:
            continue
        seen.add(f['key'])
        print(f"KNOWN-FINDING: property={pid} {f['what']} [{h.get('desc', '')[:160]}]")
    exit_code = 0
    if new_hits:
        h = new_hits[0]
        p = C.write_replay(pid, dict(property=pid, kind='monitor', obligation=[f[:2] for f in failed],
                                     desc=h.get('desc'), signature=h.get('signature'), gen=h.get('gen'),
                                     seed=seed, recipe=h.get('recipe'), detail=h.get('detail')))
        print(f'VIOLATION property={pid} replay={p}')
        print('  ' + str(h.get('desc'))[:400])
        violations = len(new_hits)
        exit_code = 1
    elif failed:
        i = corr_bad[0] if corr_bad else None
        payload = dict(property=pid, kind='obligation', obligation=[list(f) for f in failed], seed=seed)
        if i is not None:
            payload.update(case=dict(kind=cases[i]['kind'], gen=cases[i].get('gen'), recipe=cases[i].get('recipe'),
                                     inp=cases[i]['inp'], observed=cases[i]['obs'],
                                     model=ev['answers'].get(i)))
        p = C.write_replay(pid, payload)
        for f in failed[:5]:
            print(f'  failed obligation: {f[0]}: {f[1]}' + (f' -- {f[2][:400]}' if 'Model/ExecSrc.v' in str(f[2]) else ''))
        print(f'VIOLATION property={pid} replay={p} no-failing-input-found')
        violations = 1
        exit_code = 1

    # 6. evidence
    discharged = obligations - len([f for f in failed if f[0] in ('theorem', 'bridge', 'correspondence')])
    nontrivial = out.get('distinct_nontrivial', len({json.dumps(c['inp']) for c in cases}))
    tb = [
        'Coq 8.16.1 kernel + vm_compute (no native_compute)',
        'Print Assumptions per theorem: ' + '; '.join(f'{n}: {a}' for n, a in th['theorems']) if th['theorems']
        else 'no theorem file output',
        'extractor harness/extract.py (Python ast, fail-closed) for bridge obligations: '
        + ', '.join(n for n, _, _ in bridge_obs),
        'correspondence harness (drivers, canonicaliser) and generator coverage (sampled unless exhaustive)',
        'back end X: Coq extraction with ' + '; '.join(C.extraction_directives())
        + '; Zarith; harness/ocaml/driver.ml; every X mismatch and a sample are re-evaluated by back end K',
        'CPython run without -O (all rejections are asserts)',
    ] + list(getattr(mod, 'TRUSTED', []))
    evd = dict(
        property_id=pid, tier=tier, seed=seed, level='proof',
        coverage=dict(
            obligations=obligations, discharged=max(0, discharged),
            checker_cmd=f'make -C /verif/coq && coqc Properties/{pid}.v && ./check {pid} {tier}',
            trusted_base=tb,
            theorems=[dict(name=n, assumptions=a) for n, a in th['theorems']],
            theorem_and_example_names=th.get('all_names', []),
            bridge=[dict(name=n, ok=b) for n, b, _ in bres],
            extractor_status=ext_status,
            evaluations=len(cases), distinct_nontrivial=nontrivial,
            rule=out.get('rule', ''), samples=out.get('samples', [])[:5] or [c.get('recipe') for c in cases[:2]],
            traces_validated_against_impl=len(cases),
            backend_x_cases=len(cases), backend_k_cases=ev['k_checked'], backend_k_shards=ev['k_shards'],
            correspondence_mismatches=len(corr_bad),
            monitor_hits_known=len(known_lines), monitor_hits_new=len(new_hits),
            distribution=out.get('dist', {}), exhaustive=bool(out.get('exhaustive', False)),
            failed_obligations=[list(f[:2]) for f in failed],
            repo=C.repo_fingerprint(),
        ),
        assumptions=list(getattr(mod, 'ASSUMPTIONS', [])),
        wall_s=round(time.time() - t0, 2), violations=violations)
    C.write_evidence(pid, evd)
    print(f'{pid} {tier}: obligations={obligations} discharged={max(0, discharged)} cases={len(cases)} '
          f'k_checked={ev["k_checked"]} mismatches={len(corr_bad)} known={len(known_lines)} '
          f'new_hits={len(new_hits)} wall={time.time() - t0:.1f}s')
    return exit_code


def run_replay(path):
    payload = json.loads(open(path).read())
    pid = payload['property']
    mod = load(pid)
    ok, log = C.build_model()
    recipe = payload.get('recipe') or (payload.get('case') or {}).get('recipe')
    if recipe is None:
        print('replay file names failed obligations only:', payload.get('obligation'))
        return 1
    case, hits = mod.replay(recipe)
    xs = C.run_x([(case['kind'], case['inp'])]) if case else [None]
    if case:
        adopt_float_slots(case, xs[0])
    agree = case is None or xs[0] == case['obs']
    print(f'replay {pid}: model and implementation agree: {agree}; monitor hits: {len(hits)}')
    for h in hits[:5]:
        print('  hit:', h.get('desc'))
    if not agree and case is not None:
        print('  observed:', case['obs'][:60])
        print('  model   :', (xs[0] or [])[:60])
    return 1 if (hits or not agree) else 0


def main(argv):
    if len(argv) >= 2 and argv[0] == 'replay':
        return run_replay(argv[1])
    if argv and argv[0] == 'setup':
        ok, log = C.build_model()
        print(log[-2000:])
        extract.main()
        return 0 if ok else 1
    pid = argv[0]
    tier = argv[1] if len(argv) > 1 else os.environ.get('VERIF_TIER', 'quick')
    return run_check(pid, tier)


if __name__ == '__main__':
    sys.exit(main(sys.argv[1:]))
