"""Extractor items for C13 (see extract.py): the float expressions of the trace replay and of the trace
generator, as normalised source text. Compared by the bridge obligation `trace_exprs` with the constant
of the same name in coq/Model/Trace.v, which is the text the model was transcribed from."""
import ast

from harness.extract import Fail, parse, find, strip_doc, src, coq_list, qstr
from harness.extract_more import stmts_containing


def while_tests(fn):
    out = [n for n in ast.walk(fn) if isinstance(n, ast.While)]
    if len(out) != 1:
        raise Fail(f'{fn.name}: expected exactly one while loop, found {len(out)}')
    return out[0]


def item_trace_exprs():
    w = parse('eudoxia/workload/workload.py')
    cls = find(w, ast.ClassDef, 'WorkloadTrace')
    out = []
    init = find(cls, ast.FunctionDef, '__init__')
    out += ['init: ' + s for s in stmts_containing(init, ['tick_length_secs', 'current_tick'])]
    nb = find(cls, ast.FunctionDef, 'get_next_batch_tick')
    out.append('get_next_batch_tick: ' + ' ; '.join(src(s) for s in strip_doc(nb.body)))
    rot = find(cls, ast.FunctionDef, 'run_one_tick')
    loop = while_tests(rot)
    out.append('run_one_tick: while ' + src(loop.test))
    out.append('run_one_tick: body ' + ' ; '.join(src(s) for s in loop.body))
    out += ['run_one_tick: ' + s for s in stmts_containing(rot, ['current_tick'])]
    c = parse('eudoxia/workload/csv_io.py')
    rd = find(c, ast.ClassDef, 'CSVWorkloadReader')
    ba = find(rd, ast.FunctionDef, 'batch_by_arrival')
    tests = [src(n.test) for n in sorted((n for n in ast.walk(ba) if isinstance(n, ast.If)), key=lambda n: n.lineno)]
    out += ['batch_by_arrival: if ' + t for t in tests]
    pr = find(rd, ast.FunctionDef, '_parse_row')
    out += ['_parse_row: ' + s for s in stmts_containing(pr, ['arrival_seconds ='])]
    gen = find(c, ast.ClassDef, 'WorkloadTraceGenerator')
    ginit = find(gen, ast.FunctionDef, '__init__')
    out += ['generator init: ' + s for s in stmts_containing(ginit, ['tick_length_secs', 'max_ticks'])]
    rows = find(gen, ast.FunctionDef, 'generate_rows')
    fors = [n for n in ast.walk(rows) if isinstance(n, ast.For)]
    if not fors:
        raise Fail('generate_rows: no for loop')
    outer = min(fors, key=lambda n: n.lineno)
    out.append('generate_rows: for ' + src(outer.target) + ' in ' + src(outer.iter))
    out += ['generate_rows: ' + s for s in stmts_containing(rows, ['arrival_seconds ='])]
    return 'list string', coq_list([qstr(s) + '%string' for s in out])


ITEMS = [
    ('trace_exprs', item_trace_exprs),
]
