"""Further extractor items (see extract.py): scaling laws, segment/container expressions, generator
prototype ladder, scheduler constants, CSV field list."""
import ast

from harness.extract import Fail, parse, find, find_assign, strip_doc, src, coq_list, num_q, qstr


def law_expr(node, env):
    if isinstance(node, ast.Name):
        if node.id == 'num_cpus':
            return 'LCpus'
        if node.id == 'baseline_cpu_seconds':
            return 'LBase'
        if node.id in env:
            return env[node.id]
        raise Fail('unknown name in scaling law: ' + node.id)
    if isinstance(node, ast.Constant) and isinstance(node.value, int) and not isinstance(node.value, bool):
        return f'(LConst {node.value})'
    if isinstance(node, ast.BinOp) and isinstance(node.op, ast.Div):
        return f'(LDiv {law_expr(node.left, env)} {law_expr(node.right, env)})'
    if isinstance(node, ast.BinOp) and isinstance(node.op, ast.Add):
        return f'(LAdd {law_expr(node.left, env)} {law_expr(node.right, env)})'
    if isinstance(node, ast.Call) and isinstance(node.func, ast.Attribute) and src(node.func.value) == 'np' \
            and not node.keywords:
        fn = node.func.attr
        if fn == 'log' and len(node.args) == 1:
            return f'(LLog {law_expr(node.args[0], env)})'
        if fn == 'sqrt' and len(node.args) == 1:
            return f'(LSqrt {law_expr(node.args[0], env)})'
        if fn == 'power' and len(node.args) == 2:
            return f'(LPow {law_expr(node.args[0], env)} {law_expr(node.args[1], env)})'
    raise Fail('unrecognised expression in scaling law: ' + src(node))


def lt_test(test):
    if isinstance(test, ast.Compare) and src(test.left) == 'num_cpus' and len(test.ops) == 1 \
            and isinstance(test.ops[0], ast.Lt) and isinstance(test.comparators[0], ast.Constant) \
            and isinstance(test.comparators[0].value, int):
        return test.comparators[0].value
    raise Fail('unrecognised test in scaling law: ' + src(test))


def law_body(fn):
    args = [a.arg for a in fn.args.args]
    if args != ['num_cpus', 'baseline_cpu_seconds']:
        raise Fail(f'{fn.name}: unexpected parameters {args}')
    env = {}
    body = strip_doc(fn.body)
    for i, st in enumerate(body):
        if isinstance(st, ast.Assign) and len(st.targets) == 1 and isinstance(st.targets[0], ast.Name):
            env[st.targets[0].id] = law_expr(st.value, env)
        elif isinstance(st, ast.If) and not st.orelse and len(st.body) == 1 and isinstance(st.body[0], ast.Assign) \
                and isinstance(st.body[0].targets[0], ast.Name):
            k = lt_test(st.test)
            name = st.body[0].targets[0].id
            if name not in env:
                raise Fail(f'{fn.name}: conditional assignment to an unset name')
            env[name] = f'(LIfLt {k} {law_expr(st.body[0].value, env)} {env[name]})'
        elif isinstance(st, ast.If) and len(st.body) == 1 and isinstance(st.body[0], ast.Return) \
                and len(st.orelse) == 1 and isinstance(st.orelse[0], ast.Return) and i == len(body) - 1:
            k = lt_test(st.test)
            return f'(LIfLt {k} {law_expr(st.body[0].value, env)} {law_expr(st.orelse[0].value, env)})'
        elif isinstance(st, ast.Return) and i == len(body) - 1:
            return law_expr(st.value, env)
        else:
            raise Fail(f'{fn.name}: unrecognised statement ' + src(st))
    raise Fail(f'{fn.name}: no return')


def scaling_funcs():
    t = parse('eudoxia/workload/pipeline.py')
    seg = find(t, ast.ClassDef, 'Segment')
    d = find_assign(seg.body, 'SCALING_FUNCS')
    if not isinstance(d, ast.Dict):
        raise Fail('SCALING_FUNCS is not a dict literal')
    sf = find(t, ast.ClassDef, 'ScalingFuncs')
    rows = []
    for k, v in zip(d.keys, d.values):
        if not (isinstance(k, ast.Constant) and isinstance(k.value, str)):
            raise Fail('SCALING_FUNCS key is not a string')
        if not (isinstance(v, ast.Attribute) and src(v.value) == 'ScalingFuncs'):
            raise Fail('SCALING_FUNCS value is not ScalingFuncs.<name>')
        rows.append((k.value, find(sf, ast.FunctionDef, v.attr)))
    return rows


def item_law_names():
    return 'list string', coq_list([qstr(n) + '%string' for n, _ in scaling_funcs()])


def item_law_bodies():
    return 'list (string * law_expr)', coq_list([f'({qstr(n)}%string, {law_body(fn)})' for n, fn in scaling_funcs()])


def stmts_containing(fn, needles):
    """normalised source of the simple statements of fn that mention one of the needles, in order"""
    out = []
    for n in ast.walk(fn):
        if isinstance(n, (ast.Assign, ast.AugAssign, ast.Return, ast.Expr)) and not \
                (isinstance(n, ast.Expr) and isinstance(n.value, ast.Constant)):
            s = src(n)
            if any(x in s for x in needles):
                out.append((n.lineno, s))
    return [s for _, s in sorted(out)]


def item_segment_exprs():
    t = parse('eudoxia/workload/pipeline.py')
    seg = find(t, ast.ClassDef, 'Segment')
    out = []
    for name in ('get_io_seconds', 'get_cpu_time', 'get_peak_memory_gb'):
        fn = find(seg, ast.FunctionDef, name)
        out.append(name + ': ' + ' ; '.join(src(s) for s in strip_doc(fn.body)))
    c = parse('eudoxia/executor/container.py')
    cls = find(c, ast.ClassDef, 'Container')
    gen = find(cls, ast.FunctionDef, '_tick_generator')
    out += ['tick: ' + s for s in stmts_containing(gen, ['tick_length_secs', 'DISK_SCAN_GB_SEC', 'seg_ticks',
                                                           'get_peak_memory_gb', 'memory_gb'])]
    init = find(cls, ast.FunctionDef, '__init__')
    out += ['init: ' + s for s in stmts_containing(init, ['tick_length_secs'])]
    sus = find(cls, ast.FunctionDef, 'suspend_container')
    out += ['suspend: ' + s for s in stmts_containing(sus, ['DISK_SCAN_GB_SEC', 'tick_length_secs', 'write_to_disk_ticks ='])]
    return 'list string', coq_list([qstr(s) + '%string' for s in out])


ITEMS = [
    ('law_names', item_law_names),
    ('law_bodies', item_law_bodies),
    ('segment_exprs', item_segment_exprs),
]


def _merge(modname):
    import importlib
    try:
        m = importlib.import_module(modname)
    except ImportError:
        return
    have = {n for n, _ in ITEMS}
    ITEMS.extend([it for it in m.ITEMS if it[0] not in have])


for _m in ('harness.extract_sched', 'harness.extract_c13', 'harness.extract_c14', 'harness.extract_c15', 'harness.extract_c19', 'harness.extract_c20',
           'harness.extract_exec'):
    _merge(_m)
