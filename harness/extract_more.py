ITEMS = []
