"""Shared scaffolding of the whole-simulation properties (C06 C08 C12 C16 C17 C18): G-sim streams,
per-round views of a recorded run, and helper predicates used by the monitors."""
import collections
from fractions import Fraction as F

from harness import simdrv as S


class Round:
    """what the scheduler saw and decided in tick t"""

    def __init__(self, run, t, d=None):
        r = run.r
        self.failed = d is not None           # the round whose execution raised (decisions known, no outcome)
        d = run.ticks[t] if d is None else d
        self.t = t
        self.d = d
        prev = run.ticks[t - 1] if t > 0 else None
        self.pools_before = prev['pools'] if prev else [
            dict(avail_cpu=r['cpu'], avail_ram=r['ram'], max_cpu=r['cpu'], max_ram=r['ram'], active=[], suspending=[],
                 suspended=[]) for _ in range(r['npools'])]
        self.results_in = prev['results'] if prev else []
        self.states_before = prev['states'] if prev else [0] * len(run.w.ops)
        self.pre = d['pre_states']            # after the scheduler phase (assigned operators are ASSIGNED)
        self.asg = d['asg']
        self.susp = d['susp']
        self.new = d['new']

    def free_after(self, pi):
        p = self.pools_before[pi]
        return (p['avail_cpu'] - sum(a[1] for a in self.asg if a[4] == pi),
                F(p['avail_ram']) - sum(F(a[2]) for a in self.asg if a[4] == pi))


def rounds(run):
    return [Round(run, t) for t in range(len(run.ticks))]


def failed_rounds(run):
    """the round in which the run raised, when the scheduler had already decided: its decisions and what it saw are
    known (`asg`, `susp`, `states_before`, `pools_before`, `results_in`), its outcome is not (`d['pools'] == []`,
    `pre` only when the executor had been entered). Monitors use it for rules about the decisions alone."""
    ep = getattr(run, 'err_pending', None)
    t = len(run.ticks)
    if not run.err or not ep or ep.get('asg_tick') != t:
        return []
    delivered = run.wl.delivered
    d = dict(susp=ep.get('susp', []), asg=ep.get('asg', []),
             pre_states=ep.get('pre_states') if ep.get('pre_tick') == t else None,
             results=[], pools=[], states=None, new=delivered[t] if t < len(delivered) else [], finished=[])
    return [Round(run, t, d)]


def pipe_of(run, op):
    w = run.w
    return max(i for i, f in enumerate(w.first) if f <= op)


def parents_done(run, sts, op):
    w = run.w
    return all(sts[w.gid[p]] == 4 for p in w.ops[op].parents)


def arrived(run, t):
    """pipelines that have arrived by tick t (inclusive), in arrival order"""
    return [k for (tk, k) in run.r['arrivals'] if tk <= t]


def first_assignments(run):
    """pipeline -> (tick, position in that round) of its first assignment"""
    first = {}
    for t, d in enumerate(run.ticks):
        for i, a in enumerate(d['asg']):
            if a[0]:
                k = pipe_of(run, a[0][0])
                first.setdefault(k, (t, i))
    return first


def stats_of(run, st):
    st['runs'] += 1
    st['algo_' + run.r['algo']] += 1
    st['ticks'] += len(run.ticks)
    st['runs_with_error'] += bool(run.err)
    for d in run.ticks:
        st['assignments'] += len(d['asg'])
        st['suspensions'] += len(d['susp'])
        st['results'] += len(d['results'])
        st['failures'] += sum(x['err'] for x in d['results'])
        st['multi_op_assignments'] += sum(len(a[0]) > 1 for a in d['asg'])
        st['pipelines_finished'] += len(d['finished'])
    st['pipelines'] += len(run.r['pipes'])
    st['zero_tick_runs'] += len(run.ticks) == 0


def run_streams(ctx, mask, monitor, signature, streams, known=None):
    """streams: list of (generator name, n_quick, n_thorough, gen kwargs). known(run, desc) may map a hit to a
    known-finding signature."""
    cases, hits = [], []
    st = collections.Counter()
    nt = set()
    for name, nq, nth, kw in streams:
        for i in range(ctx.budget(nq, nth)):
            rng = ctx.case_rng(name, i)
            if kw.get('saturate'):
                recipe = S.gen_saturate(rng, kw['saturate'], gen=name)
            elif kw.get('ppool_stuck'):
                recipe = S.gen_ppool_stuck(rng, gen=name)
            elif kw.get('twin_preempt'):
                recipe = S.gen_twin_preempt(rng, gen=name)
            elif kw.get('failbranch'):
                recipe = S.gen_failbranch(rng, kw['failbranch'], gen=name)
            elif kw.get('failready'):
                recipe = S.gen_failready(rng, kw['failready'], gen=name)
            elif kw.get('branches'):
                recipe = S.gen_branches(rng, kw['branches'], gen=name)
            elif kw.get('abandon'):
                recipe = S.gen_abandon(rng, gen=name, algo=kw['abandon'] if isinstance(kw['abandon'], str) else 'overbook')
            else:
                recipe = S.gen_sim(rng, gen=name, **kw)
            recipe['case_index'] = i
            if recipe['algo'] == 'priority-pool' and i % 6 == 1 and recipe['cpu'] >= 4:
                recipe['cpu'] = recipe['cpu'] + 1 if recipe['cpu'] % 2 == 0 else recipe['cpu']   # odd CPU counts: half of the pool is not an integer
            if i % 5 == 2:
                recipe['via_trace'] = 1       # every fifth run: the arrivals go through the real trace replayer
            if i % 4 == 3 and recipe['algo'] != 'rest':
                recipe['lean_sched'] = 1      # every fourth run: Scheduler built without the pool sizes in its kwargs
            case, run = S.drive(recipe, mask)
            cases.append(case)
            stats_of(run, st)
            for desc in monitor(run):
                sig = signature
                if known:
                    sig = known(run, desc) or signature
                hits.append(dict(desc=desc, signature=sig, recipe=recipe, gen=name))
                break
            if any(d['asg'] for d in run.ticks):
                nt.add(tuple(case['inp']))
    return dict(cases=cases, hits=hits, dist=dict(st), distinct_nontrivial=len(nt),
                samples=[{k: c['recipe'][k] for k in ('gen', 'algo', 'tps', 'npools', 'cpu', 'ram', 'multi', 'duration',
                                                      'pipes', 'arrivals')} for c in cases[:2]])


def replay(recipe, mask, monitor, signature):
    case, run = S.drive(recipe, mask)
    hits = []
    for desc in monitor(run):
        hits.append(dict(desc=desc, signature=signature, recipe=recipe, gen=recipe.get('gen')))
        break
    return case, hits
