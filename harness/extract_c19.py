"""Extractor items for C19 (see extract.py): the JSON keys that cross the REST bridge — emitted by the to_dict
methods, read by _parse_suspensions/_parse_assignments, declared as json tags in go/eudoxia/types.go — the
fields go/naive/main.go reads, and the normalised source of rest_init / rest_scheduler."""
import ast
import re

from harness import extract as E
from harness.extract import Fail, parse, find, strip_doc, src, coq_list, qstr


def cstr(s):
    return qstr(s) + '%string'


def strs(items):
    return 'list string', coq_list([cstr(s) for s in items])


def dict_keys(node, what):
    if not isinstance(node, ast.Dict):
        raise Fail(f'{what}: not a dict literal: ' + src(node)[:80])
    keys = []
    for k in node.keys:
        if not (isinstance(k, ast.Constant) and isinstance(k.value, str)):
            raise Fail(f'{what}: key is not a string literal')
        keys.append(k.value)
    return keys


def to_dict_keys(rel, cls_name):
    """keys of the single dict literal returned by <cls>.to_dict (the last statement must be that return)"""
    t = parse(rel)
    cls = find(t, ast.ClassDef, cls_name)
    fn = find(cls, ast.FunctionDef, 'to_dict')
    body = strip_doc(fn.body)
    rets = [n for n in ast.walk(fn) if isinstance(n, ast.Return)]
    if len(rets) != 1 or body[-1] is not rets[0]:
        raise Fail(f'{cls_name}.to_dict: expected exactly one return, as the last statement')
    # nothing may be added to the dict after the literal is built: the literal is returned directly
    return dict_keys(rets[0].value, f'{cls_name}.to_dict')


def rest_fn(name):
    return find(parse('eudoxia/scheduler/rest.py'), ast.FunctionDef, name)


def subscripts_of(fn, var):
    """string keys read as var["..."] inside fn, in source order, without repetitions"""
    out = []
    for n in ast.walk(fn):
        if isinstance(n, ast.Subscript) and isinstance(n.value, ast.Name) and n.value.id == var:
            if not (isinstance(n.slice, ast.Constant) and isinstance(n.slice.value, str)):
                raise Fail(f'{fn.name}: {var}[...] with a non-literal key')
            out.append((n.lineno, n.col_offset, n.slice.value))
    keys = []
    for _, _, k in sorted(out):
        if k not in keys:
            keys.append(k)
    return keys


def item_request_keys():
    fn = rest_fn('rest_scheduler')
    for st in fn.body:
        if isinstance(st, ast.Assign) and src(st.targets[0]) == 'payload':
            return strs(dict_keys(st.value, 'rest_scheduler payload'))
    raise Fail('rest_scheduler: payload = {...} not found')


def item_response_keys():
    return strs(subscripts_of(rest_fn('rest_scheduler'), 'response'))


def item_parse_suspension_keys():
    fn = rest_fn('_parse_suspensions')
    body = strip_doc(fn.body)
    if len(body) != 1 or not isinstance(body[0], ast.Return) or not isinstance(body[0].value, ast.ListComp):
        raise Fail('_parse_suspensions: not a single list comprehension')
    want = 'return [Suspend(container_id=s[\'container_id\'], pool_id=s[\'pool_id\']) for s in suspensions_json]'
    if src(body[0]) != want:
        raise Fail('_parse_suspensions: unrecognised body ' + src(body[0]))
    return strs(subscripts_of(fn, 's'))


def item_parse_assignment_keys():
    return strs(subscripts_of(rest_fn('_parse_assignments'), 'a'))


def item_parse_assignment_fields():
    """keyword -> expression of the Assignment(...) call in _parse_assignments, and the statement before it"""
    fn = rest_fn('_parse_assignments')
    loops = [n for n in strip_doc(fn.body) if isinstance(n, ast.For)]
    if len(loops) != 1 or src(loops[0].iter) != 'assignments_json' or src(loops[0].target) != 'a':
        raise Fail('_parse_assignments: expected one loop `for a in assignments_json`')
    rows = []
    for st in loops[0].body:
        if isinstance(st, ast.Assign) and isinstance(st.value, ast.Call) and src(st.value.func) == 'Assignment':
            if st.value.args:
                raise Fail('_parse_assignments: positional arguments in Assignment(...)')
            rows += [f'{k.arg}={src(k.value)}' for k in st.value.keywords]
        else:
            rows.append(src(st))
    return strs(rows)


DROP = ('timing_', 'perf_counter', 'logger.')


def skeleton(fn):
    out = []
    for st in strip_doc(fn.body):
        s = src(st)
        if isinstance(st, ast.Assign) and src(st.targets[0]) == 'payload' and isinstance(st.value, ast.Dict):
            s = 'payload = {' + ', '.join(f"{src(k)}: {src(v)}" for k, v in zip(st.value.keys, st.value.values)) + '}'
            # long: split per entry so that nothing is cut
            out.append('payload = {')
            out += [f'{src(k)}: {src(v)}' for k, v in zip(st.value.keys, st.value.values)]
            out.append('}')
            continue
        if isinstance(st, ast.Return) and isinstance(st.value, ast.Dict):
            out.append('return {')
            out += [f'{src(k)}: {src(v)}' for k, v in zip(st.value.keys, st.value.values)]
            out.append('}')
            continue
        if any(d in s for d in DROP):
            # timing / logging statements: must not touch the scheduling state
            if isinstance(st, ast.If):
                names = {src(t) for n in ast.walk(st) if isinstance(n, (ast.Assign, ast.AugAssign))
                         for t in (n.targets if isinstance(n, ast.Assign) else [n.target])}
                if any(n.startswith('s.') for n in names):
                    raise Fail(f'{fn.name}: logging block assigns {sorted(names)}')
                continue
            if isinstance(st, (ast.Assign, ast.AugAssign)):
                tgt = src(st.targets[0] if isinstance(st, ast.Assign) else st.target)
                if tgt in ('t0', 't1', 't2', 't3') or tgt.startswith('s.timing_'):
                    continue
            if isinstance(st, ast.Expr) and s.startswith('logger.'):
                continue
            raise Fail(f'{fn.name}: unclassified timing/logging statement ' + s[:80])
        for line in flat(st, 0):
            if len(line) > 190:
                raise Fail(f'{fn.name}: statement too long to compare: ' + line[:60])
            out.append(line)
    return out


def flat(st, depth):
    """a statement as lines: compound statements (for / if) are split into header and indented body"""
    pad = '. ' * depth
    if isinstance(st, ast.For) and not st.orelse:
        out = [f'{pad}for {src(st.target)} in {src(st.iter)}:']
        for b in st.body:
            out += flat(b, depth + 1)
        return out
    if isinstance(st, ast.If):
        out = [f'{pad}if {src(st.test)}:']
        for b in st.body:
            out += flat(b, depth + 1)
        if st.orelse:
            out.append(f'{pad}else:')
            for b in st.orelse:
                out += flat(b, depth + 1)
        return out
    if isinstance(st, (ast.While, ast.Try, ast.With, ast.FunctionDef, ast.For)):
        raise Fail('unsupported compound statement: ' + src(st)[:60])
    return [pad + src(st)]


def item_rest_scheduler_src():
    return strs(skeleton(rest_fn('rest_scheduler')))


def item_rest_init_src():
    return strs(skeleton(rest_fn('rest_init')))


def to_dict_src(rel, cls_name):
    def fn():
        t = parse(rel)
        return strs(skeleton(find(find(t, ast.ClassDef, cls_name), ast.FunctionDef, 'to_dict')))
    return fn


# --- Go: textual

def go_structs():
    text = (E.REPO / 'go/eudoxia/types.go').read_text()
    text = re.sub(r'//[^\n]*', '', text)
    out = {}
    for m in re.finditer(r'type\s+(\w+)\s+struct\s*\{\n(.*?)\n\}', text, flags=re.S):
        fields = []
        for line in m.group(2).splitlines():
            line = line.strip()
            if not line:
                continue
            f = re.fullmatch(r'(\w+)\s+(\S+)\s+`json:"([^",]+)"`', line)
            if not f:
                raise Fail(f'types.go: unrecognised field line in {m.group(1)}: {line}')
            fields.append((f.group(1), f.group(2), f.group(3)))
        out[m.group(1)] = fields
    if not out:
        raise Fail('types.go: no struct found')
    return out


def go_tags(name):
    def fn():
        s = go_structs()
        if name not in s:
            raise Fail(f'types.go: struct {name} not found')
        return strs([tag for _, _, tag in s[name]])
    return fn


def item_go_pointer_fields():
    rows = []
    for name, fields in go_structs().items():
        for _, ty, tag in fields:
            if ty.startswith('*'):
                rows.append(f'({cstr(name)}, {cstr(tag)})')
    return 'list (string * string)', coq_list(rows)


def item_py_none_default_fields():
    """serialised values whose attribute defaults to None in the Python classes"""
    rows = []
    t = parse('eudoxia/workload/runtime_status.py')
    init = find(find(t, ast.ClassDef, 'PipelineRuntimeStatus'), ast.FunctionDef, '__init__')
    pt = parse('eudoxia/workload/pipeline.py')
    pd = find(find(pt, ast.ClassDef, 'Pipeline'), ast.FunctionDef, 'to_dict')
    ret = [n for n in ast.walk(pd) if isinstance(n, ast.Return)][0].value
    for k, v in zip(ret.keys, ret.values):
        if isinstance(v, ast.Attribute) and src(v.value) == 'runtime':
            for st in ast.walk(init):
                if isinstance(st, (ast.Assign, ast.AnnAssign)):
                    tgt = st.targets[0] if isinstance(st, ast.Assign) else st.target
                    if src(tgt) == f'self.{v.attr}' and isinstance(st.value, ast.Constant) and st.value.value is None:
                        rows.append(f'({cstr("Pipeline")}, {cstr(k.value)})')
    at = parse('eudoxia/executor/assignment.py')
    cls = find(at, ast.ClassDef, 'ExecutionResult')
    init = find(cls, ast.FunctionDef, '__init__')
    args = init.args.args
    defaults = dict(zip([a.arg for a in args[len(args) - len(init.args.defaults):]], init.args.defaults))
    ret = [n for n in ast.walk(find(cls, ast.FunctionDef, 'to_dict')) if isinstance(n, ast.Return)][0].value
    for k, v in zip(ret.keys, ret.values):
        if isinstance(v, ast.Attribute) and src(v.value) == 'self' and v.attr in defaults:
            d = defaults[v.attr]
            if isinstance(d, ast.Constant) and d.value is None:
                if src(find_self_assign(init, v.attr)) != v.attr:
                    raise Fail(f'ExecutionResult.__init__: self.{v.attr} is not the parameter')
                rows.append(f'({cstr("ExecutionResult")}, {cstr(k.value)})')
    return 'list (string * string)', coq_list(rows)


def find_self_assign(fn, attr):
    for st in fn.body:
        if isinstance(st, ast.Assign) and src(st.targets[0]) == f'self.{attr}':
            return st.value
    raise Fail(f'self.{attr} not assigned')


def item_go_field_names():
    return strs(sorted({f'{name}.{fld}' for name, fields in go_structs().items() for fld, _, _ in fields}))


def item_go_naive_fields():
    """<Struct>.<Field> selectors that go/naive/main.go reads or writes on the wire types"""
    text = (E.REPO / 'go/naive/main.go').read_text()
    text = re.sub(r'//[^\n]*', '', text)
    var_types = {'req': 'ScheduleRequest', 'pool': 'Pool', 'pipeline': 'Pipeline', 'op': 'Operator'}
    out = set()
    for v, ty in var_types.items():
        for m in re.finditer(r'\b' + v + r'\.([A-Z]\w*)', text):
            out.add(f'{ty}.{m.group(1)}')
    for m in re.finditer(r'eudoxia\.(\w+)\{(.*?)\n\t*\}', text, flags=re.S):
        for f in re.finditer(r'^\s*([A-Z]\w*):', m.group(2), flags=re.M):
            out.add(f'{m.group(1)}.{f.group(1)}')
    if not out:
        raise Fail('main.go: no field selector found')
    return strs(sorted(out))


ITEMS = [
    ('rest_request_keys', item_request_keys),
    ('rest_response_keys', item_response_keys),
    ('pipeline_to_dict_keys', lambda: strs(to_dict_keys('eudoxia/workload/pipeline.py', 'Pipeline'))),
    ('operator_to_dict_keys', lambda: strs(to_dict_keys('eudoxia/workload/pipeline.py', 'Operator'))),
    ('pool_to_dict_keys', lambda: strs(to_dict_keys('eudoxia/executor/resource_pool.py', 'ResourcePool'))),
    ('container_to_dict_keys', lambda: strs(to_dict_keys('eudoxia/executor/container.py', 'Container'))),
    ('result_to_dict_keys', lambda: strs(to_dict_keys('eudoxia/executor/assignment.py', 'ExecutionResult'))),
    ('parse_suspension_keys', item_parse_suspension_keys),
    ('parse_assignment_keys', item_parse_assignment_keys),
    ('parse_assignment_fields', item_parse_assignment_fields),
    ('rest_scheduler_src', item_rest_scheduler_src),
    ('rest_init_src', item_rest_init_src),
    ('operator_to_dict_src', to_dict_src('eudoxia/workload/pipeline.py', 'Operator')),
    ('pipeline_to_dict_src', to_dict_src('eudoxia/workload/pipeline.py', 'Pipeline')),
    ('go_pointer_fields', item_go_pointer_fields),
    ('py_none_default_fields', item_py_none_default_fields),
    ('go_field_names', item_go_field_names),
    ('go_naive_fields', item_go_naive_fields),
] + [(f'go_tags_{n}', go_tags(n)) for n in
     ('ScheduleRequest', 'ScheduleResponse', 'Pipeline', 'Operator', 'Pool', 'Container', 'Assignment',
      'Suspension', 'ExecutionResult')]
