"""Extractor items for the hand-transcribed executor layer (resource pool, container, executor, assignments, DAG
iterator, runtime status queries, the run_simulator loop, the trace replayer): the STATEMENT SKELETON of every function
the model transcribes — each simple statement as normalised source text, each compound statement as its header, with
its nesting depth, in source order. Docstrings, comments, logging calls, `pass`, type annotations of signatures and the
message of an `assert` are not part of the skeleton. Bridge obligations compare these lists with the ones recorded in
coq/Model/ExecSrc.v, next to which Model/{Pool,Container,Executor,Dag,Lifecycle,Simulator,Trace}.v were transcribed:
an edit to any of these functions that changes a statement breaks the obligation of every property anchored there
(the check then searches for a failing input and, finding none, still reports `no-failing-input-found`).
tools/mk_execsrc.py regenerates ExecSrc.v after a reviewed change of the source."""
import ast

from harness.extract import Fail, parse, find, src, coq_list, qstr, strip_doc


def is_logging(stmt):
    """a logging / print statement whose arguments contain no call, walrus, yield or await at all (names, attributes,
    subscripts, constants and f-strings of those): anything else stays in the skeleton"""
    if isinstance(stmt, ast.Expr) and isinstance(stmt.value, ast.Call):
        f = stmt.value.func
        if not (isinstance(f, ast.Attribute) and isinstance(f.value, ast.Name) and f.value.id in ('logger', 'logging')
                and f.attr in ('debug', 'info', 'warning', 'error', 'critical', 'exception')) and \
                not (isinstance(f, ast.Name) and f.id == 'print'):
            return False
        for a in list(stmt.value.args) + [k.value for k in stmt.value.keywords]:
            for n in ast.walk(a):
                if isinstance(n, (ast.Call, ast.NamedExpr, ast.Yield, ast.YieldFrom, ast.Await, ast.BinOp)) and \
                        not (isinstance(n, ast.BinOp) and isinstance(n.op, (ast.Add, ast.Mod))):
                    return False
        return True
    return False


def skeleton(body, depth=0):
    out = []

    def emit(text):
        out.append(f'{depth}| {text}')
    for st in strip_doc(body):
        if is_logging(st) or isinstance(st, ast.Pass):
            continue
        if isinstance(st, ast.If):
            emit('if ' + src(st.test))
            out.extend(skeleton(st.body, depth + 1))
            if st.orelse:
                emit('else')
                out.extend(skeleton(st.orelse, depth + 1))
        elif isinstance(st, ast.While):
            emit('while ' + src(st.test))
            out.extend(skeleton(st.body, depth + 1))
            if st.orelse:
                emit('else')
                out.extend(skeleton(st.orelse, depth + 1))
        elif isinstance(st, ast.For):
            emit(f'for {src(st.target)} in {src(st.iter)}')
            out.extend(skeleton(st.body, depth + 1))
            if st.orelse:
                emit('else')
                out.extend(skeleton(st.orelse, depth + 1))
        elif isinstance(st, ast.Try):
            emit('try')
            out.extend(skeleton(st.body, depth + 1))
            for h in st.handlers:
                emit('except ' + (src(h.type) if h.type else ''))
                out.extend(skeleton(h.body, depth + 1))
            if st.orelse:
                emit('else')
                out.extend(skeleton(st.orelse, depth + 1))
            if st.finalbody:
                emit('finally')
                out.extend(skeleton(st.finalbody, depth + 1))
        elif isinstance(st, ast.With):
            emit('with ' + ', '.join(src(i) for i in st.items))
            out.extend(skeleton(st.body, depth + 1))
        elif isinstance(st, ast.Assert):
            emit('assert ' + src(st.test))
        elif isinstance(st, ast.AnnAssign):
            emit(src(st.target) + ((' = ' + src(st.value)) if st.value is not None else ''))
        elif isinstance(st, ast.FunctionDef):
            emit(f'def {st.name}({args_of(st)})' + ''.join(' @' + src(d) for d in st.decorator_list))
            out.extend(skeleton(st.body, depth + 1))
        elif isinstance(st, ast.ClassDef):
            emit(f'class {st.name}({", ".join(src(b) for b in st.bases)})')
            out.extend(skeleton(st.body, depth + 1))
        elif isinstance(st, (ast.Assign, ast.AugAssign, ast.Expr, ast.Return, ast.Raise, ast.Break, ast.Continue,
                             ast.Delete, ast.Global, ast.Nonlocal, ast.Import, ast.ImportFrom)):
            emit(src(st))
        else:
            raise Fail('statement outside the skeleton subset: ' + type(st).__name__)
    return out


def args_of(fn):
    a = fn.args
    names = [x.arg for x in a.posonlyargs + a.args]
    defaults = [None] * (len(names) - len(a.defaults)) + list(a.defaults)
    parts = [n if d is None else f'{n}={src(d)}' for n, d in zip(names, defaults)]
    if a.posonlyargs:
        parts.insert(len(a.posonlyargs), '/')
    if a.vararg:
        parts.append('*' + a.vararg.arg)
    elif a.kwonlyargs:
        parts.append('*')
    for k, d in zip(a.kwonlyargs, a.kw_defaults):
        parts.append(k.arg if d is None else f'{k.arg}={src(d)}')
    if a.kwarg:
        parts.append('**' + a.kwarg.arg)
    return ', '.join(parts)


def fn_skeleton(tree, cls, name):
    scope = find(tree, ast.ClassDef, cls) if cls else tree
    fns_ = [n for n in scope.body if isinstance(n, ast.FunctionDef) and n.name == name]
    if len(fns_) > 1:
        raise Fail(f'{cls + "." if cls else ""}{name} defined {len(fns_)} times')
    fn = fns_[0] if fns_ else None
    if fn is None:
        raise Fail(f'{cls + "." if cls else ""}{name} not found')
    head = f'{cls + "." if cls else ""}{name}({args_of(fn)})'
    deco = [src(d) for d in fn.decorator_list]
    return [head + (' @' + ','.join(deco) if deco else '')] + skeleton(fn.body, 1)


def class_shape(tree, cls):
    """bases, decorators, metaclass and the BODY of a class in order: the names of its methods and nested classes and
    every other statement (class attributes, conditional definitions, arithmetic on counters). A name defined twice in
    the class, or a class defined twice in the module, fails the extraction"""
    found = [n for n in ast.walk(tree) if isinstance(n, ast.ClassDef) and n.name == cls]
    if len(found) != 1:
        raise Fail(f'class {cls} defined {len(found)} times')
    c = found[0]
    names = [n.name for n in c.body if isinstance(n, (ast.FunctionDef, ast.AsyncFunctionDef, ast.ClassDef))]
    if len(names) != len(set(names)):
        raise Fail(f'class {cls}: a member is defined twice')
    kw = ', '.join(f'{k.arg}={src(k.value)}' for k in c.keywords)
    out = [f'class {cls}({", ".join(src(b) for b in c.bases)}{", " + kw if kw else ""})'
           + ''.join(' @' + src(d) for d in c.decorator_list)]
    for n in strip_doc(c.body):
        if isinstance(n, (ast.FunctionDef, ast.AsyncFunctionDef)):
            out.append(f'{cls}: def {n.name}' + ''.join(' @' + src(d) for d in n.decorator_list))
        elif isinstance(n, ast.ClassDef):
            out.append(f'{cls}: class {n.name}')
        elif is_logging(n) or isinstance(n, ast.Pass):
            continue
        else:
            out.extend(f'{cls}: ' + x.split('| ', 1)[1] for x in skeleton([n], 0))
    return out


def module_statements(tree):
    """everything at module level that is not a def, a class or a docstring: imports (aliasing), constants,
    rebinding of attributes (`ResourcePool.run_one_tick = f`), decorator registrations"""
    out = []
    top = [n.name for n in tree.body if isinstance(n, (ast.FunctionDef, ast.AsyncFunctionDef, ast.ClassDef))]
    if len(top) != len(set(top)):
        raise Fail('a module-level name is defined twice')
    for n in strip_doc(tree.body):
        if isinstance(n, (ast.FunctionDef, ast.AsyncFunctionDef)):
            out.append(f'module: def {n.name}' + ''.join(' @' + src(d) for d in n.decorator_list))
            continue
        if isinstance(n, ast.ClassDef):
            out.append(f'module: class {n.name}')
            continue
        if is_logging(n):
            continue
        if isinstance(n, ast.Assign) and isinstance(n.value, ast.Constant) and isinstance(n.value.value, str) \
                and len(n.value.value) > 400:
            out.append(f'module: {src(n.targets[0])} = <string of {len(n.value.value)} characters, lines follow>')
            out.extend('template: ' + ln for ln in n.value.value.splitlines() if ln.strip())   # the scheduler template
            continue
        out.extend('module: ' + x.split('| ', 1)[1] for x in skeleton([n], 0))
    return out


def class_consts(tree, cls):
    """class-level assignments (counters, constants) of a class"""
    c = find(tree, ast.ClassDef, cls)
    return [f'{cls}: {src(n)}' for n in strip_doc(c.body) if isinstance(n, (ast.Assign, ast.AnnAssign))]


def module_consts(tree):
    return [f'module: {src(n)}' for n in tree.body
            if isinstance(n, ast.Assign) and isinstance(n.targets[0], ast.Name) and n.targets[0].id.isupper()]


def src_item(rel, fns, classes=(), consts=False):
    def item():
        tree = parse(rel)
        out = module_statements(tree)
        for c in sorted({cls for cls, _ in fns if cls} | set(classes)):
            out += class_shape(tree, c)
        for c in classes:
            out += class_consts(tree, c)
        for cls, name in fns:
            out += fn_skeleton(tree, cls, name)
        return 'list string', coq_list([qstr(s) + '%string' for s in chunked(out)])
    return item


def chunked(lines, width=180):
    """qstr keeps 200 characters of a string: a longer statement is continued on lines starting with `..`"""
    out = []
    for s in lines:
        out.append(s[:width])
        for k in range(width, len(s), width):
            out.append('.. ' + s[k:k + width])
    return out


SPEC = [
    ('exec_pool', 'eudoxia/executor/resource_pool.py',
     [('ResourcePool', n) for n in ('__init__', 'verify_valid_assignment', 'get_container_by_id', 'verify_valid_suspend',
                                    'get_allocated_ram_gb', 'get_consumed_ram_gb', '_reconcile_consumed_ram',
                                    '_run_out_of_memory_killer', 'run_one_tick')], ('ResourcePool',), True),
    ('exec_container', 'eudoxia/executor/container.py',
     [('Container', n) for n in ('__init__', 'operators', 'pool_id', 'priority', '_tick_generator', 'tick',
                                 'ticks_elapsed', '_mark_completed', 'is_completed', 'get_current_memory_usage',
                                 'set_current_memory_usage', 'kill', 'can_suspend_container', 'suspend_container',
                                 'suspend_container_tick', 'is_suspended')], ('Container',), True),
    ('exec_executor', 'eudoxia/executor/executor.py',
     [('Executor', n) for n in ('__init__', 'num_completed', 'container_tick_times', 'get_total_ram_gb',
                                'get_allocated_ram_gb', 'get_consumed_ram_gb', 'run_one_tick')], ('Executor',), True),
    ('exec_assignment', 'eudoxia/executor/assignment.py',
     [('Suspend', '__init__'), ('ExecutionResult', '__init__'), ('ExecutionResult', 'failed'),
      ('Assignment', '__init__')], (), True),
    ('dag_iter', 'eudoxia/utils/dag.py',
     [('Node', '__init__'), ('DAG', '__init__'), ('DAG', '__len__'), ('DAG', '__iter__'), ('DAG', 'add_node'),
      ('DAGIterator', '__init__'), ('DAGIterator', '__iter__'), ('DAGIterator', '__next__')], (), False),
    ('status_queries', 'eudoxia/workload/runtime_status.py',
     [('PipelineRuntimeStatus', n) for n in ('__init__', 'record_arrival', 'is_pipeline_successful', 'record_finish',
                                             'get_latency_ticks', 'get_ops')], (), False),
    ('pipeline_glue', 'eudoxia/workload/pipeline.py',
     [('Operator', '__init__'), ('Operator', 'add_segment'), ('Operator', 'get_segments'), ('Operator', 'transition'),
      ('Operator', 'state'), ('Pipeline', '__init__'), ('Pipeline', 'runtime_status'), ('Pipeline', 'new_operator')],
     (), False),
    ('sim_loop', 'eudoxia/simulator.py',
     [(None, 'compute_pipeline_stats'), (None, 'parse_args_with_defaults'), (None, 'run_simulator')], (), False),
    ('csv_io', 'eudoxia/workload/csv_io.py',
     [('CSVWorkloadReader', n) for n in ('__init__', 'batch_by_arrival', 'batch_by_pipeline',
                                         'create_pipeline_from_batch', '_parse_row')] +
     [('CSVWorkloadWriter', '__init__'), ('CSVWorkloadWriter', 'write_row'), ('WorkloadTraceGenerator', '__init__'),
      ('WorkloadTraceGenerator', '_pipeline_to_rows'), ('WorkloadTraceGenerator', 'generate_rows')], (), False),
    ('param_defaults', 'eudoxia/simulator.py', [(None, 'get_param_defaults')], (), False),
    ('sched_registry', 'eudoxia/scheduler/decorators.py',
     [(None, 'register_scheduler_init'), (None, 'register_scheduler')], (), True),
    ('segment_class', 'eudoxia/workload/pipeline.py',
     [('Segment', n) for n in ('__init__', 'get_io_seconds', 'get_cpu_time', 'get_peak_memory_gb', 'get_seconds_until_oom')],
     ('Segment',), False),
    ('workload_base', 'eudoxia/workload/workload.py',
     [('WorkloadReader', 'get_workload'), ('WorkloadReader', 'batch_by_arrival')], ('PipelineArrival',), False),
    ('to_dicts', 'eudoxia/executor/container.py', [('Container', 'get_pipeline_id'), ('Container', 'to_dict')], (), False),
    ('to_dicts_pool', 'eudoxia/executor/resource_pool.py', [('ResourcePool', 'status_report'), ('ResourcePool', 'to_dict')],
     (), False),
    ('to_dicts_result', 'eudoxia/executor/assignment.py', [('ExecutionResult', 'to_dict')], (), False),
    ('cli_run', 'eudoxia/__main__.py', [(None, 'run_command'), (None, 'gentrace_command')], (), False),
    ('cli_main', 'eudoxia/__main__.py', [(None, 'main'), (None, 'mkregression_command'), (None, 'init_command')], (), False),
    ('tools_cli', 'eudoxia/tools.py',
     [(None, 'snap_command'), (None, 'jitter_command'), (None, 'sensitivity_command'), (None, '_sensitivity_task'),
      (None, 'sensitivity_sample_command')], (), False),
    ('sched_wrapper', 'eudoxia/scheduler/scheduler.py', [('Scheduler', '__init__'), ('Scheduler', 'run_one_tick')],
     (), False),
    ('waiting_queue', 'eudoxia/scheduler/waiting_queue.py', [('WaitingQueueJob', '__init__')], ('RetryStats',), False),
    ('workload_gen', 'eudoxia/workload/workload.py',
     [('WorkloadGenerator', n) for n in ('__init__', 'generate_query_segment', 'generate_segment_not_heavy_io',
                                         'generate_segment', 'generate_segment_from_val', 'generate_pipelines',
                                         'run_one_tick')], (), False),
    ('trace_replay', 'eudoxia/workload/workload.py',
     [('WorkloadTrace', n) for n in ('__init__', 'advance_to_next_batch', 'get_next_batch_tick', 'run_one_tick')],
     (), False),
]

def whole_module_item(rels):
    """small glue modules (package __init__ files, constants, the Priority enum): every statement, class bodies included"""
    def item():
        out = []
        for rel in rels:
            tree = parse(rel)
            out.append(f'file: {rel}')
            out += module_statements(tree)
            for n in tree.body:
                if isinstance(n, ast.ClassDef):
                    out += class_shape(tree, n.name)
                    for m in n.body:
                        if isinstance(m, ast.FunctionDef):
                            out += fn_skeleton(tree, n.name, m.name)
                elif isinstance(n, ast.FunctionDef):
                    out += fn_skeleton(tree, None, n.name)
        return 'list string', coq_list([qstr(s) + '%string' for s in chunked(out)])
    return item


SCHED_FULL = [
    ('sched_naive_full', 'eudoxia/scheduler/naive.py', ['naive_pipeline_init', 'naive_pipeline']),
    ('sched_priority_full', 'eudoxia/scheduler/priority.py',
     ['init_priority_scheduler', 'get_pool_with_max_avail_ram', 'priority_scheduler']),
    ('sched_ppool_full', 'eudoxia/scheduler/priority_pool.py', ['init_priority_pool_scheduler', 'priority_pool_scheduler']),
    ('sched_overbook_full', 'eudoxia/scheduler/overbook.py',
     ['overbook_init', 'overbook_scheduler', 'update_state', 'try_make_assignment', 'make_assignments', 'only']),
    ('sched_rest_full', 'eudoxia/scheduler/rest.py', ['rest_init', 'rest_scheduler', '_parse_suspensions', '_parse_assignments']),
]

ITEMS = [(name, src_item(rel, fns, classes, consts)) for name, rel, fns, classes, consts in SPEC]
ITEMS += [(name, src_item(rel, [(None, f) for f in fns], (), False)) for name, rel, fns in SCHED_FULL]
ITEMS += [('glue_modules', whole_module_item(['eudoxia/__init__.py', 'eudoxia/executor/__init__.py',
                                              'eudoxia/scheduler/__init__.py', 'eudoxia/utils/__init__.py',
                                              'eudoxia/workload/__init__.py', 'eudoxia/utils/consts.py',
                                              'eudoxia/utils/utils.py']))]
