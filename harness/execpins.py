"""Source pins of the hand-transcribed executor layer (harness/extract_exec.py, coq/Model/ExecSrc.v): which recorded
statement skeletons each property's model rests on. harness/check.py adds one bridge obligation per pin to the
property's own BRIDGE list."""
import re

from harness import common as C

PINS = {
    'C01': ['dag_iter', 'status_queries', 'pipeline_glue', 'exec_container', 'glue_modules'],
    'C02': ['status_queries', 'pipeline_glue', 'exec_assignment', 'exec_container', 'glue_modules'],
    'C03': ['exec_pool', 'exec_executor', 'exec_assignment', 'glue_modules'],
    'C04': ['exec_pool', 'exec_container', 'segment_class', 'glue_modules'],
    'C05': ['exec_container', 'segment_class', 'glue_modules'],
    'C06': ['sim_loop', 'status_queries', 'exec_executor', 'exec_pool', 'exec_container', 'exec_assignment', 'glue_modules', 'sched_wrapper'],
    'C07': ['sim_loop', 'exec_executor', 'exec_container', 'param_defaults', 'sched_registry', 'workload_gen', 'exec_pool', 'exec_assignment', 'glue_modules', 'sched_naive_full', 'sched_priority_full', 'sched_ppool_full', 'sched_overbook_full'],
    'C08': ['sim_loop', 'dag_iter', 'exec_executor', 'param_defaults', 'sched_registry', 'workload_gen', 'sched_wrapper', 'exec_pool', 'exec_container', 'exec_assignment', 'glue_modules', 'sched_naive_full', 'sched_priority_full', 'sched_ppool_full', 'sched_overbook_full', 'cli_main'],
    'C09': ['exec_pool', 'exec_executor', 'exec_assignment', 'exec_container', 'glue_modules'],
    'C10': ['exec_pool', 'exec_container', 'glue_modules', 'sched_priority_full'],
    'C11': ['exec_pool', 'exec_container', 'glue_modules'],
    'C12': ['status_queries', 'sched_wrapper', 'waiting_queue', 'exec_pool', 'exec_container', 'exec_assignment', 'glue_modules', 'sim_loop', 'exec_executor', 'sched_priority_full', 'sched_ppool_full'],
    'C13': ['trace_replay', 'csv_io', 'cli_run', 'workload_base', 'sim_loop', 'cli_main', 'glue_modules'],
    'C14': ['trace_replay', 'csv_io', 'segment_class', 'workload_base', 'glue_modules'],
    'C15': ['workload_gen', 'glue_modules'],
    'C20': ['cli_main', 'tools_cli', 'glue_modules'],
    'C16': ['status_queries', 'sched_wrapper', 'waiting_queue', 'exec_pool', 'exec_container', 'exec_assignment', 'glue_modules', 'sim_loop', 'exec_executor', 'sched_ppool_full'],
    'C17': ['status_queries', 'sched_wrapper', 'exec_pool', 'exec_container', 'exec_assignment', 'glue_modules', 'sim_loop', 'exec_executor', 'sched_naive_full'],
    'C18': ['status_queries', 'sched_wrapper', 'exec_pool', 'exec_container', 'exec_assignment', 'glue_modules', 'sim_loop', 'exec_executor', 'sched_overbook_full'],
    'C19': ['sim_loop', 'sched_wrapper', 'exec_pool', 'exec_container', 'exec_assignment', 'to_dicts', 'to_dicts_pool', 'to_dicts_result', 'glue_modules', 'sched_rest_full'],
}
IMPORTS = 'From Eudoxia Require Import Model.ExecSrc.\n'


def obligations(pid):
    return [(n, f'ext_{n} = {n}_src', 'reflexivity.') for n in PINS.get(pid, [])]


def recorded(name):
    text = (C.COQ / 'Model/ExecSrc.v').read_text()
    m = re.search(r'Definition ' + name + r'_src : list string :=\s*\[(.*?)\]\.\n', text, re.S)
    return re.findall(r'"((?:[^"]|"")*)"', m.group(1)) if m else None


def first_difference(name):
    """human-readable first difference between the source and the recorded skeleton (for the failure log)"""
    from harness import extract_exec as E
    try:
        ty, val = dict(E.ITEMS)[name]()
    except Exception as e:   # noqa
        return f'extraction failed: {e}'
    now = re.findall(r'"((?:[^"]|"")*)"%string', val)
    rec = recorded(name)
    if rec is None:
        return 'no recorded skeleton'
    for i, (a, b) in enumerate(zip(now, rec)):
        if a != b:
            return f'statement {i}: source now has `{a}`, recorded `{b}`'
    if len(now) != len(rec):
        extra = (now[len(rec):] or rec[len(now):])[0]
        return f'{len(now)} statements now, {len(rec)} recorded; first extra: `{extra}`'
    return 'no difference found'
