"""Writes /verif/MANIFEST.json from the table below (kept in one place so that it stays valid)."""
import json
from pathlib import Path

BASELINE = ("cd /repo && /venv/bin/python -m pytest -ra -q -p no:cacheprovider --timeout=900 "
            "--continue-on-collection-errors")

LEVEL = {
    'C01': ('proof', 'Theorems for all DAGs (iteration is a topological permutation; induction on the BFS, no bound) and for '
            'every history of state-change requests / every reachable executor state under arbitrary commands (dependency '
            'invariant, refusal of a start with an unfinished parent); bounded cross-check on all 33868 DAGs <= 6 nodes. '
            'Model tied to the code by bridge obligations regenerated from the source (check_transition statement list, '
            'transition table) and by correspondence on every DAG <= 6 nodes, random DAGs to 40 nodes, request histories '
            'and executor command histories.', '6 C01'),
    'C02': ('proof', 'Theorems: table = the eight documented edges (re-proved against the extracted source table every run), '
            'accepted/refused characterisation, frame, finality of COMPLETED over every history and every reachable executor '
            'state; correspondence on the complete transition relation of all DAGs <= 3 operators (every implementation-'
            'reachable status vector x every request) plus random multi-pipeline histories and executor histories.', '6 C02'),
    'C03': ('proof', 'Invariant by induction over arbitrary command sequences: free + allocated = capacity for CPU and RAM, '
            'non-negativity, oversold batches rejected as a whole, allocation returned exactly in the tick the container '
            'leaves (all capacities, tick rates, run lengths, timing functions). Correspondence: state-aware command fuzzer '
            'against Executor/ResourcePool, projection on resources and list membership.', '6 C03'),
    'C04': ('proof', 'Theorems in exact arithmetic (reported usage = sum of running containers, within allocation, within '
            'capacity, every kill justified, no kill without overcommit for a container within its allocation) and about the '
            'float-faithful model (rnd64): the incrementally updated usage drifts from the exact sum by at most '
            'E(1+k/2^52) + k(n+3)M/2^52 after k container-ticks since the last reconcile, the Neumaier reconcile is within '
            '3 ulp-units of the exact sum (constant 3 instead of the optimal 1: partial), numeric corollaries justify the '
            '1e-6 GB monitor tolerance; the executable model is compared bit-exactly with the implementation.', '6 C04'),
    'C09': ('proof', 'Ledger theorems over arbitrary command sequences (one container per accepted assignment, one outcome per '
            'container, results once and in the tick the container leaves, unknown pools rejected, shape of success/failure '
            'results); correspondence with multi-pool command histories including out-of-range pools.', '6 C09'),
    'C10': ('proof', 'Theorems: a suspend command is accepted iff the container is running with can_suspend, can_suspend only '
            'right after a non-final operator completed, duration max(1, floor(ram/20*tps)) in exact arithmetic and the '
            'float-faithful count in the executable model, no progress while suspending, release of exactly the allocation, '
            'states returned to PENDING; correspondence incl. a sweep suspending at every tick of a container life.', '6 C10'),
    'C11': ('proof', 'Theorems about the OOM killer as a function, for every container list, capacity and rounding: candidates '
            'are exactly unfinished containers using memory, stable descending order by the computed score, victims are a '
            'prefix (no survivor with a strictly higher score), every kill happened while usage exceeded capacity, loop '
            'stops as soon as usage fits; for the float code (rnd64): no container is killed while a surviving candidate has '
            'an exact score larger by a relative gap above 5*2^-53, computed scores are monotone in usage and antitone in '
            'allocation, and a kernel-computed witness shows the gap is needed; correspondence on overcommitted histories.',
            '6 C11'),
}

LEVEL.update({
    'C05': ('proof', 'Theorems: the container state machine for an arbitrary timing function (success after exactly the '
            'summed tick count with the documented operator/memory/can_suspend timeline; OOM in exactly the first '
            'over-limit tick, earlier operators completed, current and later failed) and the tick arithmetic for rnd64 '
            '(float quotient within 4*2^-53 of x, equal to floor(x) away from boundaries, growing memory within rounding '
            'of 20 GB/s, one-tick minimum); scaling laws and the source expressions are bridge-checked against the code; '
            'Timing.v is compared bit-exactly with the real Container on all laws, tick rates 1..100000. Partial: '
            'np.log/np.sqrt values are a table taken from numpy.', '6 C05'),
    'C06': ('proof', 'Refinement of the run_simulator bookkeeping to an independent recount of the event log (counters, '
            'per-class partition, latency lists, completed-once) for every run of the model loop; correspondence of whole '
            'runs incl. the returned SimulatorStats for all shipped schedulers. Partial: numpy mean/percentile rounding '
            '(tolerance 1e-9).', '6 C06'),
    'C08': ('proof', 'Closed-loop theorems for every shipped scheduler: for all well-formed DAG workloads, pool counts and '
            'sizes, tick rates and non-empty timing scripts the run reaches its last tick without an error - naive and the '
            'starter template (both container modes), overbook with overcommit, priority (both modes), priority-pool with '
            'multi-operator containers (positive pool sizes; necessity of the extra hypotheses shown by kernel-computed '
            'witnesses). Invariants over all reachable simulator states; per-round admissibility; totality of the statistics '
            'epilogue. One recorded finding (priority-pool in single-operator mode, with its witness in the model). Outside '
            'the theorems: CLI/TOML parameter handling and numpy statistics (correspondence).', '6 C08'),
    'C12': ('proof', 'Per-round contracts of the priority policy from every queue/pool state (scan is a queue prefix, stops '
            'only on depletion, strict class order, work conservation w.r.t. the post-batch snapshot, suspension rules, '
            'suspended work re-offered) and run-level theorems over every reachable simulator state in both container modes '
            '(no command is ever refused by the executor, suspension batches duplicate-free, one holder per pipeline: no '
            'operator held twice, no ready pending operator lost; a FAILED retry that does not fit is dropped - witness); '
            'correspondence on contended runs with preemption; order / work-conservation / no-suspension clauses also '
            'monitored on priority-pool runs.', '6 C12'),
    'C14': ('proof', 'Cell-level theorems for all row lists / all well-formed pipelines: read(write ps) = ps, write(read rows) '
            '= rows for writer-format files, every listed malformation refused, acceptance iff the rules hold; '
            'correspondence through the real csv reader/writer incl. malformed and benign variations. Partial: csv module '
            'quoting and float text round trip are below the model (exercised, not proved).', '6 C14'),
    'C16': ('proof', 'Per-round contracts of priority-pool (pool by class, never suspends, retry of exactly the unfinished '
            'operators together, 50% cut-off) from every state, and run-level theorems: the both-or-none snapshot invariant '
            'holds in every reachable simulator state, the internal assertion never fires, the closed loop reaches the last '
            'tick; correspondence on two-pool runs with OOM retries.', '6 C16'),
    'C17': ('proof', 'Per-round contracts of naive and of the starter template (one container per pool with everything free, '
            'FIFO for fresh pipelines, never after a failure, single ready operator in single mode, no suspension); '
            'correspondence on multi-pool runs incl. the scheduler generated by `eudoxia init`.', '6 C17'),
    'C18': ('proof', 'Per-round contracts of overbook (one ready operator, one CPU, pool RAM; CPU-bound; nothing waits while '
            'a CPU is free; abandoned after three failures, for all later rounds) and run-level queue theorems over every '
            'reachable simulator state (queue duplicate-free and = the ready operators of all live pipelines exactly; '
            'one-operator containers); correspondence on overcommitted runs incl. abandonment with running siblings.',
            '6 C18'),
    'C20': ('proof', 'Theorems for snap (exact: never up, less than a tick, grid fixed, idempotent; float-faithful rnd64: '
            'loop post-conditions, grid-fixed, idempotent, fuel suffices), jitter (bounds, sorted, stable, frame) and the '
            'sensitivity-sample seed plumbing; bridge obligations on the source statements; correspondence through the '
            'real tools. Partial: reproducibility per seed relies on numpy (monitor).', '6 C20'),
})

LEVEL.update({
    'C07': ('proof', 'In Coq every definition is a function, so determinism of the model needs no theorem; the part that can '
            'fail in a faithful model - dependence on the process-global container counter - is an equivariance theorem '
            '(shifting the counter start commutes with every executor tick and run). The property itself is decided by '
            'correspondence: the run is executed in this process twice and in three fresh interpreter processes (different '
            'PYTHONHASHSEED, after unrelated simulations, uuid4 patched) and every canonical event log must equal the single '
            'trace the model computes; generated workloads are compared across scheduler/executor settings and seeds. '
            'Partial: CPython hash/identity order effects and numpy PCG64 seed behaviour are detected, not proved.', '6 C07'),
    'C13': ('proof', 'Theorems: for every rounding function the replay delivers a prefix of the pipelines, each once, in file '
            'order; for exact arithmetic each pipeline is delivered in tick ceil(a*tps) iff that is before the end, and the '
            'gentrace round trip is exact; for the float code (rnd64) the tick is ceil(x) except within 4*2^-53 of a '
            'boundary, never earlier than ceil(x)-0 beyond that band; the on-grid/late-by-one clause is REFUTED for the '
            'float code by kernel-computed witnesses (recorded finding F7). Correspondence on every grid point k<=2000 at '
            'ten tick rates, off-grid decimals, far-out ticks, and real gentrace round trips.', '6 C13'),
    'C15': ('proof', 'The generator is modelled as a function of its draw stream; theorems for every stream: batch size, fresh '
            'ids, query single operator, chains, first operator I/O-heavy, later operators never the heaviest prototype, '
            'ladder total and monotone (raising cpu_io_ratio never lowers the prototype, strictly raises it for some draw), '
            'gap = draw + 1 >= 1 tick, pairing bounds for the mean gap and operator count, inverse-CDF measure of choice; '
            'prototype ladder and source bridge-checked; correspondence by recorded-draw replay incl. scripted boundary '
            'draws. Partial: the distribution of numpy draws is assumed (statistical tests reported as such).', '6 C15'),
    'C19': ('proof', 'Bookkeeping theorems for every input history (new/other disjoint, complete reported exactly once and never '
            'again, nothing dropped before reported, call iff arrival/result/poll due with the code\'s float clock, exact '
            'poll-gap bounds), reply codec round trip, payload type without resource needs; transparency theorems over a '
            'simulator loop generic in the scheduler: every request equals an independently defined observation of the true '
            'state, the commands executed are exactly the decoded reply, and for every admissible stateful policy the '
            'HTTP-driven run equals the in-process run (a policy naming an unregistered operator is a KeyError: witness); '
            'bridge obligations on key lists, source text and Go struct tags; correspondence and monitors on loop-back HTTP '
            'runs compared with an independent in-process replay. Partial: HTTP/JSON transport of the request and the Go '
            'reference scheduler (no toolchain) are outside the proof.', '6 C19'),
})

NOTES = {
    'C04': 'exact-arithmetic theorems plus float theorems (drift of the reported usage bounded by C04_float_drift_bound, '
           'reconcile error by C04_reconcile_error_bound with constant 3 instead of the optimal 1); memory demands are Python floats',
    'C11': 'score compared as computed by the code (two float operations); rounding cannot reorder scores whose exact '
           'values differ by a relative gap above 5*2^-53 (theorem); monitor ignores relative score gaps < 1e-9',
}

TECH = 'Coq model + theorems; bridge obligations regenerated from source; correspondence (vm_compute + extracted OCaml) vs implementation'

ALL = [f'C{i:02d}' for i in range(1, 21)]
PENDING_REASON = 'check not yet built in this revision (work in progress; see DESIGN.md section 6 for the plan)'


def main():
    claimed = [p for p in ALL if p in LEVEL and (Path('/verif/harness/props') / f'{p}.py').exists()]
    checks = []
    for p in claimed:
        cat, text, ref = LEVEL[p]
        checks.append(dict(
            property_id=p, quick_cmd=f'./check {p} quick', thorough_cmd=f'./check {p} thorough',
            evidence_file=f'/verif/evidence/{p}.json', replay_cmd_template='./check replay {path}',
            engine='coq-model+correspondence',
            level_claimed=dict(category=cat, text=text, design_ref=f'DESIGN.md section {ref}'),
            level_note=NOTES.get(p, 'trusted base: Coq 8.16.1 kernel + vm_compute; extractor (Python ast); correspondence '
                                    'harness and generator coverage; extraction (ExtrOcamlBasic, ExtrOcamlZBigInt) for bulk '
                                    'cases, every mismatch re-evaluated in the kernel; CPython without -O'),
            technique=TECH))
    man = dict(
        version=1, setup_cmd='./setup.sh',
        hooks=dict(guard='EUDOXIA_VERIF', enable='no source hooks are needed: the harness observes the public attributes of '
                   'the real classes; EUDOXIA_VERIF=1 is exported by ./check but guards nothing in /repo',
                   baseline_off_cmd=BASELINE, source_commits=[], add_only=True),
        engines=[dict(name='coq-model+correspondence', path='/verif/coq, /verif/harness',
                      serves_properties=claimed,
                      kind_free_text='machine-checked proof in Coq 8.16 about an executable Gallina model; model tied to the '
                                     'code by a fail-closed AST extractor (bridge obligations) and a correspondence check '
                                     '(kernel vm_compute and extracted OCaml) against the real Python classes')],
        checks=checks,
        not_applicable=[dict(property_id=p, reason=PENDING_REASON) for p in ALL if p not in claimed],
        notes='See DESIGN.md. known_findings.txt lists repaired defects (fixed:) and recorded findings (finding:).')
    Path('/verif/MANIFEST.json').write_text(json.dumps(man, indent=1))
    return man


if __name__ == '__main__':
    m = main()
    print('claimed', [c['property_id'] for c in m['checks']])
