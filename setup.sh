#!/bin/bash
# Build the Coq development (full .vo build), extract and compile the back-end-X driver.
cd "${VERIF_ROOT:-/verif}" || exit 2
mkdir -p build evidence replays
cd coq && coq_makefile -f _CoqProject -o Makefile >/dev/null && cd ..
exec ./check setup
