(* IEEE-754 binary64 round-to-nearest-even on exact rationals, in pure Z arithmetic.
   Overflow and subnormals are outside the modelled domain (magnitudes 1e-300 .. 1e300 are
   never reached by the code paths modelled; the generators keep to [1e-12, 1e15]).
   Definitions only; facts are in Proofs/Rnd64Facts.v. *)
From Coq Require Import ZArith QArith List.
Import ListNotations.
Open Scope Z_scope.

(* nearest integer to a/b (b > 0), ties to even *)
Definition rne (a b : Z) : Z :=
  let q := a / b in let r := a mod b in
  if 2 * r <? b then q else if b <? 2 * r then q + 1 else (if Z.even q then q else q + 1).

(* the pair (a, b) with a/b = (n/d) / 2^s *)
Definition sc (n d s : Z) : Z * Z :=
  if 0 <=? s then (n, d * 2 ^ s) else (n * 2 ^ (- s), d).

(* n, d > 0: mantissa m and exponent e with  rnd(n/d) = m * 2^e, 2^52 <= m <= 2^53 *)
Definition rnd_pos (n d : Z) : Z * Z :=
  let e0 := Z.log2 n - Z.log2 d in
  let '(a0, b0) := sc n d (e0 - 52) in
  let e := if a0 / b0 <? 2 ^ 52 then e0 - 1 else e0 in
  let '(a, b) := sc n d (e - 52) in
  (rne a b, e - 52).

Definition pow2Q (m e : Z) : Q :=
  if 0 <=? e then inject_Z (m * 2 ^ e) else (m # Z.to_pos (2 ^ (- e)))%Q.

Definition rnd64 (x : Q) : Q :=
  let n := Qnum x in let d := Z.pos (Qden x) in
  if n =? 0 then 0%Q else
  let '(m, e) := rnd_pos (Z.abs n) d in
  let v := Qred (pow2Q m e) in
  if n <? 0 then Qopp v else v.

(* Python float operations: the exact result, rounded *)
Definition fdiv (a b : Q) : Q := rnd64 (a / b).
Definition fmul (a b : Q) : Q := rnd64 (a * b).
Definition fadd (a b : Q) : Q := rnd64 (a + b).
Definition fsub (a b : Q) : Q := rnd64 (a - b).

(* Python int(x) truncates toward zero; math.floor / ceil *)
Definition truncQ (x : Q) : Z := Z.quot (Qnum x) (Z.pos (Qden x)).
Definition floorQ (x : Q) : Z := Qnum x / Z.pos (Qden x).
Definition ceilQ (x : Q) : Z := - ((- Qnum x) / Z.pos (Qden x)).

(* 1.0 / ticks_per_second *)
Definition tick_len (tps : Z) : Q := fdiv 1 (inject_Z tps).
