(* C12: theorem statements are added when the corresponding Proofs file is merged. *)
From Coq Require Import List ZArith QArith.
From Eudoxia Require Import Model.Sched.
Example C12_placeholder : ss_q init_sstate = nil.
Proof. reflexivity. Qed.
Print Assumptions C12_placeholder.
