(* C12 priority: strict priority order, work conservation, query-only preemption.
   Statements only; every proof is [exact <lemma of Proofs/PriorityFacts.v>]. Per scheduling round of the
   model of eudoxia/scheduler/priority.py ([priority_step]), from every scheduler state, executor state,
   result list and arrival list (both container modes: cf_multi). *)
From Coq Require Import List ZArith QArith.
Import ListNotations.
From Eudoxia Require Import Model.Types Model.Lifecycle Model.Container Model.Pool Model.Executor Model.Sched
  Proofs.ExecLifeFacts Proofs.PriorityFacts.
Close Scope Q_scope.
Close Scope Z_scope.

(* strict priority order: the round's assignments are query, then interactive, then batch; if a query job is
   still queued afterwards nothing of a lower class was assigned; likewise for interactive over batch *)
Theorem C12_priority_order : forall C s e results newp s' w' susps asgs,
  priority_step C s e results newp = Ok (s', w', susps, asgs) ->
  exists a1 a2 a3,
    asgs = a1 ++ a2 ++ a3 /\
    (class_ok s -> Forall (fun a => a_prio a = Query) a1 /\ Forall (fun a => a_prio a = Interactive) a2 /\
                   Forall (fun a => a_prio a = Batch) a3) /\
    (ss_q s' <> [] -> a2 = [] /\ a3 = []) /\
    (ss_i s' <> [] -> a3 = []).
Proof. exact priority_order. Qed.
Print Assumptions C12_priority_order.

(* work conservation: if any job is still queued after the round, every pool has run out of free CPU or RAM
   in the snapshot after this round's assignments *)
Theorem C12_work_conserving : forall C s e results newp s' w' susps asgs,
  priority_step C s e results newp = Ok (s', w', susps, asgs) ->
  exists st3,
    length st3 = length (snapshot e) /\
    (forall i,
       ps_acpu (nth i st3 dummy_stat) =
         (ps_acpu (nth i (snapshot e) dummy_stat) - sumZ (map a_cpu (filter (on_pool i) asgs)))%Z /\
       (ps_aram (nth i st3 dummy_stat) ==
         ps_aram (nth i (snapshot e) dummy_stat) - sumQ (map a_ram (filter (on_pool i) asgs)))%Q) /\
    (ss_q s' <> [] \/ ss_i s' <> [] \/ ss_b s' <> [] -> depleted st3).
Proof. exact priority_work_conserving. Qed.
Print Assumptions C12_work_conserving.

(* equal priority: the class queue is FIFO — new jobs at the tail, a scanned prefix leaves, and the
   assignments of a class are an order-preserving image of the scanned jobs *)
Theorem C12_fifo : forall C s e results newp s' w' susps asgs,
  priority_step C s e results newp = Ok (s', w', susps, asgs) ->
  exists lq n a,
    asgs = a Query ++ a Interactive ++ a Batch /\
    forall p,
      queue_of s' p = skipn (n p) (queue_of s p ++ filter (is_class p) (pr_jobs C s e results newp)
                                   ++ filter (is_class p) lq) /\
      scan_sub (firstn (n p) (queue_of s p ++ filter (is_class p) (pr_jobs C s e results newp)
                              ++ filter (is_class p) lq)) (a p).
Proof. exact priority_fifo. Qed.
Print Assumptions C12_fifo.

(* preemption: only running non-query containers at an operator boundary, only while a query job waits, at
   most one per waiting query job, no container twice *)
Theorem C12_suspend_rules : forall C s e results newp s' w' susps asgs,
  priority_step C s e results newp = Ok (s', w', susps, asgs) ->
  Forall (susp_ok (e_pools e)) susps /\
  length susps <= length (ss_q s') /\
  (ss_q s' = [] -> susps = []) /\
  (NoDup (map c_id (flat_map p_active (e_pools e))) -> NoDup (map su_cid susps)).
Proof. exact priority_suspend_rules. Qed.
Print Assumptions C12_suspend_rules.

(* work suspended this way is offered again once its suspension ends: in the first round that sees the
   container in the suspended list a job with its unfinished operators is filed (exactly once) and is
   assigned in that round, or stays queued, or is a failed-retry job *)
Theorem C12_resume_offered : forall C s e results newp s' w' susps asgs p c,
  priority_step C s e results newp = Ok (s', w', susps, asgs) ->
  In p (e_pools e) -> In c (p_suspended p) -> ~ In (c_id c) (ss_requeued s) ->
  In (c_id c) (ss_requeued s') /\
  exists m p' c' j,
    note_suspending_pools C (e_world e) (e_pools e) (ss_suspending s) = Ok m /\
    In p' (e_pools e) /\ In c' (p_suspended p') /\ c_id c' = c_id c /\
    (NoDup (map c_id (flat_map p_suspended (e_pools e))) -> c' = c) /\
    (In (c_id c', j) m \/ noted_job C (e_world e) (p_id p') c' j) /\
    ((exists a, In a asgs /\ a_ops a = j_ops j /\ a_prio a = j_prio j)
     \/ In j (queue_of s' (j_prio j))
     \/ retry_err j = true).
Proof. exact priority_resume_offered. Qed.
Print Assumptions C12_resume_offered.

(* the round's batch is admissible for the executor: argument checks pass, pools exist, no pool is oversold *)
Theorem C12_admissible : forall C s e results newp s' w' susps asgs,
  priority_step C s e results newp = Ok (s', w', susps, asgs) ->
  Forall args_ok asgs /\
  mk_assignments C (e_world e) asgs = Ok w' /\
  (forall a, In a asgs -> exists pid, a_pool a = Z.of_nat pid /\ pid < length (e_pools e)) /\
  (Forall nonneg_pool (snapshot e) ->
   forall i, (sumZ (map a_cpu (filter (on_pool i) asgs)) <= ps_acpu (nth i (snapshot e) dummy_stat))%Z /\
             (sumQ (map a_ram (filter (on_pool i) asgs)) <= ps_aram (nth i (snapshot e) dummy_stat))%Q).
Proof. exact priority_admissible. Qed.
Print Assumptions C12_admissible.

(* a fact about the code worth knowing (not a violation of C12, whose clauses speak of PENDING operators): a
   failed retry whose doubled request does not fit the pool with most free RAM is dropped from the queue
   without an assignment even if pools have room; its operators stay FAILED *)
Theorem C12_retry_dropped : forall C w st j rest oom pid,
  max_ram_pool st 0 None 0%Q = Some pid -> pr_nofit (nth pid st dummy_stat) j = true ->
  pr_scan C w st (j :: rest) oom = bump_n (pr_scan C w st rest oom) None.
Proof. exact pr_retry_dropped. Qed.
Print Assumptions C12_retry_dropped.

Example C12_witness : depleted [(0%Z, 4%Q, 8%Z, 8%Q); (3%Z, 0%Q, 8%Z, 8%Q)].
Proof.
  constructor; [left; apply Z.le_refl | constructor; [right; apply Qle_refl | constructor]].
Qed.
