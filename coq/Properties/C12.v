(* C12 priority: strict priority order, work conservation, query-only preemption.
   Statements only; every proof is [exact <lemma of Proofs/PriorityFacts.v>]. Per scheduling round of the
   model of eudoxia/scheduler/priority.py ([priority_step]), from every scheduler state, executor state,
   result list and arrival list (both container modes: cf_multi). *)
From Coq Require Import List ZArith QArith.
Import ListNotations.
From Eudoxia Require Import Model.Types Model.Lifecycle Model.Container Model.Pool Model.Executor Model.Sched
  Proofs.ExecLifeFacts Proofs.PriorityFacts Proofs.PreemptFuelFacts.
Close Scope Q_scope.
Close Scope Z_scope.

(* strict priority order: the round's assignments are query, then interactive, then batch; if a query job is
   still queued afterwards nothing of a lower class was assigned; likewise for interactive over batch *)
Theorem C12_priority_order : forall C s e results newp s' w' susps asgs,
  priority_step C s e results newp = Ok (s', w', susps, asgs) ->
  exists a1 a2 a3,
    asgs = a1 ++ a2 ++ a3 /\
    (class_ok s -> Forall (fun a => a_prio a = Query) a1 /\ Forall (fun a => a_prio a = Interactive) a2 /\
                   Forall (fun a => a_prio a = Batch) a3) /\
    (ss_q s' <> [] -> a2 = [] /\ a3 = []) /\
    (ss_i s' <> [] -> a3 = []).
Proof. exact priority_order. Qed.
Print Assumptions C12_priority_order.

(* work conservation: if any job is still queued after the round, every pool has run out of free CPU or RAM
   in the snapshot after this round's assignments *)
Theorem C12_work_conserving : forall C s e results newp s' w' susps asgs,
  priority_step C s e results newp = Ok (s', w', susps, asgs) ->
  exists st3,
    length st3 = length (snapshot e) /\
    (forall i,
       ps_acpu (nth i st3 dummy_stat) =
         (ps_acpu (nth i (snapshot e) dummy_stat) - sumZ (map a_cpu (filter (on_pool i) asgs)))%Z /\
       (ps_aram (nth i st3 dummy_stat) ==
         ps_aram (nth i (snapshot e) dummy_stat) - sumQ (map a_ram (filter (on_pool i) asgs)))%Q) /\
    (ss_q s' <> [] \/ ss_i s' <> [] \/ ss_b s' <> [] -> depleted st3).
Proof. exact priority_work_conserving. Qed.
Print Assumptions C12_work_conserving.

(* equal priority: the class queue is FIFO — new jobs at the tail, a scanned prefix leaves, and the
   assignments of a class are an order-preserving image of the scanned jobs *)
Theorem C12_fifo : forall C s e results newp s' w' susps asgs,
  priority_step C s e results newp = Ok (s', w', susps, asgs) ->
  exists lq n a,
    asgs = a Query ++ a Interactive ++ a Batch /\
    forall p,
      queue_of s' p = skipn (n p) (queue_of s p ++ filter (is_class p) (pr_jobs C s e results newp)
                                   ++ filter (is_class p) lq) /\
      scan_sub (firstn (n p) (queue_of s p ++ filter (is_class p) (pr_jobs C s e results newp)
                              ++ filter (is_class p) lq)) (a p).
Proof. exact priority_fifo. Qed.
Print Assumptions C12_fifo.

(* preemption: only running non-query containers at an operator boundary, only while a query job waits, at
   most one per waiting query job, no container twice *)
Theorem C12_suspend_rules : forall C s e results newp s' w' susps asgs,
  priority_step C s e results newp = Ok (s', w', susps, asgs) ->
  Forall (susp_ok (e_pools e)) susps /\
  length susps <= length (ss_q s') /\
  (ss_q s' = [] -> susps = []) /\
  (NoDup (map c_id (flat_map p_active (e_pools e))) -> NoDup (map su_cid susps)).
Proof. exact priority_suspend_rules. Qed.
Print Assumptions C12_suspend_rules.

(* work suspended this way is offered again once its suspension ends: in the first round that sees the
   container in the suspended list a job with its unfinished operators is filed (exactly once) and is
   assigned in that round, or stays queued, or is a failed-retry job *)
Theorem C12_resume_offered : forall C s e results newp s' w' susps asgs p c,
  priority_step C s e results newp = Ok (s', w', susps, asgs) ->
  In p (e_pools e) -> In c (p_suspended p) -> ~ In (c_id c) (ss_requeued s) ->
  In (c_id c) (ss_requeued s') /\
  exists m p' c' j,
    note_suspending_pools C (e_world e) (e_pools e) (ss_suspending s) = Ok m /\
    In p' (e_pools e) /\ In c' (p_suspended p') /\ c_id c' = c_id c /\
    (NoDup (map c_id (flat_map p_suspended (e_pools e))) -> c' = c) /\
    (In (c_id c', j) m \/ noted_job C (e_world e) (p_id p') c' j) /\
    ((exists a, In a asgs /\ a_ops a = j_ops j /\ a_prio a = j_prio j)
     \/ In j (queue_of s' (j_prio j))
     \/ retry_err j = true).
Proof. exact priority_resume_offered. Qed.
Print Assumptions C12_resume_offered.

(* the round's batch is admissible for the executor: argument checks pass, pools exist, no pool is oversold *)
Theorem C12_admissible : forall C s e results newp s' w' susps asgs,
  priority_step C s e results newp = Ok (s', w', susps, asgs) ->
  Forall args_ok asgs /\
  mk_assignments C (e_world e) asgs = Ok w' /\
  (forall a, In a asgs -> exists pid, a_pool a = Z.of_nat pid /\ pid < length (e_pools e)) /\
  (Forall nonneg_pool (snapshot e) ->
   forall i, (sumZ (map a_cpu (filter (on_pool i) asgs)) <= ps_acpu (nth i (snapshot e) dummy_stat))%Z /\
             (sumQ (map a_ram (filter (on_pool i) asgs)) <= ps_aram (nth i (snapshot e) dummy_stat))%Q).
Proof. exact priority_admissible. Qed.
Print Assumptions C12_admissible.

(* a fact about the code worth knowing (not a violation of C12, whose clauses speak of PENDING operators): a
   failed retry whose doubled request does not fit the pool with most free RAM is dropped from the queue
   without an assignment even if pools have room; its operators stay FAILED *)
Theorem C12_retry_dropped : forall C w st j rest oom pid,
  max_ram_pool st 0 None 0%Q = Some pid -> pr_nofit (nth pid st dummy_stat) j = true ->
  pr_scan C w st (j :: rest) oom = bump_n (pr_scan C w st rest oom) None.
Proof. exact pr_retry_dropped. Qed.
Print Assumptions C12_retry_dropped.

Example C12_witness : depleted [(0%Z, 4%Q, 8%Z, 8%Q); (3%Z, 0%Q, 8%Z, 8%Q)].
Proof.
  constructor; [left; apply Z.le_refl | constructor; [right; apply Qle_refl | constructor]].
Qed.

(* ------------------------------------------------------------------------------------------ *)
(* Run level: the priority policy in the closed loop of [sim_run] (Proofs/PriorityRunFacts.v).  *)
(* ------------------------------------------------------------------------------------------ *)
From Eudoxia Require Import Model.Dag Model.Simulator Proofs.SafetyFacts Proofs.PriorityRunFacts.

(* every command batch the priority policy issues during a run is accepted by the executor, and the
   scheduler's own assertions never fire: whatever stops a run was raised inside a container tick or by the
   lifecycle state machine ([inner_err]: EDep / ETransition / EStopIter / EOther), never EBadPool,
   EOversellCpu, EOversellRam, EBadSuspend, EOpCount, EBadAssignArgs or ESchedAssert. Both container modes. *)
Theorem C12_run_commands_admissible : forall C l np cpu ram arrivals sf logs er,
  cf_static C = mk_static l -> dags_wf l -> (0 <= cpu)%Z -> (0 <= ram)%Q ->
  sim_run C APriority 0%Z (init_sim C np cpu ram) arrivals = (sf, logs, Some er) ->
  inner_err er /\
  er <> EBadPool /\ er <> EOversellCpu /\ er <> EOversellRam /\ er <> EBadSuspend /\ er <> EOpCount /\
  er <> EBadAssignArgs /\ er <> ESchedAssert.
Proof. exact priority_run_commands_admissible. Qed.
Print Assumptions C12_run_commands_admissible.

(* the invariant behind it, in the final state of any run (normal end or not): the scheduler's bookkeeping
   matches the executor's state. Pool ids are 0..np-1; container ids are unique over all pools and lists;
   every container has its unfinished operators ahead of it, a positive allocation and an operator list fit
   for the container mode; free amounts are non-negative; every suspended container that has not been
   re-queued has a PENDING operator; queued and noted jobs are well-formed; results carry positive requests *)
Theorem C12_run_invariant : forall C l np cpu ram arrivals sf logs oe,
  cf_static C = mk_static l -> dags_wf l -> (0 <= cpu)%Z -> (0 <= ram)%Q ->
  sim_run C APriority 0%Z (init_sim C np cpu ram) arrivals = (sf, logs, oe) ->
  pr_inv C np sf.
Proof. exact priority_run_invariant_mk. Qed.
Print Assumptions C12_run_invariant.

(* run-level queue invariants, both modes: class queues hold jobs of their class; queued jobs and jobs
   noted for suspending containers have >= 1 known operators (exactly 1 in single-operator mode) and a
   positive remembered request; suspended work not yet re-queued is still PENDING, so it is offered again
   (C12_resume_offered) -- the only way queued work leaves without a container is the documented drop of a
   failed retry (C12_retry_dropped) *)
Theorem C12_run_queues : forall C l np cpu ram arrivals sf logs oe,
  cf_static C = mk_static l -> dags_wf l -> (0 <= cpu)%Z -> (0 <= ram)%Q ->
  sim_run C APriority 0%Z (init_sim C np cpu ram) arrivals = (sf, logs, oe) ->
  class_ok (sm_sched sf) /\
  (forall p j, In j (queue_of (sm_sched sf) p) -> jgood C j) /\
  (forall cid j, In (cid, j) (ss_suspending (sm_sched sf)) -> jgood C j) /\
  (forall p c, In p (e_pools (sm_exec sf)) -> In c (p_suspended p) ->
     ~ In (c_id c) (ss_requeued (sm_sched sf)) ->
     exists o, In o (c_ops c) /\ st_of (e_world (sm_exec sf)) o = Pending).
Proof. exact priority_run_queues. Qed.
Print Assumptions C12_run_queues.

(* single-operator mode: the run reaches its last tick, no operator is ever queued twice (over all three
   queues), every queued job is one PENDING or FAILED operator whose parents are complete and which no
   live container owns, and nothing is ever suspending or suspended *)
Theorem C12_single_queues : forall C l np cpu ram arrivals,
  cf_static C = mk_static l -> dags_wf l ->
  (forall op c, cf_script C op c <> []) -> cf_multi C = false ->
  (0 <= cpu)%Z -> (0 <= ram)%Q -> NoDup (concat arrivals) ->
  exists sf logs,
    sim_run C APriority 0%Z (init_sim C np cpu ram) arrivals = (sf, logs, None) /\
    NoDup (queued_ops (sm_sched sf)) /\
    (forall q j, In j (queue_of (sm_sched sf) q) ->
       exists o, j_ops j = [o] /\
         (st_of (e_world (sm_exec sf)) o = Pending \/ st_of (e_world (sm_exec sf)) o = Failed) /\
         parents_complete (cf_static C) (e_world (sm_exec sf)) o = true /\
         ~ In o (sown (sm_exec sf))) /\
    (forall p, In p (e_pools (sm_exec sf)) -> p_suspending p = [] /\ p_suspended p = []).
Proof. exact priority_single_queues. Qed.
Print Assumptions C12_single_queues.

(* non-vacuity: a run in which a batch container is preempted for a query job (tick 2), the query job is
   served (tick 3) and the preempted work is re-queued and served again (tick 4); and a run that stops *)
Example C12_run_witness :
  RunExamples.show (sim_run (RunExamples.exC true) APriority 0%Z
                            (init_sim (RunExamples.exC true) 1 2%Z 2%Q) RunExamples.arr) =
  ([([], [(Batch, [0; 1]); (Batch, [2; 3])], []);
    ([], [], []);
    ([0], [], []);
    ([], [(Query, [4])], [(1, false)]);
    ([], [(Batch, [1])], [(2, false)]);
    ([], [], [(3, false)]);
    ([], [], []); ([], [], [])], None, 1%Z, [0]).
Proof. exact RunExamples.ex_run_preempts. Qed.

Example C12_run_stops_witness :
  exists sf logs, sim_run (RunExamples.exC true) APriority 0%Z
                          (init_sim (RunExamples.exC true) 1 2%Z 2%Q) [[0]; [0]]
                  = (sf, logs, Some EOther) /\ inner_err EOther.
Proof. exact RunExamples.ex_run_stops. Qed.

(* single-operator mode, nothing ready is lost: in the final state of every run, every PENDING operator of an
   arrived pipeline whose parents are all complete is in one of the queues, or its pipeline has a result of
   the tick just executed (then the next round examines the pipeline and files the operator). With
   C12_work_conserving: ready PENDING work waits only while every pool is depleted. FAILED operators are
   deliberately not covered: see C12_retry_dropped. *)
Theorem C12_single_no_loss : forall C l np cpu ram arrivals,
  cf_static C = mk_static l -> dags_wf l ->
  (forall op c, cf_script C op c <> []) -> cf_multi C = false ->
  (0 <= cpu)%Z -> (0 <= ram)%Q -> NoDup (concat arrivals) ->
  exists sf logs,
    sim_run C APriority 0%Z (init_sim C np cpu ram) arrivals = (sf, logs, None) /\
    forall k o, In k (concat arrivals) -> In o (pd_order (pipe_of (cf_static C) k)) ->
      st_of (e_world (sm_exec sf)) o = Pending ->
      parents_complete (cf_static C) (e_world (sm_exec sf)) o = true ->
      In o (queued_ops (sm_sched sf)) \/
      exists r o', In r (sm_results sf) /\ In o' (r_ops r) /\ op_pipe (cf_static C) o' = k.
Proof. exact priority_single_no_loss. Qed.
Print Assumptions C12_single_no_loss.

Example C12_no_loss_witness :
  (let '(sf, _, _) := sim_run (RunExamples.exC false) APriority 0%Z
                              (init_sim (RunExamples.exC false) 1 1%Z 1%Q) [[0; 1]] in
   (queued_ops (sm_sched sf), map j_ops (ss_b (sm_sched sf)), st_of (e_world (sm_exec sf)) 2,
    parents_complete RunExamples.exSt (e_world (sm_exec sf)) 2)) = ([2], [[2]], Pending, true).
Proof. exact RunExamples.ex_waiting_is_queued. Qed.

(* in every tick of every run (both modes): no container is named by two suspension commands -- the side
   condition of C12_suspend_rules (container ids unique over all pools) holds in every reachable state -- and
   every assignment has an operator list fit for the container mode (>= 1 operators, exactly 1 in
   single-operator mode), made of known operators *)
Theorem C12_run_commands : forall C l np cpu ram arrivals sf logs oe,
  cf_static C = mk_static l -> dags_wf l -> (0 <= cpu)%Z -> (0 <= ram)%Q ->
  sim_run C APriority 0%Z (init_sim C np cpu ram) arrivals = (sf, logs, oe) ->
  Forall (fun lg => NoDup (map su_cid (tl_susp lg)) /\
                    forall a, In a (tl_asgs lg) -> opsP C (a_ops a) /\ ops_in_range (cf_static C) (a_ops a))
         logs.
Proof. exact priority_run_commands. Qed.
Print Assumptions C12_run_commands.

(* "never lost" cannot be extended to FAILED operators (the run-level face of C12_retry_dropped): in this
   run of a valid single-operator configuration (one pool of 4 CPUs / 4 GB; three long batch operators hold
   1 CPU / 1 GB each; the fourth pipeline needs 3 GB) operator 3 is OOM-killed in tick 1, its doubled retry
   (2 CPUs / 2 GB) does not fit into the free 1 CPU / 1 GB in tick 2 and is dropped without being counted;
   the run reaches its last tick with operator 3 FAILED, parents complete, in no queue, in no container, its
   pipeline outstanding and in no result, while 1 CPU / 1 GB are still free *)
Example C12_never_lost_failed_refuted :
  (let '(sf, logs, e) := sim_run RunExamples.lostC APriority 0%Z
                                 (init_sim RunExamples.lostC 1 4%Z 4%Q) RunExamples.lostArr in
   (e, st_of (e_world (sm_exec sf)) 3,
    parents_complete (cf_static RunExamples.lostC) (e_world (sm_exec sf)) 3,
    queued_ops (sm_sched sf),
    map (fun p => (p_avail_cpu p, Qred (p_avail_ram p), map c_id (p_active p), p_suspending p, p_suspended p))
        (e_pools (sm_exec sf)),
    sm_results sf, sm_outstanding sf, ss_oom (sm_sched sf),
    map (fun l => map (fun a => (a_ops a, a_cpu a, Qred (a_ram a))) (tl_asgs l)) logs,
    map (fun l => map (fun r => (r_ops r, r_err r)) (tl_results l)) logs))
  = (None, Failed, true, [], [(1%Z, 1%Q, [0; 1; 2], [], [])], [], [0; 1; 2; 3], 0%Z,
     [[([0], 1%Z, 1%Q); ([1], 1%Z, 1%Q); ([2], 1%Z, 1%Q)]; [([3], 1%Z, 1%Q)]; []; []; []; []],
     [[]; [([3], true)]; []; []; []; []]).
Proof. exact RunExamples.ex_failed_work_lost. Qed.

(* ------------------------------------------------------------------------------------------ *)
(* Run level, multi-operator containers (Proofs/PriorityMultiFacts.v)                           *)
(* ------------------------------------------------------------------------------------------ *)
From Eudoxia Require Import Proofs.ClosedLoopFacts Proofs.PriorityMultiFacts.

(* who holds what, in the final state of every run in multi-operator mode (the run reaches its last tick:
   C08_priority_multi_runs_to_end). No operator is held twice: the operators of the queued jobs, the remaining
   operators of the suspended containers awaiting their re-queue ([fresh_ops]) and the remaining operators of
   the live containers ([sown]) form a duplicate-free list. Every holder holds ALL unfinished operators of one
   pipeline ([holds]: its operators belong to pipeline k, and every other operator of k is COMPLETED) -- so a
   pipeline never has two holders; queued operators are PENDING or FAILED and stand in a dependency-closed
   order ([chain]); the operators awaiting a re-queue are PENDING *)
Theorem C12_multi_queues : forall C l np cpu ram arrivals,
  cf_static C = mk_static l -> dags_wf l ->
  (forall op c, cf_script C op c <> []) -> cf_multi C = true ->
  (0 <= cpu)%Z -> (0 <= ram)%Q -> NoDup (concat arrivals) ->
  exists sf logs,
    sim_run C APriority 0%Z (init_sim C np cpu ram) arrivals = (sf, logs, None) /\
    NoDup (queued_ops (sm_sched sf) ++ fresh_ops (sm_exec sf) (sm_sched sf) ++ sown (sm_exec sf)) /\
    (forall q j, In j (queue_of (sm_sched sf) q) ->
       NoDup (j_ops j) /\
       (forall o, In o (j_ops j) ->
          st_of (e_world (sm_exec sf)) o = Pending \/ st_of (e_world (sm_exec sf)) o = Failed) /\
       chain C (e_world (sm_exec sf)) (j_ops j) /\
       exists k, holds C (e_world (sm_exec sf)) k (j_ops j)) /\
    (forall p c, In p (e_pools (sm_exec sf)) -> In c (p_active p) \/ In c (p_suspending p) ->
       exists k, holds C (e_world (sm_exec sf)) k (c_ops c)) /\
    (forall c, In c (fresh_conts (sm_exec sf) (sm_sched sf)) ->
       (forall o, In o (remops c) -> st_of (e_world (sm_exec sf)) o = Pending) /\
       exists k, holds C (e_world (sm_exec sf)) k (c_ops c)).
Proof. exact priority_multi_queues. Qed.
Print Assumptions C12_multi_queues.

(* multi-operator mode, nothing PENDING is lost: in the final state of every run, every PENDING operator of an
   arrived pipeline is in a queued job, or belongs to a suspended container awaiting its re-queue (filed by the
   next round: C12_resume_offered), or its pipeline has a result of the tick just executed (the next round files
   a job with all its unfinished operators). FAILED operators are not covered: the retry of a failed container
   can be dropped for good (C12_retry_dropped; C12_never_lost_failed_refuted is the run-level witness) *)
Theorem C12_multi_no_loss : forall C l np cpu ram arrivals,
  cf_static C = mk_static l -> dags_wf l ->
  (forall op c, cf_script C op c <> []) -> cf_multi C = true ->
  (0 <= cpu)%Z -> (0 <= ram)%Q -> NoDup (concat arrivals) ->
  exists sf logs,
    sim_run C APriority 0%Z (init_sim C np cpu ram) arrivals = (sf, logs, None) /\
    forall k o, In k (concat arrivals) -> In o (pd_order (pipe_of (cf_static C) k)) ->
      st_of (e_world (sm_exec sf)) o = Pending ->
      In o (queued_ops (sm_sched sf)) \/ In o (fresh_ops (sm_exec sf) (sm_sched sf)) \/
      exists r o', In r (sm_results sf) /\ In o' (r_ops r) /\ op_pipe (cf_static C) o' = k.
Proof. exact priority_multi_no_loss. Qed.
Print Assumptions C12_multi_no_loss.

(* non-vacuity: four ticks of a multi-operator run (one pool of 2 CPUs / 40 GB): the query operator 4 is queued,
   operator 1 is PENDING in suspended container 0, which awaits its re-queue, nothing is live; and the whole run,
   in which container 0 is preempted, suspends for two ticks and its remaining operator runs again *)
Example C12_multi_holders_witness :
  (let '(sf, _, e) := sim_run (RunExamples.exC true) APriority 0%Z
                              (init_sim (RunExamples.exC true) 1 2%Z 40%Q) [[0; 1]; []; [2]; []] in
   (e, queued_ops (sm_sched sf), fresh_ops (sm_exec sf) (sm_sched sf), sown (sm_exec sf),
    map (st_of (e_world (sm_exec sf))) [0; 1; 2; 3; 4], ss_requeued (sm_sched sf)))
  = (None, [4], [1], [], [Completed; Pending; Completed; Completed; Pending], []).
Proof. exact MultiExamples.ex_holders. Qed.

Example C12_multi_run_witness :
  MultiExamples.show2 (sim_run (RunExamples.exC true) APriority 0%Z (init_sim (RunExamples.exC true) 1 2%Z 40%Q)
                               [[0; 1]; []; [2]; []; []; []; []; []; []; []]) =
  ([([], [(Batch, [0; 1], 1%Z, 4%Q); (Batch, [2; 3], 1%Z, 36%Q)], []);
    ([], [], []);
    ([0], [], []);
    ([], [], [(1, false)]);
    ([], [(Query, [4], 1%Z, 4%Q); (Batch, [1], 1%Z, 36%Q)], []);
    ([], [], [(2, false); (3, false)]);
    ([], [], []); ([], [], []); ([], [], []); ([], [], [])], None, 1%Z, [0]).
Proof. exact MultiExamples.ex_preempt_two_ticks. Qed.

(* ------------------------------------------------------------------------------------------ *)
(* Fuel of the preemption loop (closes audit B, point P8). The model's [pr_preempt] runs on fuel and returns
   its partial list when the fuel ends; C12_suspend_rules is a safety statement and holds for any fuel, so by
   itself it would not notice a model that suspends too few containers. [pr_preempt_stops] repeats the
   recursion of [pr_preempt] and only reports how the loop ends: true = through one of its own exit tests
   (enough victims, or every pool's iterator exhausted), false = the fuel ran out. With the fuel used by
   [priority_step], (n+1) * (n+1+L) for n pools holding L active containers in all, the fuel never runs out:
   for ANY pools and ANY number of waiting query jobs, without any run invariant. *)
Theorem C12_preempt_fuel_suffices : forall (ps : list pool) (need : nat),
  let iters := map (fun p => (p_id p, p_active p, false)) ps in
  let fuel := (S (length iters)) * (S (length iters) + length (flat_map p_active ps)) in
  pr_preempt_stops fuel need iters 0 [] = true.
Proof. exact preempt_fuel_suffices. Qed.
Print Assumptions C12_preempt_fuel_suffices.

(* hence any larger fuel gives the same suspensions: the answer is the loop's own, not the fuel's *)
Theorem C12_preempt_more_fuel_same : forall (ps : list pool) (need : nat),
  let iters := map (fun p => (p_id p, p_active p, false)) ps in
  let fuel := (S (length iters)) * (S (length iters) + length (flat_map p_active ps)) in
  forall k, pr_preempt (fuel + k) need iters 0 [] = pr_preempt fuel need iters 0 [].
Proof. exact preempt_more_fuel_same. Qed.
Print Assumptions C12_preempt_more_fuel_same.

(* the same for a round of [priority_step]: the loop it runs leaves through an exit test, and the suspensions
   the round returns are those computed with any larger fuel *)
Theorem C12_step_preempt_fuel : forall C s e results newp s' w' susps asgs,
  priority_step C s e results newp = Ok (s', w', susps, asgs) ->
  let iters := map (fun p => (p_id p, p_active p, false)) (e_pools e) in
  let fuel := (S (length iters)) * (S (length iters) + length (flat_map p_active (e_pools e))) in
  pr_preempt_stops fuel (length (ss_q s')) iters 0 [] = true /\
  forall k,
    susps = match ss_q s' with
            | [] => []
            | _ => pr_preempt (fuel + k) (length (ss_q s')) iters 0 []
            end.
Proof. exact priority_step_preempt_fuel. Qed.
Print Assumptions C12_step_preempt_fuel.

(* non-vacuity: two pools (pool 0: query container 10, batch 11 not at an operator boundary, interactive 12;
   pool 1: query 20, batch 21 and 22), fuel 3 * 9 = 27. Two waiting query jobs: the loop leaves through the
   [need] test with victims 21 and 12 *)
Example C12_preempt_stops_by_need :
  FuelExamples.fuel = 27 /\
  pr_preempt_stops FuelExamples.fuel 2 FuelExamples.iters 0 [] = true /\
  map (fun x => (su_cid x, su_pool x)) (pr_preempt FuelExamples.fuel 2 FuelExamples.iters 0 []) =
    [(21, 1%Z); (12, 0%Z)] /\
  pr_preempt (FuelExamples.fuel + 100) 2 FuelExamples.iters 0 [] =
    pr_preempt FuelExamples.fuel 2 FuelExamples.iters 0 [].
Proof. exact FuelExamples.stops_by_need. Qed.

(* five waiting query jobs but only three containers can be suspended: the loop leaves because every iterator
   is exhausted *)
Example C12_preempt_stops_by_exhaustion :
  pr_preempt_stops FuelExamples.fuel 5 FuelExamples.iters 0 [] = true /\
  map (fun x => (su_cid x, su_pool x)) (pr_preempt FuelExamples.fuel 5 FuelExamples.iters 0 []) =
    [(21, 1%Z); (12, 0%Z); (22, 1%Z)] /\
  pr_preempt (FuelExamples.fuel + 100) 5 FuelExamples.iters 0 [] =
    pr_preempt FuelExamples.fuel 5 FuelExamples.iters 0 [].
Proof. exact FuelExamples.stops_by_exhaustion. Qed.

(* [pr_preempt_stops] is not trivially true: on the same input a too small fuel is reported as such, and the
   answer is then a strict prefix of the right one *)
Example C12_preempt_small_fuel_does_not_stop :
  pr_preempt_stops 1 2 FuelExamples.iters 0 [] = false /\
  pr_preempt_stops 2 2 FuelExamples.iters 0 [] = false /\
  pr_preempt_stops 3 2 FuelExamples.iters 0 [] = false /\
  pr_preempt_stops 4 2 FuelExamples.iters 0 [] = true /\
  map su_cid (pr_preempt 2 2 FuelExamples.iters 0 []) = [21] /\
  pr_preempt_stops 6 5 FuelExamples.iters 0 [] = false /\
  pr_preempt_stops 7 5 FuelExamples.iters 0 [] = true /\
  map su_cid (pr_preempt 3 5 FuelExamples.iters 0 []) = [21; 12].
Proof. exact FuelExamples.small_fuel_does_not_stop. Qed.

(* ------------------------------------------------------------------------------------------ *)
(* Run level: first containers in arrival order (Proofs/PriorityFifoFacts.v).                   *)
(*                                                                                              *)
(* C12_fifo describes one scheduler call. Here: along a whole run, pipelines of equal priority   *)
(* receive their FIRST container in arrival order -- for priority-pool (which shares the class   *)
(* queues and the clause) and for priority with multi-operator containers.                       *)
(* Vocabulary: [arrived s] = the pipelines that have arrived, in arrival order ([sm_arrival]);   *)
(* [wof s] = the operator states; [fresh C w k] = no operator of pipeline k has left PENDING;     *)
(* [arrival_job C k] = the job filed when k arrives: all operators of k, no retry statistics.     *)
(* ------------------------------------------------------------------------------------------ *)
From Eudoxia Require Import Proofs.NaiveFacts Proofs.PriorityPoolRunFacts Proofs.NaiveRunFacts
  Proofs.PriorityFifoFacts.
Close Scope Q_scope.
Close Scope Z_scope.

(* priority-pool, states. [ops_fresh C w ops]: the list holds an operator of a fresh pipeline;
   [fresh_of C w c A]: the fresh pipelines of class c among A, in the order of A.
   In every reachable state and every class queue, the jobs that hold an operator of a fresh pipeline are exactly
   the arrival jobs of the fresh arrived pipelines of that class, in arrival order (none is missing, none is
   there twice, none is out of order); a pipeline that has not arrived is fresh. Nothing is assumed about pool
   sizes or the pool count; pipelines must have at least one operator (C17_run_fifo_needs_operators_refuted) *)
Theorem C12_pp_run_fifo : forall C l np cpu ram t s,
  cf_static C = mk_static l -> dags_wf l ->
  sim_reach C APriorityPool 0%Z (init_sim C np cpu ram) t s ->
  (forall k, In k (arrived s) -> pd_order (pipe_of (cf_static C) k) <> []) ->
  (forall c, filter (fun j => ops_fresh C (wof s) (j_ops j)) (queue_of (sm_sched s) c)
             = map (arrival_job C) (fresh_of C (wof s) c (arrived s))) /\
  (forall c, map j_pipe (filter (fun j => ops_fresh C (wof s) (j_ops j)) (queue_of (sm_sched s) c))
             = fresh_of C (wof s) c (arrived s)) /\
  (forall k, ~ In k (arrived s) -> fresh C (wof s) k) /\
  NoDup (arrived s).
Proof. exact PriorityFifoFacts.pp_run_fifo. Qed.
Print Assumptions C12_pp_run_fifo.

(* priority-pool, ticks. For every tick of every run there is, for each class c, a list [served c] such that
   - the fresh pipelines of class c before the tick (the tick's arrivals included), in arrival order, are
     [served c] followed by those that are still fresh after the tick: the pipelines that get their first
     container are an arrival-ordered PREFIX of the fresh ones -- no pipeline gets its first container while an
     earlier pipeline of its class is still waiting for its own;
   - the assignments of the tick that hold an operator of a fresh pipeline are, in the order of the log, one per
     served pipeline (query, interactive, batch; within a class in arrival order), each with all operators of
     its pipeline and its priority;
   - the last clause repeats the order in the form of C17_run_fifo_tick *)
Theorem C12_pp_run_fifo_tick : forall C l np cpu ram t s newp s' lg,
  cf_static C = mk_static l -> dags_wf l ->
  sim_reach C APriorityPool 0%Z (init_sim C np cpu ram) t s ->
  sim_tick C APriorityPool t s newp = Ok (s', lg) ->
  (forall k, In k (arrived s') -> pd_order (pipe_of (cf_static C) k) <> []) ->
  exists served : prio -> list nat,
    (forall c, fresh_of C (wof s) c (arrived s') = served c ++ fresh_of C (wof s') c (arrived s')) /\
    Forall2 (fun k a => a_ops a = pd_order (pipe_of (cf_static C) k) /\ a_prio a = prio_of_pipe C k)
            (served Query ++ served Interactive ++ served Batch)
            (filter (fun a => ops_fresh C (wof s) (a_ops a)) (tl_asgs lg)) /\
    (forall c k, In k (served c) ->
       In k (arrived s') /\ prio_of_pipe C k = c /\ fresh C (wof s) k /\ ~ fresh C (wof s') k) /\
    (forall l1 k1 l2 k2, arrived s' = l1 ++ k1 :: l2 -> In k2 l2 ->
       prio_of_pipe C k1 = prio_of_pipe C k2 -> fresh C (wof s) k1 -> In k2 (served (prio_of_pipe C k2)) ->
       exists s1 s2, served (prio_of_pipe C k2) = s1 ++ k1 :: s2 /\ In k2 s2).
Proof. exact PriorityFifoFacts.pp_run_fifo_tick. Qed.
Print Assumptions C12_pp_run_fifo_tick.

(* priority: a preempted container hands its operators back as PENDING, so "all operators PENDING" does not
   mean "never served" there; the statements speak of the logs instead. [sim_hist C a t0 s0 t s logs]: state s
   is reached from s0 through the ticks logged, in order, in [logs]; every run yields one: *)
Theorem C12_run_has_history : forall C a arrivals t s sf logs oe,
  sim_run C a t s arrivals = (sf, logs, oe) ->
  sim_hist C a t s (t + Z.of_nat (length logs))%Z sf logs.
Proof. exact PriorityFifoFacts.sim_run_hist. Qed.
Print Assumptions C12_run_has_history.

Theorem C12_history_reach : forall C a t0 s0 t s,
  sim_reach C a t0 s0 t s <-> exists logs, sim_hist C a t0 s0 t s logs.
Proof.
  exact (fun C a t0 s0 t s =>
    conj (PriorityFifoFacts.sim_reach_hist C a t0 s0 t s)
         (fun H => match H with ex_intro _ logs R => PriorityFifoFacts.sim_hist_reach C a t0 s0 t s logs R end)).
Qed.
Print Assumptions C12_history_reach.

(* [served_pipes C logs]: the pipelines that received a container in one of the logged ticks *)
Theorem C12_served_pipes_meaning : forall C logs k,
  In k (served_pipes C logs) <->
  exists lg a o, In lg logs /\ In a (tl_asgs lg) /\ In o (a_ops a) /\ op_pipe (cf_static C) o = k.
Proof. exact PriorityFifoFacts.served_pipes_In. Qed.
Print Assumptions C12_served_pipes_meaning.

(* priority, multi-operator containers, states. [jnew C sv j]: job j holds an operator of a pipeline outside
   sv; [waiting C sv c A]: the pipelines of class c among A that are outside sv, in the order of A.
   In every class queue the jobs that hold an operator of a never-served pipeline are exactly the arrival jobs of
   the arrived, never-served pipelines of that class, in arrival order; re-queued work (suspended or failed
   containers) belongs to served pipelines; a never-served pipeline has all its operators PENDING *)
Theorem C12_run_fifo : forall C l np cpu ram t s logs,
  cf_static C = mk_static l -> dags_wf l -> cf_multi C = true ->
  sim_hist C APriority 0%Z (init_sim C np cpu ram) t s logs ->
  (forall k, In k (arrived s) -> pd_order (pipe_of (cf_static C) k) <> []) ->
  (forall c, filter (jnew C (served_pipes C logs)) (queue_of (sm_sched s) c)
             = map (arrival_job C) (waiting C (served_pipes C logs) c (arrived s))) /\
  (forall c, map j_pipe (filter (jnew C (served_pipes C logs)) (queue_of (sm_sched s) c))
             = waiting C (served_pipes C logs) c (arrived s)) /\
  (forall k, ~ In k (served_pipes C logs) -> fresh C (wof s) k) /\
  incl (served_pipes C logs) (arrived s) /\ NoDup (arrived s).
Proof. exact PriorityFifoFacts.priority_run_fifo. Qed.
Print Assumptions C12_run_fifo.

(* priority, multi-operator containers, ticks: the statement of C12_pp_run_fifo_tick with "never served so far"
   in the place of "fresh". [anew C sv a]: assignment a holds an operator of a pipeline outside sv;
   [log_pipes C lg]: the pipelines that receive a container in the tick logged by lg *)
Theorem C12_run_fifo_tick : forall C l np cpu ram t s logs newp s' lg,
  cf_static C = mk_static l -> dags_wf l -> cf_multi C = true ->
  sim_hist C APriority 0%Z (init_sim C np cpu ram) t s logs ->
  sim_tick C APriority t s newp = Ok (s', lg) ->
  (forall k, In k (arrived s') -> pd_order (pipe_of (cf_static C) k) <> []) ->
  exists served : prio -> list nat,
    (forall c, waiting C (served_pipes C logs) c (arrived s')
               = served c ++ waiting C (served_pipes C (logs ++ [lg])) c (arrived s')) /\
    Forall2 (fun k a => a_ops a = pd_order (pipe_of (cf_static C) k) /\ a_prio a = prio_of_pipe C k)
            (served Query ++ served Interactive ++ served Batch)
            (filter (anew C (served_pipes C logs)) (tl_asgs lg)) /\
    (forall c k, In k (served c) ->
       In k (arrived s') /\ prio_of_pipe C k = c /\ ~ In k (served_pipes C logs) /\ In k (log_pipes C lg)) /\
    (forall l1 k1 l2 k2, arrived s' = l1 ++ k1 :: l2 -> In k2 l2 ->
       prio_of_pipe C k1 = prio_of_pipe C k2 -> ~ In k1 (served_pipes C logs) ->
       In k2 (served (prio_of_pipe C k2)) ->
       exists s1 s2, served (prio_of_pipe C k2) = s1 ++ k1 :: s2 /\ In k2 s2).
Proof. exact PriorityFifoFacts.priority_run_fifo_tick. Qed.
Print Assumptions C12_run_fifo_tick.

(* non-vacuity, on a run where the order matters. Three batch pipelines of one operator; pools of 1 CPU / 1 GB
   (a container takes the whole pool). Pipeline 0 arrives in tick 0 and fills the pool for three ticks; pipelines
   2 and 1 arrive IN THIS ORDER in tick 1 while the pool is full. All hypotheses of the four theorems hold at
   tick 3 (priority-pool: two pools; priority: one pool) ... *)
Example C12_pp_fifo_hypotheses :
  cf_static FifoExamples.Cf = mk_static FifoExamples.Lf /\ dags_wf FifoExamples.Lf /\
  sim_reach FifoExamples.Cf APriorityPool 0%Z (init_sim FifoExamples.Cf 2 1%Z 1%Q) 3%Z FifoExamples.pp_s3 /\
  sim_tick FifoExamples.Cf APriorityPool 3%Z FifoExamples.pp_s3 [] = Ok (FifoExamples.pp_s4, FifoExamples.pp_lg4) /\
  (forall k, In k (arrived FifoExamples.pp_s3) -> pd_order (pipe_of (cf_static FifoExamples.Cf) k) <> []) /\
  (forall k, In k (arrived FifoExamples.pp_s4) -> pd_order (pipe_of (cf_static FifoExamples.Cf) k) <> []).
Proof. exact FifoExamples.pp_hypotheses. Qed.

Example C12_fifo_hypotheses :
  cf_static FifoExamples.Cf = mk_static FifoExamples.Lf /\ dags_wf FifoExamples.Lf /\
  cf_multi FifoExamples.Cf = true /\
  sim_hist FifoExamples.Cf APriority 0%Z (init_sim FifoExamples.Cf 1 1%Z 1%Q) 3%Z
           FifoExamples.pr_s3 FifoExamples.pr_logs3 /\
  sim_tick FifoExamples.Cf APriority 3%Z FifoExamples.pr_s3 [] = Ok (FifoExamples.pr_s4, FifoExamples.pr_lg4) /\
  (forall k, In k (arrived FifoExamples.pr_s3) -> pd_order (pipe_of (cf_static FifoExamples.Cf) k) <> []) /\
  (forall k, In k (arrived FifoExamples.pr_s4) -> pd_order (pipe_of (cf_static FifoExamples.Cf) k) <> []).
Proof. exact FifoExamples.pr_hypotheses. Qed.

(* ... what the runs look like: before the round of tick 3 the batch queue holds the jobs of pipelines 2, 1 in
   this order, both fresh / never served; the tick assigns operator 2 only; afterwards pipeline 1 alone waits *)
Example C12_pp_fifo_view :
  map j_pipe (ss_b (sm_sched FifoExamples.pp_s3)) = [2; 1] /\
  fresh_of FifoExamples.Cf (wof FifoExamples.pp_s3) Batch (arrived FifoExamples.pp_s4) = [2; 1] /\
  fresh_of FifoExamples.Cf (wof FifoExamples.pp_s4) Batch (arrived FifoExamples.pp_s4) = [1] /\
  map a_ops (tl_asgs FifoExamples.pp_lg4) = [[2]] /\
  map (fun lg => (tl_new lg, map a_ops (tl_asgs lg))) FifoExamples.pp_logs3 = [([0], [[0]]); ([2; 1], []); ([], [])].
Proof. exact FifoExamples.pp_view. Qed.

Example C12_fifo_view :
  map j_pipe (ss_b (sm_sched FifoExamples.pr_s3)) = [2; 1] /\
  served_pipes FifoExamples.Cf FifoExamples.pr_logs3 = [0] /\
  waiting FifoExamples.Cf (served_pipes FifoExamples.Cf FifoExamples.pr_logs3) Batch (arrived FifoExamples.pr_s4)
    = [2; 1] /\
  waiting FifoExamples.Cf (served_pipes FifoExamples.Cf (FifoExamples.pr_logs3 ++ [FifoExamples.pr_lg4])) Batch
          (arrived FifoExamples.pr_s4) = [1] /\
  map a_ops (tl_asgs FifoExamples.pr_lg4) = [[2]].
Proof. exact FifoExamples.pr_view. Qed.

(* ... and the tick theorems applied to them: the pipelines served first in tick 3 are [2] -- the one that arrived
   first -- and the assignment holding fresh / never-served work is theirs *)
Example C12_pp_fifo_applied :
  exists served : prio -> list nat,
    served Batch = [2] /\
    Forall2 (fun k a => a_ops a = pd_order (pipe_of (cf_static FifoExamples.Cf) k) /\
                        a_prio a = prio_of_pipe FifoExamples.Cf k)
            (served Query ++ served Interactive ++ served Batch)
            (filter (fun a => ops_fresh FifoExamples.Cf (wof FifoExamples.pp_s3) (a_ops a))
                    (tl_asgs FifoExamples.pp_lg4)).
Proof. exact FifoExamples.pp_applied. Qed.

Example C12_fifo_applied :
  exists served : prio -> list nat,
    served Batch = [2] /\
    Forall2 (fun k a => a_ops a = pd_order (pipe_of (cf_static FifoExamples.Cf) k) /\
                        a_prio a = prio_of_pipe FifoExamples.Cf k)
            (served Query ++ served Interactive ++ served Batch)
            (filter (anew FifoExamples.Cf (served_pipes FifoExamples.Cf FifoExamples.pr_logs3))
                    (tl_asgs FifoExamples.pr_lg4)).
Proof. exact FifoExamples.pr_applied. Qed.

(* the same for priority read off the logs of a run alone: for every tick [lg] of every run, with [pre] the logs
   of the earlier ticks, the arrival order up to and including the tick being [flat_map tl_new (pre ++ [lg])]:
   the pipelines of a class that hold their first container in [lg] are an arrival-ordered prefix of those that
   hold none in [pre], and their assignments appear in [lg] in that order *)
Theorem C12_run_fifo_logs : forall C l np cpu ram arrivals sf logs oe,
  cf_static C = mk_static l -> dags_wf l -> cf_multi C = true ->
  sim_run C APriority 0%Z (init_sim C np cpu ram) arrivals = (sf, logs, oe) ->
  (forall k, In k (concat arrivals) -> pd_order (pipe_of (cf_static C) k) <> []) ->
  forall pre lg post, logs = pre ++ lg :: post ->
  exists served : prio -> list nat,
    (forall c, waiting C (served_pipes C pre) c (flat_map tl_new (pre ++ [lg]))
               = served c ++ waiting C (served_pipes C (pre ++ [lg])) c (flat_map tl_new (pre ++ [lg]))) /\
    Forall2 (fun k a => a_ops a = pd_order (pipe_of (cf_static C) k) /\ a_prio a = prio_of_pipe C k)
            (served Query ++ served Interactive ++ served Batch)
            (filter (anew C (served_pipes C pre)) (tl_asgs lg)).
Proof. exact PriorityFifoFacts.priority_logs_fifo. Qed.
Print Assumptions C12_run_fifo_logs.

Example C12_fifo_logs_hypotheses :
  sim_run FifoExamples.Cf APriority 0%Z (init_sim FifoExamples.Cf 1 1%Z 1%Q) FifoExamples.arrs5
    = (FifoExamples.pr_s5, FifoExamples.pr_logs3 ++ FifoExamples.pr_lg4 :: [FifoExamples.pr_lg5], None) /\
  (forall k, In k (concat FifoExamples.arrs5) -> pd_order (pipe_of (cf_static FifoExamples.Cf) k) <> []) /\
  map (fun lg => (tl_new lg, map a_ops (tl_asgs lg)))
      (FifoExamples.pr_logs3 ++ FifoExamples.pr_lg4 :: [FifoExamples.pr_lg5])
    = [([0], [[0]]); ([2; 1], []); ([], []); ([], [[2]]); ([], [[1]])].
Proof. exact FifoExamples.pr_logs_hypotheses. Qed.

(* ------------------------------------------------------------------------------------------ *)
(* Run level, priority with ONE operator per container (Proofs/PriorityFifoSingleFacts.v).       *)
(*                                                                                              *)
(* In this mode an arriving pipeline files one job per ready operator -- its ROOT operators (no  *)
(* parents), in the order of operator_states -- and later operators are filed as their parents   *)
(* complete, i.e. after the pipeline has been served. A class queue holds blocks of jobs and a   *)
(* scan can stop in the middle of a block. A new job always receives a container when it is      *)
(* scanned (its size depends on the pool only), so no root operator is skipped.                  *)
(* Vocabulary: [root_ops C k] = the operators of pipeline k without parents, in the order of     *)
(* operator_states; [root_job C k o] = the job with the single operator o, class of k, no retry  *)
(* statistics; [root_jobs C k] = these jobs for all root operators of k; [before l x y] = x      *)
(* stands before some occurrence of y in l.                                                      *)
(* ------------------------------------------------------------------------------------------ *)
From Eudoxia Require Import Proofs.PriorityFifoSingleFacts.
Close Scope Q_scope.
Close Scope Z_scope.

(* states. In every class queue the jobs that hold an operator of a never-served pipeline are exactly the root
   jobs of the arrived, never-served pipelines of that class: grouped by pipeline, the pipelines in arrival
   order, each with all its root operators (clauses 1, 2); hence every root job of an earlier never-served
   pipeline stands before every job of a later one (clause 3); every arrived pipeline has a root operator;
   a never-served pipeline has all its operators PENDING *)
Theorem C12_single_run_fifo : forall C l np cpu ram t s logs,
  cf_static C = mk_static l -> dags_wf l -> cf_multi C = false ->
  sim_hist C APriority 0%Z (init_sim C np cpu ram) t s logs ->
  (forall k, In k (arrived s) -> pd_order (pipe_of (cf_static C) k) <> []) ->
  (forall c, filter (jnew C (served_pipes C logs)) (queue_of (sm_sched s) c)
             = flat_map (root_jobs C) (waiting C (served_pipes C logs) c (arrived s))) /\
  (forall c, map j_pipe (filter (jnew C (served_pipes C logs)) (queue_of (sm_sched s) c))
             = flat_map (fun k => map (fun _ => k) (root_ops C k))
                        (waiting C (served_pipes C logs) c (arrived s))) /\
  (forall c k1 k2 q1 j2 q2,
     before (waiting C (served_pipes C logs) c (arrived s)) k1 k2 ->
     filter (jnew C (served_pipes C logs)) (queue_of (sm_sched s) c) = q1 ++ j2 :: q2 -> j_pipe j2 = k2 ->
     forall o1, In o1 (root_ops C k1) -> In (root_job C k1 o1) q1) /\
  (forall k, In k (arrived s) -> root_ops C k <> []) /\
  (forall k, ~ In k (served_pipes C logs) -> fresh C (wof s) k) /\
  incl (served_pipes C logs) (arrived s) /\ NoDup (arrived s).
Proof. exact PriorityFifoSingleFacts.priority_single_run_fifo. Qed.
Print Assumptions C12_single_run_fifo.

(* ticks. For every tick of every run there are, for each class c, a list [served c] of pipelines and a list
   [started c] of jobs such that
   1. the never-served pipelines of class c before the tick (the tick's arrivals included), in arrival order,
      are [served c] followed by those still never served after the tick: the pipelines reached are an
      arrival-ordered PREFIX of the waiting ones;
   2. [started c] is: all root jobs of every pipeline of [served c] but the last, then a non-empty prefix of
      the root jobs of the last one (the scan may stop in the middle of the last block);
   3. the assignments of the tick that hold an operator of a never-served pipeline are, in the order of the log,
      one per job of started Query ++ started Interactive ++ started Batch, with its operator and priority;
   4. every pipeline of [served c] was never served before and holds a container in this tick;
   5. the order, in the form of C12_run_fifo_tick;
   6. no overtaking: if an assignment of the tick holds an operator of a never-served pipeline k2, then for
      every never-served pipeline k1 of the same class that arrived earlier, EVERY root operator of k1 is started
      by an assignment standing earlier in the log of this tick *)
Theorem C12_single_run_fifo_tick : forall C l np cpu ram t s logs newp s' lg,
  cf_static C = mk_static l -> dags_wf l -> cf_multi C = false ->
  sim_hist C APriority 0%Z (init_sim C np cpu ram) t s logs ->
  sim_tick C APriority t s newp = Ok (s', lg) ->
  (forall k, In k (arrived s') -> pd_order (pipe_of (cf_static C) k) <> []) ->
  exists (served : prio -> list nat) (started : prio -> list job),
    (forall c, waiting C (served_pipes C logs) c (arrived s')
               = served c ++ waiting C (served_pipes C (logs ++ [lg])) c (arrived s')) /\
    (forall c, (served c = [] /\ started c = []) \/
               exists W1 k r1 r2, served c = W1 ++ [k] /\ root_jobs C k = r1 ++ r2 /\ r1 <> [] /\
                                  started c = flat_map (root_jobs C) W1 ++ r1) /\
    Forall2 (fun j a => a_ops a = j_ops j /\ a_prio a = j_prio j)
            (started Query ++ started Interactive ++ started Batch)
            (filter (anew C (served_pipes C logs)) (tl_asgs lg)) /\
    (forall c k, In k (served c) ->
       In k (arrived s') /\ prio_of_pipe C k = c /\ ~ In k (served_pipes C logs) /\ In k (log_pipes C lg)) /\
    (forall l1 k1 l2 k2, arrived s' = l1 ++ k1 :: l2 -> In k2 l2 ->
       prio_of_pipe C k1 = prio_of_pipe C k2 -> ~ In k1 (served_pipes C logs) ->
       In k2 (served (prio_of_pipe C k2)) ->
       exists s1 s2, served (prio_of_pipe C k2) = s1 ++ k1 :: s2 /\ In k2 s2) /\
    (forall l1 k1 l2 k2 pre a2 post o2,
       arrived s' = l1 ++ k1 :: l2 -> In k2 l2 ->
       prio_of_pipe C k1 = prio_of_pipe C k2 ->
       ~ In k1 (served_pipes C logs) -> ~ In k2 (served_pipes C logs) ->
       tl_asgs lg = pre ++ a2 :: post -> In o2 (a_ops a2) -> op_pipe (cf_static C) o2 = k2 ->
       forall o1, In o1 (root_ops C k1) -> exists a1, In a1 pre /\ a_ops a1 = [o1]).
Proof. exact PriorityFifoSingleFacts.priority_single_run_fifo_tick. Qed.
Print Assumptions C12_single_run_fifo_tick.

(* the same read off the logs of a run alone (clauses 1-3) *)
Theorem C12_single_run_fifo_logs : forall C l np cpu ram arrivals sf logs oe,
  cf_static C = mk_static l -> dags_wf l -> cf_multi C = false ->
  sim_run C APriority 0%Z (init_sim C np cpu ram) arrivals = (sf, logs, oe) ->
  (forall k, In k (concat arrivals) -> pd_order (pipe_of (cf_static C) k) <> []) ->
  forall pre lg post, logs = pre ++ lg :: post ->
  exists (served : prio -> list nat) (started : prio -> list job),
    (forall c, waiting C (served_pipes C pre) c (flat_map tl_new (pre ++ [lg]))
               = served c ++ waiting C (served_pipes C (pre ++ [lg])) c (flat_map tl_new (pre ++ [lg]))) /\
    (forall c, (served c = [] /\ started c = []) \/
               exists W1 k r1 r2, served c = W1 ++ [k] /\ root_jobs C k = r1 ++ r2 /\ r1 <> [] /\
                                  started c = flat_map (root_jobs C) W1 ++ r1) /\
    Forall2 (fun j a => a_ops a = j_ops j /\ a_prio a = j_prio j)
            (started Query ++ started Interactive ++ started Batch)
            (filter (anew C (served_pipes C pre)) (tl_asgs lg)).
Proof. exact PriorityFifoSingleFacts.priority_single_logs_fifo. Qed.
Print Assumptions C12_single_run_fifo_logs.

(* non-vacuity, on a run where the order matters. Three batch pipelines without edges: pipeline 0 = operators
   0, 1, 2 (three ticks each), pipeline 1 = operators 3, 4, pipeline 2 = operators 5, 6. One pool of 3 CPU / 3 GB
   holds three containers. Pipeline 0 arrives in tick 0 and fills the pool; pipelines 2 and 1 arrive IN THIS ORDER
   in tick 1 while the pool is full. All hypotheses of the theorems hold at tick 3 ... *)
Example C12_single_fifo_hypotheses :
  cf_static SingleFifoExamples.Cs = mk_static SingleFifoExamples.Ls /\ dags_wf SingleFifoExamples.Ls /\
  cf_multi SingleFifoExamples.Cs = false /\
  sim_hist SingleFifoExamples.Cs APriority 0%Z (init_sim SingleFifoExamples.Cs 1 3%Z 3%Q) 3%Z
           SingleFifoExamples.s_s3 SingleFifoExamples.s_logs3 /\
  sim_tick SingleFifoExamples.Cs APriority 3%Z SingleFifoExamples.s_s3 []
    = Ok (SingleFifoExamples.s_s4, SingleFifoExamples.s_lg4) /\
  (forall k, In k (arrived SingleFifoExamples.s_s3) ->
             pd_order (pipe_of (cf_static SingleFifoExamples.Cs) k) <> []) /\
  (forall k, In k (arrived SingleFifoExamples.s_s4) ->
             pd_order (pipe_of (cf_static SingleFifoExamples.Cs) k) <> []).
Proof. exact SingleFifoExamples.s_hypotheses. Qed.

(* ... what the run looks like: before the round of tick 3 the batch queue holds the blocks [5], [6] | [3], [4] of
   the never-served pipelines 2, 1; the tick starts [5], [6], [3] -- the whole block of pipeline 2, then a part
   of the block of pipeline 1 -- and afterwards no pipeline is waiting; the job [4] is left in the queue *)
Example C12_single_fifo_view :
  map j_ops (ss_b (sm_sched SingleFifoExamples.s_s3)) = [[5]; [6]; [3]; [4]] /\
  root_ops SingleFifoExamples.Cs 2 = [5; 6] /\ root_ops SingleFifoExamples.Cs 1 = [3; 4] /\
  served_pipes SingleFifoExamples.Cs SingleFifoExamples.s_logs3 = [0; 0; 0] /\
  waiting SingleFifoExamples.Cs (served_pipes SingleFifoExamples.Cs SingleFifoExamples.s_logs3) Batch
          (arrived SingleFifoExamples.s_s4) = [2; 1] /\
  waiting SingleFifoExamples.Cs
          (served_pipes SingleFifoExamples.Cs (SingleFifoExamples.s_logs3 ++ [SingleFifoExamples.s_lg4])) Batch
          (arrived SingleFifoExamples.s_s4) = [] /\
  map a_ops (tl_asgs SingleFifoExamples.s_lg4) = [[5]; [6]; [3]] /\
  map a_ops SingleFifoExamples.s_pre = [[5]; [6]] /\ a_ops SingleFifoExamples.s_a2 = [3] /\
  map j_ops (ss_b (sm_sched SingleFifoExamples.s_s4)) = [[4]].
Proof. exact SingleFifoExamples.s_view. Qed.

(* ... the state theorem applied to the state before tick 3 ... *)
Example C12_single_fifo_state_applied :
  map j_ops (filter (jnew SingleFifoExamples.Cs (served_pipes SingleFifoExamples.Cs SingleFifoExamples.s_logs3))
                    (ss_b (sm_sched SingleFifoExamples.s_s3))) = [[5]; [6]; [3]; [4]].
Proof. exact SingleFifoExamples.s_state_applied. Qed.

(* ... and the tick theorem applied to tick 3: the pipelines reached are [2; 1], in arrival order, and the
   assignment of pipeline 1 ([s_a2], operator 3) stands after assignments ([s_pre]) for both root operators of
   pipeline 2 *)
Example C12_single_fifo_applied :
  exists (served : prio -> list nat) (started : prio -> list job),
    served Batch = [2; 1] /\
    Forall2 (fun j a => a_ops a = j_ops j /\ a_prio a = j_prio j)
            (started Query ++ started Interactive ++ started Batch)
            (filter (anew SingleFifoExamples.Cs (served_pipes SingleFifoExamples.Cs SingleFifoExamples.s_logs3))
                    (tl_asgs SingleFifoExamples.s_lg4)) /\
    (forall o1, In o1 (root_ops SingleFifoExamples.Cs 2) ->
       exists a1, In a1 SingleFifoExamples.s_pre /\ a_ops a1 = [o1]).
Proof. exact SingleFifoExamples.s_tick_applied. Qed.

Example C12_single_fifo_logs_hypotheses :
  sim_run SingleFifoExamples.Cs APriority 0%Z (init_sim SingleFifoExamples.Cs 1 3%Z 3%Q) SingleFifoExamples.arrs5
    = (SingleFifoExamples.s_s5,
       SingleFifoExamples.s_logs3 ++ SingleFifoExamples.s_lg4 :: [SingleFifoExamples.s_lg5], None) /\
  (forall k, In k (concat SingleFifoExamples.arrs5) ->
             pd_order (pipe_of (cf_static SingleFifoExamples.Cs) k) <> []) /\
  map (fun lg => (tl_new lg, map a_ops (tl_asgs lg)))
      (SingleFifoExamples.s_logs3 ++ SingleFifoExamples.s_lg4 :: [SingleFifoExamples.s_lg5])
    = [([0], [[0]; [1]; [2]]); ([2; 1], []); ([], []); ([], [[5]; [6]; [3]]); ([], [[4]])].
Proof. exact SingleFifoExamples.s_logs_hypotheses. Qed.
