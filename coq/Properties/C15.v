(* C15 The workload generator emits well-formed pipelines that follow its parameters.
   Statements only; every proof is [exact <lemma of Proofs/GeneratorFacts.v>].

   The generator (WorkloadGenerator in eudoxia/workload/workload.py) is modelled in Model/Generator.v as a
   function of its DRAW STREAM: [gen_run P n (gen_init ds)] is what n calls of run_one_tick return when the
   rng answers the successive choice / normal calls with the draws [ds]; it is [None] when the stream does
   not fit the calls the code makes. All theorems hold for EVERY stream, hence for every seed.
   A pipeline is [gp_id] (the n of "p{n}"), [gp_prio] (Priority value, 1 = QUERY) and its operators in
   creation order, each with the indices of its parents and the prototype of its single segment
   (0..6 = the rungs of generate_segment_from_val, most I/O-heavy first; 7 = the query prototype).
   "One segment per operator" and "operators only have operators of the same pipeline as parents" hold by
   construction of this representation (the correspondence check reads both from the real objects).

   Assumptions that are NOT theorems here: numpy's normal(loc) is loc + z for a standard normal z, symmetric
   about 0; the doubles of the bit generator are uniform on [0,1). numpy's Generator.choice is no longer a free
   input everywhere: [choice_float] (Model/Generator.v) is what numpy computes in binary64 from the one uniform
   double u it draws - checked against numpy on every class draw of the correspondence stream G-gen-u
   (kind 25, gen_run_u) - and the last section relates it to the exact inverse CDF [choice_of]. *)
From Coq Require Import List ZArith QArith Qabs Arith.
Import ListNotations.
From Eudoxia Require Import Num.Rnd64 Model.Types Model.Generator Proofs.GeneratorFacts Proofs.FloatBoundFacts
  Proofs.ChoiceFloatFacts.
Close Scope Q_scope.
Close Scope Z_scope.

(* ---- structure of what is delivered ---- *)

(* every arrival event delivers exactly num_pipelines pipelines *)
Theorem C15_batch_size : forall P n s out s',
  gen_run P n s = Some (out, s') -> forall b, In b out -> b = [] \/ length b = g_np P.
Proof. exact batch_size. Qed.
Print Assumptions C15_batch_size.

(* fresh ids: over a whole run the ids are p1, p2, p3, ... in order of delivery, all distinct *)
Theorem C15_fresh_ids : forall P n ds out s',
  gen_run P n (gen_init ds) = Some (out, s') ->
  map gp_id (concat out) = zseq 1 (length (concat out)) /\ NoDup (map gp_id (concat out)).
Proof. exact fresh_ids. Qed.
Print Assumptions C15_fresh_ids.

(* a query pipeline has exactly one operator, without parents, with the query prototype *)
Theorem C15_query_single_op : forall P n s out s',
  gen_run P n s = Some (out, s') -> forall p, In p (concat out) ->
  gp_prio p = query_value -> gp_ops p = [ {| go_parents := []; go_proto := query_proto |} ].
Proof. exact query_single_op. Qed.
Print Assumptions C15_query_single_op.

(* any other pipeline is a chain of at least one operator: operator 0 has no parent, operator j+1 has
   exactly the parent j *)
Theorem C15_nonquery_chain : forall P n s out s',
  gen_run P n s = Some (out, s') -> forall p, In p (concat out) ->
  gp_prio p <> query_value ->
  1 <= length (gp_ops p) /\
  forall j o, nth_error (gp_ops p) j = Some o ->
    go_parents o = match j with 0 => [] | S j' => [j'] end.
Proof. exact nonquery_chain. Qed.
Print Assumptions C15_nonquery_chain.

(* its operator count is the draw, truncated, floored at 1 (drawn with mean num_operators) *)
Theorem C15_op_count : forall P cnt ds p ds',
  gen_pipeline P cnt ds = Some (p, ds') ->
  gp_id p = (cnt + 1)%Z /\
  exists v rest, ds = DChoice v :: rest /\ gp_prio p = v /\
    (v <> query_value -> exists mu x rest', rest = DNormal mu x :: rest' /\ (mu == g_nops P)%Q /\
       Z.of_nat (length (gp_ops p)) = op_count x).
Proof. exact pipeline_op_count. Qed.
Print Assumptions C15_op_count.

(* the first operator is the I/O-heavy prototype *)
Theorem C15_first_op_io_heavy : forall P n s out s',
  gen_run P n s = Some (out, s') -> forall p, In p (concat out) ->
  gp_prio p <> query_value ->
  exists o t, gp_ops p = o :: t /\ go_proto o = 0 /\ go_parents o = [].
Proof. exact first_op_io_heavy. Qed.
Print Assumptions C15_first_op_io_heavy.

(* later operators never are (generate_segment_not_heavy_io clips the draw at -1) *)
Theorem C15_later_op_proto_ge_1 : forall P n s out s',
  gen_run P n s = Some (out, s') -> forall p, In p (concat out) ->
  gp_prio p <> query_value ->
  forall j o, nth_error (gp_ops p) (S j) = Some o -> 1 <= go_proto o <= 6.
Proof. exact later_op_proto_ge_1. Qed.
Print Assumptions C15_later_op_proto_ge_1.

(* every segment is one of the eight documented prototypes; the if/elif ladder never falls through *)
Theorem C15_protos_documented : forall P n s out s',
  gen_run P n s = Some (out, s') -> forall p o, In p (concat out) -> In o (gp_ops p) -> go_proto o <= 7.
Proof. exact protos_documented. Qed.
Print Assumptions C15_protos_documented.

Theorem C15_ladder_total : forall v, exists i, proto_of_val v = Some i /\ i < 7.
Proof. exact proto_of_val_some. Qed.
Print Assumptions C15_ladder_total.

(* ---- cpu_io_ratio ---- *)

(* the ladder is monotone: a larger draw never selects a more I/O-heavy prototype *)
Theorem C15_proto_monotone : forall v1 v2, (v1 <= v2)%Q -> proto_idx v1 <= proto_idx v2.
Proof. exact proto_monotone. Qed.
Print Assumptions C15_proto_monotone.

(* raising cpu_io_ratio from r1 to r2 never makes a later operator more I/O-heavy, whatever the standard
   normal z behind the draw r + z is (exact sum, and the double nearest to it), and for r1 < r2 some z
   makes it strictly more CPU-heavy *)
Theorem C15_ratio_monotone : forall r1 r2, (r1 <= r2)%Q ->
  forall z, proto_idx (clip (r1 + z)) <= proto_idx (clip (r2 + z)).
Proof. exact ratio_monotone. Qed.
Print Assumptions C15_ratio_monotone.

Theorem C15_ratio_monotone_float : forall r1 r2, (r1 <= r2)%Q ->
  forall z, proto_idx (clip (fadd r1 z)) <= proto_idx (clip (fadd r2 z)).
Proof. exact ratio_monotone_rnd. Qed.
Print Assumptions C15_ratio_monotone_float.

Theorem C15_ratio_strict : forall r1 r2, (r1 < r2)%Q ->
  exists z, proto_idx (clip (r1 + z)) < proto_idx (clip (r2 + z)).
Proof. exact ratio_strict. Qed.
Print Assumptions C15_ratio_strict.

(* ---- arrival clock ---- *)

(* an arrival event that draws x is followed by exactly w = next_wait mean x >= 0 empty ticks and the
   tick after them is the next arrival event: consecutive events are w + 1 >= 1 ticks apart *)
Theorem C15_gap_at_least_one_tick : forall P s b s1,
  (0 <= g_wmean P)%Z ->
  gs_since s = gs_wait s -> gen_tick P s = Some (b, s1) ->
  length b = g_np P /\
  (exists mu x, gs_wait s1 = next_wait (g_wmean P) x /\ (mu == inject_Z (g_wmean P))%Q) /\
  (0 <= gs_wait s1)%Z /\
  let w := Z.to_nat (gs_wait s1) in
  gen_run P w s1 = Some (repeat [] w, idle s1 w) /\
  gs_since (idle s1 w) = gs_wait (idle s1 w) /\
  forall b' s2, gen_tick P (idle s1 w) = Some (b', s2) -> length b' = g_np P.
Proof. exact gap_exact. Qed.
Print Assumptions C15_gap_at_least_one_tick.

(* with a mean of at least one tick two arrival events are never in adjacent ticks *)
Theorem C15_events_not_adjacent : forall P n s out s',
  (1 <= g_wmean P)%Z -> 1 <= g_np P ->
  gen_run P n s = Some (out, s') ->
  forall i, nth i out [] <> [] -> nth (S i) out [] = [].
Proof. exact events_not_adjacent. Qed.
Print Assumptions C15_events_not_adjacent.

(* pairing: gap draws m + d and m - d with |d| <= m - 1 give gaps that sum to 2m+1 or 2m+2: for a draw
   distribution symmetric about the mean m (in ticks) and supported within m - 1 of it, the mean gap is
   between m + 1/2 and m + 1 *)
Theorem C15_gap_pairing : forall (m : Z) (d : Q),
  (1 <= inject_Z m + d)%Q -> (1 <= inject_Z m - d)%Q ->
  (2 * m + 1 <= gap_of m (inject_Z m + d) + gap_of m (inject_Z m - d) <= 2 * m + 2)%Z.
Proof. exact gap_pairing. Qed.
Print Assumptions C15_gap_pairing.

(* the same for the operator count around an integer num_operators = n: mean between n - 1/2 and n *)
Theorem C15_op_count_pairing : forall (n : Z) (d : Q),
  (1 <= inject_Z n + d)%Q -> (1 <= inject_Z n - d)%Q ->
  (2 * n - 1 <= op_count (inject_Z n + d) + op_count (inject_Z n - d) <= 2 * n)%Z.
Proof. exact op_count_pairing. Qed.
Print Assumptions C15_op_count_pairing.

(* ---- priorities: choice as inverse CDF ---- *)

(* the u that select class i form the interval [cdf i, cdf (i+1)), whose length is p_i *)
Theorem C15_choice_measure : forall probs u i,
  Forall (fun p => 0 <= p)%Q probs -> i < length probs -> (0 <= u)%Q ->
  (choice_of probs u = i <-> (cdf probs i <= u /\ u < cdf probs (S i))%Q) /\
  (cdf probs (S i) - cdf probs i == nth i probs 0)%Q.
Proof. exact choice_measure. Qed.
Print Assumptions C15_choice_measure.

Theorem C15_choice_in_range : forall probs u,
  Forall (fun p => 0 <= p)%Q probs -> (0 <= u)%Q -> (u < sumQl probs)%Q -> choice_of probs u < length probs.
Proof. exact choice_in_range. Qed.
Print Assumptions C15_choice_in_range.

(* a class with probability 0 never appears *)
Theorem C15_choice_never_zero : forall probs u i,
  Forall (fun p => 0 <= p)%Q probs -> i < length probs -> (0 <= u)%Q ->
  (nth i probs 0 == 0)%Q -> choice_of probs u <> i.
Proof. exact choice_never_zero. Qed.
Print Assumptions C15_choice_never_zero.

(* a class with probability 1 always *)
Theorem C15_choice_always_one : forall probs u i,
  Forall (fun p => 0 <= p)%Q probs -> i < length probs ->
  (sumQl probs == 1)%Q -> (nth i probs 0 == 1)%Q -> (0 <= u)%Q -> (u < 1)%Q -> choice_of probs u = i.
Proof. exact choice_always_one. Qed.
Print Assumptions C15_choice_always_one.

(* ---- non-vacuity ---- *)

(* num_pipelines = 2, num_operators = 3, cpu_io_ratio = 1/2, mean gap 2 ticks; draws: batch pipeline with
   int(3.7) = 3 operators (prototype draws 0.2 -> rung 3, -1.5 -> clipped to rung 1), a query pipeline,
   gap draw 2.9 -> 2 empty ticks, then the next event (interactive, count draw -4 -> 1 operator; query) *)
Definition ex_P : gparams := {| g_np := 2; g_nops := 3 # 1; g_ratio := 1 # 2; g_wmean := 2 |}.
Definition ex_draws : list draw :=
  [ DChoice 3; DNormal (3 # 1) (37 # 10); DNormal (1 # 2) (1 # 5); DNormal (1 # 2) (-3 # 2);
    DChoice 1; DNormal (2 # 1) (29 # 10);
    DChoice 2; DNormal (3 # 1) (-4 # 1); DChoice 1; DNormal (2 # 1) (-1 # 3) ]%Q.
Example C15_ex_run :
  option_map fst (gen_run ex_P 5 (gen_init ex_draws)) =
  Some [ [ {| gp_id := 1; gp_prio := 3;
              gp_ops := [ {| go_parents := []; go_proto := 0 |}; {| go_parents := [0]; go_proto := 3 |};
                          {| go_parents := [1]; go_proto := 1 |} ] |};
           {| gp_id := 2; gp_prio := 1; gp_ops := [ {| go_parents := []; go_proto := 7 |} ] |} ];
         []; [];
         [ {| gp_id := 3; gp_prio := 2; gp_ops := [ {| go_parents := []; go_proto := 0 |} ] |};
           {| gp_id := 4; gp_prio := 1; gp_ops := [ {| go_parents := []; go_proto := 7 |} ] |} ];
         [] ].
Proof. vm_compute. reflexivity. Qed.

(* a stream that does not fit the calls (a choice where the operator count is drawn) is refused *)
Example C15_ex_bad_stream : gen_run ex_P 1 (gen_init [DChoice 3; DChoice 1]) = None.
Proof. vm_compute. reflexivity. Qed.

(* the ladder on its thresholds: -1, -1/2, 0, 1/2, 1, 3/2 belong to the rung above *)
Example C15_ex_thresholds :
  map proto_idx [-2 # 1; -1 # 1; -1 # 2; 0; 1 # 2; 1; 3 # 2; 9 # 1]%Q = [0; 1; 2; 3; 4; 5; 6; 6].
Proof. vm_compute. reflexivity. Qed.

(* cpu_io_ratio 0 vs 1 for the same z = -0.3: rung 2 vs rung 4 *)
Example C15_ex_ratio : (proto_idx (clip (0 + (-3 # 10))), proto_idx (clip (1 + (-3 # 10))))%Q = (2, 4).
Proof. vm_compute. reflexivity. Qed.

(* pairing holds for m = 10, d = 9 and fails beyond m - 1 (d = 9.5: the draw 0.5 truncates to 0 and is
   replaced by the mean, gaps 20 + 11) - such draws are more than 3.6 standard deviations from the mean *)
Example C15_ex_pairing :
  (gap_of 10 (19 # 1) + gap_of 10 (1 # 1) = 22 /\ gap_of 10 (39 # 2) + gap_of 10 (1 # 2) = 31)%Z.
Proof. vm_compute. split; reflexivity. Qed.

(* the default mix (interactive 0.3, query 0.1, batch 0.6): u = 0.35 falls into the query interval
   [0.3, 0.4); with (1, 0, 0) every u selects class 0 *)
Example C15_ex_choice :
  (choice_of [3 # 10; 1 # 10; 6 # 10] (35 # 100), choice_of [3 # 10; 1 # 10; 6 # 10] (4 # 10),
   choice_of [1; 0; 0] (999 # 1000))%Q = (1, 2, 0).
Proof. vm_compute. reflexivity. Qed.

(* ---- priorities: choice as numpy computes it in binary64 (choice_float), Proofs/ChoiceFloatFacts.v ----
   choice_float probs u: cdf = cumsum of probs with one rounding per addition; every entry divided by the last
   one and rounded; the index is the first entry that exceeds u. probs is what the generator passes as p=
   (prio_probs of the three configured probabilities). Theorems hold for arbitrary rational probs, in
   particular for doubles. Remarks of audits C (P4) and D (P1):
   (1) (b), (c) and C15_gen_u_zero_prob_never carry no non-negativity hypothesis, so they also speak about inputs for
   which numpy's choice raises when it is called (ValueError for a negative or NaN quotient): true of the model
   function there, about the code only where the code draws at all.
   (2) DOMAIN OF THE RUNNER (documented limitation). The runner of kind 25 - what the check compares with the
   implementation - answers [-1] unless the three CONFIGURED probabilities are non-negative and their float sum is
   positive ([forallb (0 <=) user && 0 < fsum user], tested for every input on the raw triple;
   C15_gen_run_u_domain below). This guard is NOT numpy's validation: WorkloadGenerator.__init__ divides by np.sum
   first (workload.py:89) and Generator.choice validates the QUOTIENTS, and only when a class is drawn
   (AuditExamplesD.C15guard, checked against the real generator by audit D):
     - inputs numpy accepts and the runner refuses: triples of non-positive numbers with a negative sum, e.g.
       (-1/4, -1/4, -1/2) -> (0.25, 0.25, 0.5) and (-1, -1, 0) -> (0.5, 0.5, 0): the generator runs and draws classes
       ([prio_probs] and [gen_run_u] agree with it), the runner answers [-1]; and any negative entry or zero sum when
       no class is ever drawn (num_pipelines = 0 or no tick): Python returns normally, the runner answers [-1];
     - inputs numpy refuses and the runner refuses too: (-1/2, 1, 1/2) ("not non-negative"), (0, 0, 0) ("contain NaN")
       whenever a class is drawn;
     - inputs the runner accepts and numpy refuses: sums that overflow binary64 (3 x 2^1023 -> inf, quotients 0.0,
       "do not sum to 1"): outside the domain of [rnd64], which has no overflow.
   The restriction is harmless for the correspondence: the harness only produces non-negative triples with a
   positive sum, and ON that domain guard and numpy agree (C15_gen_run_u_domain_agrees below: the quotients are
   non-negative rationals, not all zero, their float cdf ends in exactly 1 - numpy's validation passes).
   (3) [rnd64] has no subnormals (Num/Rnd64.v), so for probabilities below 2^-1022 the closeness theorems are about
   an idealised binary64. *)

(* (a) the index is a valid class for every u < 1 (the last float cdf entry is exactly 1) *)
Theorem C15_choice_float_in_range : forall probs u,
  Forall (fun p => 0 <= p)%Q probs -> (0 < sumQl probs)%Q -> (u < 1)%Q ->
  choice_float probs u < length probs.
Proof. exact ChoiceFloatFacts.choice_float_in_range. Qed.
Print Assumptions C15_choice_float_in_range.

(* (b) a class whose probability is 0 is never chosen, whatever the other probabilities are: its float cdf
   entry is bit-identical to the previous one (entry 0: it is 0 <= u); this includes the last class *)
Theorem C15_choice_float_zero_prob_never : forall probs u i,
  i < length probs -> (nth i probs 0 == 0)%Q -> (0 <= u)%Q -> choice_float probs u <> i.
Proof. exact ChoiceFloatFacts.choice_float_zero_prob_never. Qed.
Print Assumptions C15_choice_float_zero_prob_never.

(* (c) the index is monotone in u *)
Theorem C15_choice_float_monotone : forall probs u u',
  (u <= u')%Q -> choice_float probs u <= choice_float probs u'.
Proof. exact ChoiceFloatFacts.choice_float_monotone. Qed.
Print Assumptions C15_choice_float_monotone.

(* (d) float cdf entry k is the exact cumulative probability e_k (of probs / sum probs) up to the relative factors
   cf_lo n = (1 - 2^-53)^(n+1) / (1 + 2^-53)^n  and  cf_hi n = (1 + 2^-53)^(n+1) / (1 - 2^-53)^n, n classes *)
Theorem C15_choice_float_cdf_close : forall probs k,
  Forall (fun p => 0 <= p)%Q probs -> (0 < sumQl probs)%Q -> k < length probs ->
  let n := length probs in let e := cdf (exact_norm probs) (S k) in
  (e * cf_lo n <= nth k (float_cdf probs) 0 /\ nth k (float_cdf probs) 0 <= e * cf_hi n)%Q.
Proof. exact ChoiceFloatFacts.float_cdf_close. Qed.
Print Assumptions C15_choice_float_cdf_close.

(* hence numpy's choice IS the exact inverse CDF of the normalised probabilities for every u that is not
   inside one of the n windows [e_k * cf_lo n, e_k * cf_hi n) around the exact boundaries *)
Theorem C15_choice_float_close_to_exact : forall probs u,
  Forall (fun p => 0 <= p)%Q probs -> (0 < sumQl probs)%Q ->
  (forall k, k < length probs -> let e := cdf (exact_norm probs) (S k) in
     (u < e * cf_lo (length probs) \/ e * cf_hi (length probs) <= u)%Q) ->
  choice_float probs u = choice_of (exact_norm probs) u.
Proof. exact ChoiceFloatFacts.choice_float_close_to_exact. Qed.
Print Assumptions C15_choice_float_close_to_exact.

(* three classes: the windows are narrower than 2^-50 on either side of the exact boundaries, so the classes are
   drawn with their exact probabilities up to 3 * 2^-49 of the measure of u *)
Theorem C15_choice_float_close_to_exact_3 : forall probs u,
  length probs = 3 -> Forall (fun p => 0 <= p)%Q probs -> (0 < sumQl probs)%Q ->
  (forall k, k < 3 -> ((1 # 1125899906842624) < Qabs (u - cdf (exact_norm probs) (S k)))%Q) ->
  choice_float probs u = choice_of (exact_norm probs) u.
Proof. exact ChoiceFloatFacts.choice_float_close_to_exact_3. Qed.
Print Assumptions C15_choice_float_close_to_exact_3.

(* any number of classes n <= 2^40: both factors are within lin_eps n = (4 n + 4) * 2^-53 of 1, so numpy's choice is the
   exact inverse CDF unless u is within the RELATIVE distance (4 n + 4) * 2^-53 of an exact boundary e_k *)
Theorem C15_choice_float_factors_linear : forall n, (Z.of_nat n <= 1099511627776)%Z ->
  (1 - lin_eps n <= cf_lo n /\ cf_hi n <= 1 + lin_eps n)%Q.
Proof. exact ChoiceFloatFacts.cf_lin. Qed.
Print Assumptions C15_choice_float_factors_linear.

Theorem C15_choice_float_close_to_exact_lin : forall probs u,
  Forall (fun p => 0 <= p)%Q probs -> (0 < sumQl probs)%Q -> (Z.of_nat (length probs) <= 1099511627776)%Z ->
  (forall k, k < length probs -> let e := cdf (exact_norm probs) (S k) in
     (e * lin_eps (length probs) < Qabs (u - e))%Q) ->
  choice_float probs u = choice_of (exact_norm probs) u.
Proof. exact ChoiceFloatFacts.choice_float_close_to_exact_lin. Qed.
Print Assumptions C15_choice_float_close_to_exact_lin.

(* the same END TO END from the three configured probabilities (prio_probs: float sum, three rounded divisions,
   then choice_float): the float sum cancels, the factors become nf_lo n = cf_lo n * (1 - 2^-53) / (1 + 2^-53) and
   nf_hi n = cf_hi n * (1 + 2^-53) / (1 - 2^-53) *)
Theorem C15_choice_float_prio_probs_cdf_close : forall user k,
  Forall (fun p => 0 <= p)%Q user -> (0 < sumQl user)%Q -> k < length user ->
  let n := length user in let e := cdf (exact_norm user) (S k) in
  (e * nf_lo n <= nth k (float_cdf (prio_probs user)) 0 /\ nth k (float_cdf (prio_probs user)) 0 <= e * nf_hi n)%Q.
Proof. exact ChoiceFloatFacts.float_cdf_prio_probs_close. Qed.
Print Assumptions C15_choice_float_prio_probs_cdf_close.

Theorem C15_choice_float_prio_probs_close : forall user u,
  Forall (fun p => 0 <= p)%Q user -> (0 < sumQl user)%Q ->
  (forall k, k < length user -> let e := cdf (exact_norm user) (S k) in
     (u < e * nf_lo (length user) \/ e * nf_hi (length user) <= u)%Q) ->
  choice_float (prio_probs user) u = choice_of (exact_norm user) u.
Proof. exact ChoiceFloatFacts.choice_float_prio_probs_close. Qed.
Print Assumptions C15_choice_float_prio_probs_close.

(* interactive_prob, query_prob, batch_prob: outside 2^-49 of the three exact boundaries the class the generator
   draws is the exact inverse CDF of the configured probabilities divided by their sum *)
Theorem C15_choice_float_prio_probs_close_3 : forall user u,
  length user = 3 -> Forall (fun p => 0 <= p)%Q user -> (0 < sumQl user)%Q ->
  (forall k, k < 3 -> ((1 # 562949953421312) < Qabs (u - cdf (exact_norm user) (S k)))%Q) ->
  choice_float (prio_probs user) u = choice_of (exact_norm user) u.
Proof. exact ChoiceFloatFacts.choice_float_prio_probs_close_3. Qed.
Print Assumptions C15_choice_float_prio_probs_close_3.

(* the float cdf is sorted, so numpy's binary search (bsearch_right = npy_binsearch, side right, over the whole
   array) returns the index of the linear scan that defines choice_float *)
Theorem C15_choice_float_cdf_sorted : forall probs,
  Forall (fun p => 0 <= p)%Q probs -> (0 < sumQl probs)%Q ->
  forall i j, i <= j -> j < length (float_cdf probs) -> (nth i (float_cdf probs) 0 <= nth j (float_cdf probs) 0)%Q.
Proof. exact ChoiceFloatFacts.float_cdf_sorted. Qed.
Print Assumptions C15_choice_float_cdf_sorted.

Theorem C15_choice_float_binsearch : forall probs u,
  Forall (fun p => 0 <= p)%Q probs -> (0 < sumQl probs)%Q ->
  bsearch_right (length probs) (float_cdf probs) u 0 (length probs) = choice_float probs u.
Proof. exact ChoiceFloatFacts.choice_float_binsearch. Qed.
Print Assumptions C15_choice_float_binsearch.

(* ---- the generator with COMPUTED class draws (gen_run_u, kind 25) ---- *)

(* it is gen_run on the stream in which every uniform u is replaced by priority_values[choice_float priority_probs u]:
   all theorems above about gen_run (every stream) hold for it *)
Theorem C15_gen_run_u_resolved : forall P user n ds out s',
  gen_run_u P user n ds = Some (out, s') ->
  exists dl, resolve (prio_probs user) ds = Some dl /\ length dl = length ds /\
             gen_run P n (gen_init dl) = Some (out, s').
Proof. exact ChoiceFloatFacts.gen_run_u_resolved. Qed.
Print Assumptions C15_gen_run_u_resolved.

(* closed loop: whatever uniforms >= 0 the bit generator delivers, every delivered pipeline carries one of the three
   priority values, and the probability configured for its class is not 0 *)
Theorem C15_gen_u_zero_prob_never : forall P user n ds out s',
  length user = 3 ->
  Forall (fun d => match d with UUniform u => (0 <= u)%Q | UNormal _ _ => True end) ds ->
  gen_run_u P user n ds = Some (out, s') ->
  forall p, In p (concat out) ->
  exists k, nth_error priority_values k = Some (gp_prio p) /\ ~ (nth k user 0 == 0)%Q.
Proof. exact ChoiceFloatFacts.gen_u_zero_prob_never. Qed.
Print Assumptions C15_gen_u_zero_prob_never.

(* the DOMAIN of the runner (a restriction of the runner, NOT numpy's validation - see (2) in the header of this
   part). A case of kind 25 on the wire: num_pipelines, num_operators (numerator, denominator), cpu_io_ratio (2),
   waiting_ticks_mean, nticks, interactive_prob (2), query_prob (2), batch_prob (2), then the stream. A rational n/d
   on the wire is negative iff n < 0. Outside its domain - one of the three configured probabilities negative, or
   their float sum (a0 + a1) + a2 not positive - [run_gen_u] answers [bad_input] = [-1], whatever the other fields
   and the stream are. Nothing is claimed about what the code does there (it may run normally, see the header) *)
From Eudoxia Require Import Model.Codec Model.RunGen Proofs.AuditRepairFacts Proofs.AuditRepairFacts2.
Theorem C15_gen_run_u_domain :
  forall np an ad rn rd wmean nticks i_n i_d q_n q_d b_n b_d stream,
  ((i_n < 0)%Z \/ (q_n < 0)%Z \/ (b_n < 0)%Z \/
   ~ (0 < fsum [Qmake i_n (Z.to_pos i_d); Qmake q_n (Z.to_pos q_d); Qmake b_n (Z.to_pos b_d)])%Q) ->
  run_gen_u (np :: an :: ad :: rn :: rd :: wmean :: nticks :: i_n :: i_d :: q_n :: q_d :: b_n :: b_d :: stream)
  = bad_input.
Proof. exact AuditRepairFacts.GenRefuse.run_gen_u_domain. Qed.
Print Assumptions C15_gen_run_u_domain.

(* the positive direction, which makes the restriction harmless: ON the domain - every configured probability
   non-negative, float sum positive, i.e. the guard of the runner holds - what numpy's Generator.choice validates
   passes. The probabilities it receives ([prio_probs user], the rounded quotients by the float sum) are non-negative
   (rationals: no NaN, the divisor is not 0) and not all zero, and the float cdf numpy builds from them ends in
   EXACTLY 1 (x / x = 1 in binary64 for x > 0; numpy's "probabilities do not sum to 1" test cannot fire). The exact
   sum of the configured triple is positive too, so every theorem of this part with the hypotheses
   [Forall (0 <=) user], [0 < sumQl user] applies on the whole domain of the runner *)
Theorem C15_gen_run_u_domain_agrees : forall user,
  Forall (fun p => 0 <= p)%Q user -> (0 < fsum user)%Q ->
  Forall (fun p => 0 <= p)%Q (prio_probs user) /\ (0 < sumQl (prio_probs user))%Q /\
  (last (float_cdf (prio_probs user)) 0 == 1)%Q /\
  (0 < sumQl user)%Q.
Proof. exact AuditRepairFacts2.GenDomain.domain_agrees. Qed.
Print Assumptions C15_gen_run_u_domain_agrees.

(* the guard of the runner as propositions: it holds exactly on that domain *)
Theorem C15_gen_run_u_guard_spec : forall user,
  forallb (Qle_bool 0) user && Qltb 0 (fsum user) = true <->
  Forall (fun p => 0 <= p)%Q user /\ (0 < fsum user)%Q.
Proof. exact AuditRepairFacts2.GenDomain.guard_spec. Qed.
Print Assumptions C15_gen_run_u_guard_spec.

(* the rounding fact behind "ends in exactly 1" *)
Theorem C15_fdiv_self : forall x, (0 < x)%Q -> (fdiv x x == 1)%Q.
Proof. exact AuditRepairFacts2.GenDomain.fdiv_self_pos. Qed.
Print Assumptions C15_fdiv_self.

(* the input of AuditExamplesC.C15.negative_probability_is_not_refused (2 pipelines, 3 operators, ratio 1/2, mean 2,
   one tick, probabilities -1/2, 1, 1/2, the stream u = 1/5, u = 7/10, N(3) = 6/5, N(2) = 2/5): [gen_run_u] draws
   classes from it, the runner answers [-1] (outside its domain); and three zero probabilities (float sum 0), any
   stream *)
Example C15_ex_run_u_refuses :
  run_gen_u [2; 3; 1; 1; 2; 2; 1;  -1; 2;  1; 1;  1; 2;  4;  2; 1; 5;  2; 7; 10;  1; 3; 1; 6; 5;  1; 2; 1; 2; 5]%Z
  = bad_input /\
  forall stream, run_gen_u (2 :: 3 :: 1 :: 1 :: 2 :: 2 :: 1 :: 0 :: 1 :: 0 :: 1 :: 0 :: 1 :: stream)%Z = bad_input.
Proof.
  split; [exact AuditRepairFacts.GenRefuse.refuses_minus_half | exact AuditRepairFacts.GenRefuse.refuses_zero_sum].
Qed.

(* the windows are needed: the normalised doubles of (0.7, 0.2, 0.1) and a u on the 2^-53 grid for which numpy
   (float cdf) answers class 1 and the exact inverse CDF class 0 *)
Definition ex_pp : list Q :=
  [6305039478318695 # 9007199254740992; 7205759403792795 # 36028797018963968; 7205759403792795 # 72057594037927936]%Q.
Example C15_ex_choice_float_differs :
  (choice_float ex_pp (3152519739159347 # 4503599627370496), choice_of (exact_norm ex_pp) (3152519739159347 # 4503599627370496))%Q
  = (1, 0).
Proof. vm_compute. reflexivity. Qed.

(* prio_probs: the three configured probabilities as __init__ normalises them; 0.7, 0.2, 0.1 (as doubles) give ex_pp *)
Example C15_ex_prio_probs :
  map Qred (prio_probs [3152519739159347 # 4503599627370496; 3602879701896397 # 18014398509481984;
                        3602879701896397 # 36028797018963968]%Q) = ex_pp.
Proof. vm_compute. reflexivity. Qed.

(* the default mix: u = 0.35 (its double) selects the query class, value 1; (1, 0, 0) always the first class *)
Example C15_ex_choice_float :
  (choice_float (prio_probs [3 # 10; 1 # 10; 6 # 10]) (35 # 100), choice_float (prio_probs [1; 0; 0]) (999 # 1000),
   choice_float (prio_probs [0; 0; 1]) 0)%Q = (1, 0, 2).
Proof. vm_compute. reflexivity. Qed.

(* computed class draws: interactive 0, query 0.5, batch 0.5; u = 0.2 -> query (value 1), u = 0.7 -> batch (value 3,
   operator count draw 1.2 -> one operator); gap draw 0.4 -> the mean *)
Example C15_ex_run_u :
  option_map fst (gen_run_u ex_P [0; 1 # 2; 1 # 2]%Q 1
                    [UUniform (1 # 5); UUniform (7 # 10); UNormal (3 # 1) (6 # 5); UNormal (2 # 1) (2 # 5)]%Q) =
  Some [ [ {| gp_id := 1; gp_prio := 1; gp_ops := [ {| go_parents := []; go_proto := 7 |} ] |};
           {| gp_id := 2; gp_prio := 3; gp_ops := [ {| go_parents := []; go_proto := 0 |} ] |} ] ].
Proof. vm_compute. reflexivity. Qed.
