(* C17 naive scheduler: whole-pool FIFO without retries or preemption (and the starter template).
   Statements only; every proof is [exact <lemma of Proofs/NaiveFacts.v>]. Per scheduling round of the
   model of eudoxia/scheduler/naive.py / the `eudoxia init` template ([naive_step C starter]), from every
   queue, executor state, result list and arrival list. [asteps S w w']: w' is reached from w by accepted
   "-> Assigned" requests only (what a round does to operator states). *)
From Coq Require Import List ZArith QArith.
Import ListNotations.
From Eudoxia Require Import Model.Types Model.Dag Model.Lifecycle Model.Container Model.Pool Model.Executor
  Model.Sched Proofs.ExecLifeFacts Proofs.NaiveFacts.
Close Scope Q_scope.
Close Scope Z_scope.

Theorem C17_no_suspend : forall C starter s e results newp s' w' susps asgs,
  naive_step C starter s e results newp = Ok (s', w', susps, asgs) -> susps = [].
Proof. exact naive_no_suspend. Qed.
Print Assumptions C17_no_suspend.

(* at most one container per pool per round, and it gets everything that pool has free at that moment:
   the assignments correspond, in order, to a sub-list of the pools, each asking exactly the pool's free
   CPU and RAM (both positive) *)
Theorem C17_one_per_pool_all_free : forall C starter s e results newp s' w' susps asgs,
  naive_step C starter s e results newp = Ok (s', w', susps, asgs) ->
  exists ps, sublist ps (e_pools e) /\
    Forall2 (fun p a => a_pool a = Z.of_nat (p_id p) /\ a_cpu a = p_avail_cpu p /\ a_ram a = p_avail_ram p /\
                        (0 < p_avail_cpu p)%Z /\ (0 < p_avail_ram p)%Q) ps asgs.
Proof. exact naive_one_per_pool_all_free. Qed.
Print Assumptions C17_one_per_pool_all_free.

Theorem C17_at_most_one_per_pool : forall C starter s e results newp s' w' susps asgs,
  naive_step C starter s e results newp = Ok (s', w', susps, asgs) ->
  NoDup (map p_id (e_pools e)) -> NoDup (map a_pool asgs).
Proof. exact naive_at_most_one_per_pool. Qed.
Print Assumptions C17_at_most_one_per_pool.

(* with multi-operator containers disabled (and always for the starter template) each container holds
   exactly one operator, assignable, with all parents completed *)
Theorem C17_single_ready_operator : forall C starter s e results newp s' w' susps asgs,
  starter = true \/ cf_multi C = false ->
  naive_step C starter s e results newp = Ok (s', w', susps, asgs) ->
  forall a, In a asgs -> exists k wk o rest,
    In k (ss_queue s ++ newp) /\ asteps (S_of C) (e_world e) wk /\ asteps (S_of C) wk w' /\
    a_ops a = [o] /\ get_ops (S_of C) wk k assignable true = o :: rest /\
    In o (pd_order (pipe_of (S_of C) k)) /\
    assignable (st_of wk o) = true /\ parents_complete (S_of C) wk o = true.
Proof. exact naive_ops_single. Qed.
Print Assumptions C17_single_ready_operator.

(* never assigns work of a pipeline once one of its operators has failed; every assigned operator was
   PENDING (no retries). [hist_ok]: state_counts is the histogram of operator_states (an invariant: it is
   re-established for the world after the round) *)
Theorem C17_never_after_failure : forall C starter s e results newp s' w' susps asgs,
  static_ok (S_of C) -> hist_ok (S_of C) (e_world e) ->
  naive_step C starter s e results newp = Ok (s', w', susps, asgs) ->
  hist_ok (S_of C) w' /\
  (forall a o, In a asgs -> In o (a_ops a) ->
     st_of (e_world e) o = Pending /\
     forall o', In o' (pd_order (pipe_of (S_of C) (op_pipe (S_of C) o))) ->
                st_of (e_world e) o' <> Failed) /\
  (forall k o, In o (pd_order (pipe_of (S_of C) k)) -> st_of (e_world e) o = Failed ->
     st_of w' o = Failed /\
     forall a o', In a asgs -> In o' (a_ops a) -> op_pipe (S_of C) o' <> k).
Proof. exact naive_never_retries. Qed.
Print Assumptions C17_never_after_failure.

(* [static_ok] holds for every workload of well-formed DAG pipelines *)
Theorem C17_static_ok : forall l, dags_wf l -> static_ok (mk_static l).
Proof. exact static_ok_mk_static. Qed.
Print Assumptions C17_static_ok.

(* first containers in arrival order: a never-served ("fresh") pipeline queued before a pipeline that is
   served in this round is served too, earlier; a fresh pipeline that is not served stays in the unscanned
   part of the queue, so the relative order of never-served pipelines is the same after every round *)
Theorem C17_fifo_first_containers : forall C starter s e results newp s' w' susps asgs,
  static_ok (S_of C) -> hist_ok (S_of C) (e_world e) ->
  NoDup (ss_queue s ++ newp) ->
  (forall k, In k (ss_queue s ++ newp) -> has_start C (single_of C starter) k) ->
  naive_step C starter s e results newp = Ok (s', w', susps, asgs) ->
  (exists served : list nat,
    length served = length asgs /\
    Forall2 (fun k a => a_prio a = prio_of_pipe C k /\
                        exists wk, asteps (S_of C) (e_world e) wk /\
                                   a_ops a = nv_ops C (single_of C starter) wk k) served asgs /\
    (forall l1 k1 l2 k2, ss_queue s ++ newp = l1 ++ k1 :: l2 -> In k2 l2 ->
       fresh C (e_world e) k1 -> In k2 served ->
       exists s1 s2, served = s1 ++ k1 :: s2 /\ In k2 s2) /\
    (forall k, In k (ss_queue s ++ newp) -> fresh C (e_world e) k -> ~ In k served ->
       fresh C w' k /\
       exists scanned rest requeued,
         ss_queue s ++ newp = scanned ++ rest /\ ss_queue s' = rest ++ requeued /\ In k rest)) /\
  filter (freshb C w') (ss_queue s') = filter (freshb C w') (ss_queue s ++ newp).
Proof. exact naive_fifo_first_wf. Qed.
Print Assumptions C17_fifo_first_containers.

(* nothing to decide, nothing decided *)
Theorem C17_early_return : forall C starter s e,
  naive_step C starter s e [] [] = Ok (s, e_world e, [], []).
Proof. exact naive_early_return. Qed.
Print Assumptions C17_early_return.

(* non-vacuity: two pools, three pipelines, single-operator mode: pipelines 0 and 1 get the two pools *)
Example C17_witness :
  match naive_step (NaiveExamples.Cx false) false init_sstate NaiveExamples.ex [] [0; 1; 2] with
  | Ok (s', w', susps, asgs) =>
      ss_queue s' = [2; 0; 1] /\ susps = [] /\
      map a_ops asgs = [[0]; [2]] /\ map a_pool asgs = [0%Z; 1%Z] /\
      map a_cpu asgs = [4%Z; 4%Z] /\ map a_ram asgs = [8%Q; 8%Q] /\
      map a_prio asgs = [Query; Batch] /\
      map (st_of w') [0; 1; 2; 3; 4] = [Assigned; Pending; Assigned; Pending; Pending]
  | Err _ => False
  end.
Proof. exact NaiveExamples.ex_naive_single. Qed.
