(* C17 naive scheduler: whole-pool FIFO without retries or preemption (and the starter template).
   Statements only; every proof is [exact <lemma of Proofs/NaiveFacts.v>]. Per scheduling round of the
   model of eudoxia/scheduler/naive.py / the `eudoxia init` template ([naive_step C starter]), from every
   queue, executor state, result list and arrival list. [asteps S w w']: w' is reached from w by accepted
   "-> Assigned" requests only (what a round does to operator states). *)
From Coq Require Import List ZArith QArith.
Import ListNotations.
From Eudoxia Require Import Model.Types Model.Dag Model.Lifecycle Model.Container Model.Pool Model.Executor
  Model.Sched Proofs.ExecLifeFacts Proofs.NaiveFacts.
Close Scope Q_scope.
Close Scope Z_scope.

Theorem C17_no_suspend : forall C starter s e results newp s' w' susps asgs,
  naive_step C starter s e results newp = Ok (s', w', susps, asgs) -> susps = [].
Proof. exact naive_no_suspend. Qed.
Print Assumptions C17_no_suspend.

(* at most one container per pool per round, and it gets everything that pool has free at that moment:
   the assignments correspond, in order, to a sub-list of the pools, each asking exactly the pool's free
   CPU and RAM (both positive) *)
Theorem C17_one_per_pool_all_free : forall C starter s e results newp s' w' susps asgs,
  naive_step C starter s e results newp = Ok (s', w', susps, asgs) ->
  exists ps, sublist ps (e_pools e) /\
    Forall2 (fun p a => a_pool a = Z.of_nat (p_id p) /\ a_cpu a = p_avail_cpu p /\ a_ram a = p_avail_ram p /\
                        (0 < p_avail_cpu p)%Z /\ (0 < p_avail_ram p)%Q) ps asgs.
Proof. exact naive_one_per_pool_all_free. Qed.
Print Assumptions C17_one_per_pool_all_free.

Theorem C17_at_most_one_per_pool : forall C starter s e results newp s' w' susps asgs,
  naive_step C starter s e results newp = Ok (s', w', susps, asgs) ->
  NoDup (map p_id (e_pools e)) -> NoDup (map a_pool asgs).
Proof. exact naive_at_most_one_per_pool. Qed.
Print Assumptions C17_at_most_one_per_pool.

(* with multi-operator containers disabled (and always for the starter template) each container holds
   exactly one operator, assignable, with all parents completed *)
Theorem C17_single_ready_operator : forall C starter s e results newp s' w' susps asgs,
  starter = true \/ cf_multi C = false ->
  naive_step C starter s e results newp = Ok (s', w', susps, asgs) ->
  forall a, In a asgs -> exists k wk o rest,
    In k (ss_queue s ++ newp) /\ asteps (S_of C) (e_world e) wk /\ asteps (S_of C) wk w' /\
    a_ops a = [o] /\ get_ops (S_of C) wk k assignable true = o :: rest /\
    In o (pd_order (pipe_of (S_of C) k)) /\
    assignable (st_of wk o) = true /\ parents_complete (S_of C) wk o = true.
Proof. exact naive_ops_single. Qed.
Print Assumptions C17_single_ready_operator.

(* never assigns work of a pipeline once one of its operators has failed; every assigned operator was
   PENDING (no retries). [hist_ok]: state_counts is the histogram of operator_states (an invariant: it is
   re-established for the world after the round) *)
Theorem C17_never_after_failure : forall C starter s e results newp s' w' susps asgs,
  static_ok (S_of C) -> hist_ok (S_of C) (e_world e) ->
  naive_step C starter s e results newp = Ok (s', w', susps, asgs) ->
  hist_ok (S_of C) w' /\
  (forall a o, In a asgs -> In o (a_ops a) ->
     st_of (e_world e) o = Pending /\
     forall o', In o' (pd_order (pipe_of (S_of C) (op_pipe (S_of C) o))) ->
                st_of (e_world e) o' <> Failed) /\
  (forall k o, In o (pd_order (pipe_of (S_of C) k)) -> st_of (e_world e) o = Failed ->
     st_of w' o = Failed /\
     forall a o', In a asgs -> In o' (a_ops a) -> op_pipe (S_of C) o' <> k).
Proof. exact naive_never_retries. Qed.
Print Assumptions C17_never_after_failure.

(* [static_ok] holds for every workload of well-formed DAG pipelines *)
Theorem C17_static_ok : forall l, dags_wf l -> static_ok (mk_static l).
Proof. exact static_ok_mk_static. Qed.
Print Assumptions C17_static_ok.

(* first containers in arrival order: a never-served ("fresh") pipeline queued before a pipeline that is
   served in this round is served too, earlier; a fresh pipeline that is not served stays in the unscanned
   part of the queue, so the relative order of never-served pipelines is the same after every round *)
Theorem C17_fifo_first_containers : forall C starter s e results newp s' w' susps asgs,
  static_ok (S_of C) -> hist_ok (S_of C) (e_world e) ->
  NoDup (ss_queue s ++ newp) ->
  (forall k, In k (ss_queue s ++ newp) -> has_start C (single_of C starter) k) ->
  naive_step C starter s e results newp = Ok (s', w', susps, asgs) ->
  (exists served : list nat,
    length served = length asgs /\
    Forall2 (fun k a => a_prio a = prio_of_pipe C k /\
                        exists wk, asteps (S_of C) (e_world e) wk /\
                                   a_ops a = nv_ops C (single_of C starter) wk k) served asgs /\
    (forall l1 k1 l2 k2, ss_queue s ++ newp = l1 ++ k1 :: l2 -> In k2 l2 ->
       fresh C (e_world e) k1 -> In k2 served ->
       exists s1 s2, served = s1 ++ k1 :: s2 /\ In k2 s2) /\
    (forall k, In k (ss_queue s ++ newp) -> fresh C (e_world e) k -> ~ In k served ->
       fresh C w' k /\
       exists scanned rest requeued,
         ss_queue s ++ newp = scanned ++ rest /\ ss_queue s' = rest ++ requeued /\ In k rest)) /\
  filter (freshb C w') (ss_queue s') = filter (freshb C w') (ss_queue s ++ newp).
Proof. exact naive_fifo_first_wf. Qed.
Print Assumptions C17_fifo_first_containers.

(* nothing to decide, nothing decided *)
Theorem C17_early_return : forall C starter s e,
  naive_step C starter s e [] [] = Ok (s, e_world e, [], []).
Proof. exact naive_early_return. Qed.
Print Assumptions C17_early_return.

(* non-vacuity: two pools, three pipelines, single-operator mode: pipelines 0 and 1 get the two pools *)
Example C17_witness :
  match naive_step (NaiveExamples.Cx false) false init_sstate NaiveExamples.ex [] [0; 1; 2] with
  | Ok (s', w', susps, asgs) =>
      ss_queue s' = [2; 0; 1] /\ susps = [] /\
      map a_ops asgs = [[0]; [2]] /\ map a_pool asgs = [0%Z; 1%Z] /\
      map a_cpu asgs = [4%Z; 4%Z] /\ map a_ram asgs = [8%Q; 8%Q] /\
      map a_prio asgs = [Query; Batch] /\
      map (st_of w') [0; 1; 2; 3; 4] = [Assigned; Pending; Assigned; Pending; Pending]
  | Err _ => False
  end.
Proof. exact NaiveExamples.ex_naive_single. Qed.

(* ---------------------------------------------------------------------------------------------- *)
(* Run level: the closed loop scheduler + executor, [sim_tick C ANaive] and [sim_tick C AStarter] (both run
   [naive_step]; [starter] selects the algorithm), started in [init_sim C np cpu ram] ([np] pools of [cpu]
   CPUs and [ram] GB). [sim_reach C a 0 (init_sim ..) t s]: [s] is the state at tick [t] of a run
   (Proofs/PriorityPoolRunFacts.v); [sim_reach C a t s t' s']: the run continues from [s] to [s'].
   For every workload [l] of well-formed DAGs, every pool count and size, every tick rate and script; a run
   that raises stops, so only ticks that returned are steps. Proofs in Proofs/NaiveRunFacts.v. *)
From Eudoxia Require Import Model.Simulator Proofs.PriorityPoolRunFacts Proofs.NaiveRunFacts.
Close Scope Q_scope.
Close Scope Z_scope.

(* once an operator of pipeline [k] is FAILED in some state [s] of the run, it is FAILED in every later
   state [s'], and no tick taken from [s'] creates a container with an operator of pipeline [k] *)
Theorem C17_run_never_after_failure : forall C (starter : bool) l np cpu ram t s t' s' k o,
  cf_static C = mk_static l -> dags_wf l ->
  sim_reach C (if starter then AStarter else ANaive) 0%Z (init_sim C np cpu ram) t s ->
  sim_reach C (if starter then AStarter else ANaive) t s t' s' ->
  In o (pd_order (pipe_of (cf_static C) k)) -> st_of (e_world (sm_exec s)) o = Failed ->
  st_of (e_world (sm_exec s')) o = Failed /\
  forall newp s'' lg, sim_tick C (if starter then AStarter else ANaive) t' s' newp = Ok (s'', lg) ->
    forall a o', In a (tl_asgs lg) -> In o' (a_ops a) -> op_pipe (cf_static C) o' <> k.
Proof. exact NaiveRunFacts.run_never_after_failure. Qed.
Print Assumptions C17_run_never_after_failure.

(* the same, starting from a container that ended with an error: among the results [sm_results s] that tick
   [t - 1] produced, a result with the error flag names an operator that is FAILED, stays FAILED, and whose
   pipeline never gets a container again *)
Theorem C17_run_failed_container_final : forall C (starter : bool) l np cpu ram t s t' s' r,
  cf_static C = mk_static l -> dags_wf l ->
  sim_reach C (if starter then AStarter else ANaive) 0%Z (init_sim C np cpu ram) t s ->
  sim_reach C (if starter then AStarter else ANaive) t s t' s' ->
  In r (sm_results s) -> r_err r = true ->
  exists o, In o (r_ops r) /\ st_of (e_world (sm_exec s)) o = Failed /\
            st_of (e_world (sm_exec s')) o = Failed /\
    forall newp s'' lg, sim_tick C (if starter then AStarter else ANaive) t' s' newp = Ok (s'', lg) ->
      forall a o', In a (tl_asgs lg) -> In o' (a_ops a) ->
        op_pipe (cf_static C) o' <> op_pipe (cf_static C) o.
Proof. exact NaiveRunFacts.run_failed_container_final. Qed.
Print Assumptions C17_run_failed_container_final.

(* no retries, positively: every operator put into a container by any tick of the run was PENDING in the
   state the tick started from (so it never was in a container before: see C17_run_served_for_good), and
   its pipeline had no FAILED operator *)
Theorem C17_run_assigns_pending : forall C (starter : bool) l np cpu ram t s newp s' lg,
  cf_static C = mk_static l -> dags_wf l ->
  sim_reach C (if starter then AStarter else ANaive) 0%Z (init_sim C np cpu ram) t s ->
  sim_tick C (if starter then AStarter else ANaive) t s newp = Ok (s', lg) ->
  forall a o, In a (tl_asgs lg) -> In o (a_ops a) ->
    st_of (e_world (sm_exec s)) o = Pending /\
    forall o', In o' (pd_order (pipe_of (cf_static C) (op_pipe (cf_static C) o))) ->
               st_of (e_world (sm_exec s)) o' <> Failed.
Proof. exact NaiveRunFacts.run_assigns_pending. Qed.
Print Assumptions C17_run_assigns_pending.

(* nothing is lost: in every state of the run the waiting queue holds no pipeline twice and only pipelines
   that have arrived ([map fst (sm_arrival s)], in arrival order), and every arrived pipeline that is
   missing from the queue is complete (all its operators COMPLETED) or failed (one of its operators FAILED).
   In particular a pipeline that is neither complete nor failed is in the queue, also while one of its
   containers is running *)
Theorem C17_run_no_loss : forall C (starter : bool) l np cpu ram t s,
  cf_static C = mk_static l -> dags_wf l ->
  sim_reach C (if starter then AStarter else ANaive) 0%Z (init_sim C np cpu ram) t s ->
  NoDup (ss_queue (sm_sched s)) /\ NoDup (map fst (sm_arrival s)) /\
  (forall k, In k (ss_queue (sm_sched s)) -> In k (map fst (sm_arrival s))) /\
  (forall k, In k (map fst (sm_arrival s)) ->
     In k (ss_queue (sm_sched s)) \/
     (forall o, In o (pd_order (pipe_of (cf_static C) k)) -> st_of (e_world (sm_exec s)) o = Completed) \/
     (exists o, In o (pd_order (pipe_of (cf_static C) k)) /\ st_of (e_world (sm_exec s)) o = Failed)).
Proof. exact NaiveRunFacts.run_no_loss. Qed.
Print Assumptions C17_run_no_loss.

(* whole pool, commands: a tick of the run never suspends; it creates at most one container per pool; each
   goes to a pool that holds no container and gets all that this pool has free, which is the whole pool
   ([cpu] CPUs, [ram] GB) -- so nothing is ever created in a run with [cpu <= 0] or [ram <= 0].
   No hypothesis on the static description *)
Theorem C17_run_whole_pool : forall C (starter : bool) np cpu ram t s newp s' lg,
  sim_reach C (if starter then AStarter else ANaive) 0%Z (init_sim C np cpu ram) t s ->
  sim_tick C (if starter then AStarter else ANaive) t s newp = Ok (s', lg) ->
  tl_susp lg = [] /\
  NoDup (map a_pool (tl_asgs lg)) /\
  forall a, In a (tl_asgs lg) ->
    exists p, In p (e_pools (sm_exec s)) /\ a_pool a = Z.of_nat (p_id p) /\ p_active p = [] /\
              a_cpu a = p_avail_cpu p /\ a_ram a = p_avail_ram p /\
              p_avail_cpu p = cpu /\ (p_avail_ram p == ram)%Q /\ (0 < cpu)%Z /\ (0 < ram)%Q.
Proof. exact NaiveRunFacts.naive_run_whole_pool. Qed.
Print Assumptions C17_run_whole_pool.

(* whole pool, states: in every state of the run a pool has nothing suspending or suspended and either no
   container and everything free, or exactly one live container that holds the whole pool, nothing free *)
Theorem C17_run_one_container_per_pool : forall C (starter : bool) np cpu ram t s p,
  sim_reach C (if starter then AStarter else ANaive) 0%Z (init_sim C np cpu ram) t s ->
  In p (e_pools (sm_exec s)) ->
  p_suspending p = [] /\ p_suspended p = [] /\
  ((p_active p = [] /\ p_avail_cpu p = cpu /\ (p_avail_ram p == ram)%Q) \/
   (exists c, p_active p = [c] /\ c_cpu c = cpu /\ (c_ram c == ram)%Q /\
              p_avail_cpu p = 0%Z /\ (p_avail_ram p == 0)%Q)).
Proof. exact NaiveRunFacts.naive_run_one_container_per_pool. Qed.
Print Assumptions C17_run_one_container_per_pool.

(* FIFO across rounds, states. [fresh C w k]: every operator of pipeline [k] is PENDING in [w], i.e. [k]
   has never been given a container (C17_run_served_for_good). When every arrived pipeline has operators:
   the never-served pipelines are a final segment of the arrival order (if [k1] arrived before [k2] and
   [k2] has been served, so has [k1]); they stand in the queue in arrival order; and a pipeline that has
   not arrived is untouched *)
Theorem C17_run_fifo : forall C (starter : bool) l np cpu ram t s,
  cf_static C = mk_static l -> dags_wf l ->
  sim_reach C (if starter then AStarter else ANaive) 0%Z (init_sim C np cpu ram) t s ->
  (forall k, In k (map fst (sm_arrival s)) -> pd_order (pipe_of (cf_static C) k) <> []) ->
  (forall l1 k1 l2 k2, map fst (sm_arrival s) = l1 ++ k1 :: l2 -> In k2 l2 ->
     fresh C (e_world (sm_exec s)) k1 -> fresh C (e_world (sm_exec s)) k2) /\
  filter (freshb C (e_world (sm_exec s))) (ss_queue (sm_sched s))
    = filter (freshb C (e_world (sm_exec s))) (map fst (sm_arrival s)) /\
  (forall k, ~ In k (map fst (sm_arrival s)) -> fresh C (e_world (sm_exec s)) k).
Proof. exact NaiveRunFacts.run_fifo. Qed.
Print Assumptions C17_run_fifo.

(* FIFO across rounds, ticks. The containers of a tick go, in order, to the pipelines [served] (each
   pipeline's assignable operators at that moment, C17_single_ready_operator); a served pipeline has
   arrived and is not fresh afterwards; and while a pipeline [k1] that arrived before [k2] is still waiting
   for its first container, [k2] gets a container only in a tick in which [k1] gets one too, earlier *)
Theorem C17_run_fifo_tick : forall C (starter : bool) l np cpu ram t s newp s' lg,
  cf_static C = mk_static l -> dags_wf l ->
  sim_reach C (if starter then AStarter else ANaive) 0%Z (init_sim C np cpu ram) t s ->
  sim_tick C (if starter then AStarter else ANaive) t s newp = Ok (s', lg) ->
  (forall k, In k (map fst (sm_arrival s')) -> pd_order (pipe_of (cf_static C) k) <> []) ->
  exists served,
    Forall2 (fun k a => a_prio a = prio_of_pipe C k /\
                        exists wk, asteps (cf_static C) (e_world (sm_exec s)) wk /\
                                   a_ops a = nv_ops C (single_of C starter) wk k)
            served (tl_asgs lg) /\
    (forall k, In k served -> In k (map fst (sm_arrival s')) /\ ~ fresh C (e_world (sm_exec s')) k) /\
    (forall l1 k1 l2 k2, map fst (sm_arrival s') = l1 ++ k1 :: l2 -> In k2 l2 ->
       fresh C (e_world (sm_exec s)) k1 -> In k2 served ->
       exists s1 s2, served = s1 ++ k1 :: s2 /\ In k2 s2).
Proof. exact NaiveRunFacts.run_fifo_tick. Qed.
Print Assumptions C17_run_fifo_tick.

(* a pipeline that is fresh in a state of the run was fresh in every earlier state: an operator that has
   left PENDING never returns to it (a naive run never suspends). No hypothesis on the static description *)
Theorem C17_run_served_for_good : forall C (starter : bool) np cpu ram t s t' s' k,
  sim_reach C (if starter then AStarter else ANaive) 0%Z (init_sim C np cpu ram) t s ->
  sim_reach C (if starter then AStarter else ANaive) t s t' s' ->
  fresh C (e_world (sm_exec s')) k -> fresh C (e_world (sm_exec s)) k.
Proof. exact NaiveRunFacts.naive_run_fresh_back. Qed.
Print Assumptions C17_run_served_for_good.

(* the hypothesis "every arrived pipeline has operators" of the two FIFO theorems cannot be dropped: a
   pipeline without operators is vacuously fresh for ever, while a pipeline that arrived after it is
   served (witness: [NaiveRunExamples.Cz], pipelines [[]] and one operator, both arriving at tick 0) *)
Theorem C17_run_fifo_needs_operators_refuted :
  exists C l np cpu ram t s,
    cf_static C = mk_static l /\ dags_wf l /\
    sim_reach C ANaive 0%Z (init_sim C np cpu ram) t s /\
    exists l1 k1 l2 k2, map fst (sm_arrival s) = l1 ++ k1 :: l2 /\ In k2 l2 /\
                        fresh C (e_world (sm_exec s)) k1 /\ ~ fresh C (e_world (sm_exec s)) k2.
Proof. exact NaiveRunFacts.run_fifo_needs_operators_refuted. Qed.
Print Assumptions C17_run_fifo_needs_operators_refuted.

(* non-vacuity: [NaiveRunExamples.Cx]: pipeline 0 = chain of two operators, pipeline 1 = one operator that is
   OOM-killed in its second tick, pipeline 2 = two independent operators; one pool of 4 CPUs / 8 GB, one
   operator per container; 0 and 1 arrive at tick 0, 2 at tick 1. [s_mid] is the state after 5 ticks, [s_end]
   after 12. The run: containers for [0], [2] (killed), [1], [3], [4]; pipeline 1 is never tried again *)
Example C17_run_witness_logs :
  snd NaiveRunExamples.run_a = None /\ snd NaiveRunExamples.run_b = None /\
  map (fun lg => map a_ops (tl_asgs lg)) (snd (fst NaiveRunExamples.run_a) ++ snd (fst NaiveRunExamples.run_b)) =
    [[[0]]; []; [[2]]; []; [[1]]; []; [[3]]; []; [[4]]; []; []; []].
Proof. exact NaiveRunExamples.ex_logs. Qed.

(* (operator states, queue, arrivals, per pool: operators of the live containers and free CPUs, results) *)
Example C17_run_witness_mid :
  NaiveRunExamples.view NaiveRunExamples.s_mid =
    ([Completed; Running; Failed; Pending; Pending], [2; 1; 0], [0; 1; 2], [([[1]], 0%Z)], []).
Proof. exact NaiveRunExamples.ex_mid. Qed.

Example C17_run_witness_end :
  NaiveRunExamples.view NaiveRunExamples.s_end =
    ([Completed; Completed; Failed; Completed; Completed], [], [0; 1; 2], [([], 4%Z)], []).
Proof. exact NaiveRunExamples.ex_end. Qed.

(* the hypotheses of the run-level theorems hold on this run ... *)
Example C17_run_witness_hypotheses :
  cf_static NaiveRunExamples.Cx = mk_static NaiveRunExamples.Lx /\ dags_wf NaiveRunExamples.Lx /\
  sim_reach NaiveRunExamples.Cx ANaive 0%Z (init_sim NaiveRunExamples.Cx 1 4%Z 8%Q) 5%Z NaiveRunExamples.s_mid /\
  sim_reach NaiveRunExamples.Cx ANaive 5%Z NaiveRunExamples.s_mid 12%Z NaiveRunExamples.s_end /\
  In 2 (pd_order (pipe_of (cf_static NaiveRunExamples.Cx) 1)) /\
  st_of (e_world (sm_exec NaiveRunExamples.s_mid)) 2 = Failed /\
  (forall k, In k (map fst (sm_arrival NaiveRunExamples.s_end)) ->
             pd_order (pipe_of (cf_static NaiveRunExamples.Cx) k) <> []).
Proof. exact NaiveRunExamples.ex_hypotheses. Qed.

(* ... and C17_run_never_after_failure applied to it: operator 2 is still FAILED at the end, and whatever
   arrives next, pipeline 1 gets nothing *)
Example C17_run_witness_never_again :
  st_of (e_world (sm_exec NaiveRunExamples.s_end)) 2 = Failed /\
  forall newp s'' lg, sim_tick NaiveRunExamples.Cx ANaive 12%Z NaiveRunExamples.s_end newp = Ok (s'', lg) ->
    forall a o', In a (tl_asgs lg) -> In o' (a_ops a) -> op_pipe (cf_static NaiveRunExamples.Cx) o' <> 1.
Proof. exact NaiveRunExamples.ex_never_again. Qed.
