(* C04: theorem statements are added when the corresponding Proofs file is merged. *)
From Coq Require Import List ZArith QArith.
From Eudoxia Require Import Model.Pool.
Example C04_placeholder : p_active (new_pool 0 1%Z 1%Q) = nil.
Proof. reflexivity. Qed.
Print Assumptions C04_placeholder.
