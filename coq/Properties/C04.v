(* C04 Memory limits hold after every tick and reported usage is the real usage.
   Statements only; every proof is [exact <lemma of Proofs/MemoryFacts.v>].
   [any rnd]: holds for every rounding function (hence for the float-faithful model).
   [exact]: assumes exact arithmetic (forall x, cf_rnd C x == x): the code accumulates float deltas; these
   theorems show the algorithm has no drift of its own and that every reconcile recomputes the exact sum.
   The size of IEEE drift between reconciles is measured by the monitor, not proved (DESIGN.md C04). *)
From Coq Require Import List ZArith QArith.
Import ListNotations.
From Eudoxia Require Import Model.Types Model.Lifecycle Model.Container Model.Pool Model.Executor
  Proofs.OomFacts Proofs.MemoryFacts.

(* [any rnd] after every pool tick no running container is over its allocation (and none is finished) *)
Theorem C04_within_alloc : forall C w next p ss asgs w' next' p' res,
  pool_tick C w next p ss asgs = Ok (w', next', p', res) ->
  forall c, In c (p_active p') -> (c_mem c <= c_ram c)%Q /\ c_completed c = false.
Proof. exact within_alloc. Qed.
Print Assumptions C04_within_alloc.

(* [exact] every reachable state, every pool: running containers are within their allocation, the pool's
   usage is within its capacity, the reported usage IS the sum over the running containers (zero for a
   pool with none). Scripts are non-negative memory demands. *)
Theorem C04_every_reachable_state : forall C npools cpu ram s,
  (forall x, (cf_rnd C x == x)%Q) -> script_nonneg C -> (0 <= ram)%Q ->
  reach_exec C npools cpu ram s ->
  forall p, In p (e_pools s) ->
    (forall c, In c (p_active p) -> c_completed c = false /\ (c_mem c <= c_ram c)%Q) /\
    (p_consumed p <= p_max_ram p)%Q /\
    (p_consumed p == sumQ (map c_mem (p_active p)))%Q /\
    (p_active p = [] -> (p_consumed p == 0)%Q).
Proof. exact C04_reachable. Qed.
Print Assumptions C04_every_reachable_state.

(* [exact] every kill is justified: the failed container was over its own allocation, or it was killed by
   the pool-level loop while the usage that remained after the earlier victims exceeded the pool *)
Theorem C04_kill_justified : forall C w next p ss asgs w' next' p' res,
  (forall x, (cf_rnd C x == x)%Q) ->
  pool_tick C w next p ss asgs = Ok (w', next', p', res) ->
  ids_ok next p -> all_running p ->
  exists act2 w3 cons3 w4 cons4 act4 w1 cons1 act1 cons5 act5 vs,
    tick_active C w3 cons3 act2 = Ok (w4, cons4, act4) /\
    oom_killer C (p_max_ram p) w4 cons4 act4 = Ok (w', cons5, act5) /\
    res = map (result_of (p_id p)) (filter c_completed act5) /\
    kill_over_limit C w4 cons4 act4 = Ok (w1, cons1, act1) /\
    act1 = map (kill_when over_limit) act4 /\
    (usage_ok p -> (cons4 == sumQ (map c_mem act4))%Q /\ (cons1 == sumQ (map c_mem act1))%Q) /\
    (vs <> [] -> (p_max_ram p < cons1)%Q) /\
    Forall (fun v => In v act4 /\ c_completed v = false /\
                     (c_mem v <= c_ram v)%Q /\ (0 < c_mem v)%Q) vs /\
    forall r, In r res -> r_err r = true ->
      exists c, In c act4 /\ c_completed c = false /\ r = result_of (p_id p) (dead c) /\
        ((c_ram c < c_mem c)%Q
         \/
         exists j, nth_error vs j = Some c /\
                   (p_max_ram p < cons1 - sumQ (map c_mem (firstn j vs)))%Q).
Proof. exact kill_justified. Qed.
Print Assumptions C04_kill_justified.

(* [exact] without overcommit a container that stays within its allocation is never killed: the killer
   amounts to its step 1, every failure is a container over its own allocation, the others keep running *)
Theorem C04_no_kill_without_overcommit : forall C w next p ss asgs w' next' p' res,
  (forall x, (cf_rnd C x == x)%Q) ->
  cf_overcommit C = false ->
  pool_tick C w next p ss asgs = Ok (w', next', p', res) ->
  usage_ok p -> ids_ok next p -> all_running p -> ram_ok p ->
  (forall a, In a asgs -> (0 <= a_ram a)%Q) ->
  exists act2 w3 cons3 w4 cons4 act4 cons5 act5,
    tick_active C w3 cons3 act2 = Ok (w4, cons4, act4) /\
    oom_killer C (p_max_ram p) w4 cons4 act4 = Ok (w', cons5, act5) /\
    res = map (result_of (p_id p)) (filter c_completed act5) /\
    kill_over_limit C w4 cons4 act4 = Ok (w', cons5, act5) /\
    act5 = map (kill_when over_limit) act4 /\
    (cons5 <= sumQ (map c_ram act4))%Q /\ (sumQ (map c_ram act4) <= p_max_ram p)%Q /\
    p_active p' = filter (fun c => negb (c_completed c)) act5 /\
    (forall r, In r res -> r_err r = true ->
       exists c, In c act4 /\ c_completed c = false /\ r = result_of (p_id p) (dead c) /\
                 (c_ram c < c_mem c)%Q) /\
    (forall c, In c act4 -> c_completed c = false -> (c_mem c <= c_ram c)%Q -> In c (p_active p')).
Proof. exact no_kill_without_overcommit. Qed.
Print Assumptions C04_no_kill_without_overcommit.

(* the hypotheses of the two theorems above hold for every pool of every reachable state *)
Theorem C04_invariants_reachable : forall C npools cpu ram s,
  (forall x, (cf_rnd C x == x)%Q) -> script_nonneg C -> (0 <= ram)%Q ->
  reach_exec C npools cpu ram s -> Forall (pool_inv C (e_next s)) (e_pools s).
Proof. exact reach_inv. Qed.
Print Assumptions C04_invariants_reachable.

(* [exact] Python's compensated sum() returns the exact sum when nothing is rounded *)
Theorem C04_py_sum_exact : forall rnd, (forall x, (rnd x == x)%Q) -> forall l, (py_sum rnd l == sumQ l)%Q.
Proof. exact py_sum_exact. Qed.
Print Assumptions C04_py_sum_exact.

(* non-vacuity: a two-tick reachable history with an own-limit kill and a completion; an overcommitted
   pool where both containers are within their allocation and the higher scorer is killed *)
Example C04_witness : reach_exec Examples.exC 1 4%Z 10%Q Examples.s2 /\
  forall p, In p (e_pools Examples.s2) ->
    (p_consumed p <= p_max_ram p)%Q /\ (p_consumed p == sumQ (map c_mem (p_active p)))%Q.
Proof. split; [exact Examples.ex_reach | exact Examples.ex_C04]. Qed.
