(* C04 Memory limits hold after every tick and reported usage is the real usage.
   Statements only; every proof is [exact <lemma of Proofs/MemoryFacts.v>].
   [any rnd]: holds for every rounding function (hence for the float-faithful model).
   [exact]: assumes exact arithmetic (forall x, cf_rnd C x == x): the code accumulates float deltas; these
   theorems show the algorithm has no drift of its own and that every reconcile recomputes the exact sum.
   [float]: the float-faithful model (forall x, cf_rnd C x == rnd64 x): the size of the IEEE drift between
   two reconciles and the error of a reconcile are bounded explicitly (second half of this file; proofs in
   Proofs/FloatBoundFacts.v). *)
From Coq Require Import List ZArith QArith.
Import ListNotations.
From Eudoxia Require Import Model.Types Model.Lifecycle Model.Container Model.Pool Model.Executor
  Proofs.OomFacts Proofs.MemoryFacts Num.Rnd64 Proofs.FloatBoundFacts.

(* [any rnd] after every pool tick no running container is over its allocation (and none is finished) *)
Theorem C04_within_alloc : forall C w next p ss asgs w' next' p' res,
  pool_tick C w next p ss asgs = Ok (w', next', p', res) ->
  forall c, In c (p_active p') -> (c_mem c <= c_ram c)%Q /\ c_completed c = false.
Proof. exact within_alloc. Qed.
Print Assumptions C04_within_alloc.

(* [exact] every reachable state, every pool: running containers are within their allocation, the pool's
   usage is within its capacity, the reported usage IS the sum over the running containers (zero for a
   pool with none). Scripts are non-negative memory demands. *)
Theorem C04_every_reachable_state : forall C npools cpu ram s,
  (forall x, (cf_rnd C x == x)%Q) -> script_nonneg C -> (0 <= ram)%Q ->
  reach_exec C npools cpu ram s ->
  forall p, In p (e_pools s) ->
    (forall c, In c (p_active p) -> c_completed c = false /\ (c_mem c <= c_ram c)%Q) /\
    (p_consumed p <= p_max_ram p)%Q /\
    (p_consumed p == sumQ (map c_mem (p_active p)))%Q /\
    (p_active p = [] -> (p_consumed p == 0)%Q).
Proof. exact C04_reachable. Qed.
Print Assumptions C04_every_reachable_state.

(* [exact] every kill is justified: the failed container was over its own allocation, or it was killed by
   the pool-level loop while the usage that remained after the earlier victims exceeded the pool *)
Theorem C04_kill_justified : forall C w next p ss asgs w' next' p' res,
  (forall x, (cf_rnd C x == x)%Q) ->
  pool_tick C w next p ss asgs = Ok (w', next', p', res) ->
  ids_ok next p -> all_running p ->
  exists act2 w3 cons3 w4 cons4 act4 w1 cons1 act1 cons5 act5 vs,
    tick_active C w3 cons3 act2 = Ok (w4, cons4, act4) /\
    oom_killer C (p_max_ram p) w4 cons4 act4 = Ok (w', cons5, act5) /\
    res = map (result_of (p_id p)) (filter c_completed act5) /\
    kill_over_limit C w4 cons4 act4 = Ok (w1, cons1, act1) /\
    act1 = map (kill_when over_limit) act4 /\
    (usage_ok p -> (cons4 == sumQ (map c_mem act4))%Q /\ (cons1 == sumQ (map c_mem act1))%Q) /\
    (vs <> [] -> (p_max_ram p < cons1)%Q) /\
    Forall (fun v => In v act4 /\ c_completed v = false /\
                     (c_mem v <= c_ram v)%Q /\ (0 < c_mem v)%Q) vs /\
    forall r, In r res -> r_err r = true ->
      exists c, In c act4 /\ c_completed c = false /\ r = result_of (p_id p) (dead c) /\
        ((c_ram c < c_mem c)%Q
         \/
         exists j, nth_error vs j = Some c /\
                   (p_max_ram p < cons1 - sumQ (map c_mem (firstn j vs)))%Q).
Proof. exact kill_justified. Qed.
Print Assumptions C04_kill_justified.

(* [exact] without overcommit a container that stays within its allocation is never killed: the killer
   amounts to its step 1, every failure is a container over its own allocation, the others keep running *)
Theorem C04_no_kill_without_overcommit : forall C w next p ss asgs w' next' p' res,
  (forall x, (cf_rnd C x == x)%Q) ->
  cf_overcommit C = false ->
  pool_tick C w next p ss asgs = Ok (w', next', p', res) ->
  usage_ok p -> ids_ok next p -> all_running p -> ram_ok p ->
  (forall a, In a asgs -> (0 <= a_ram a)%Q) ->
  exists act2 w3 cons3 w4 cons4 act4 cons5 act5,
    tick_active C w3 cons3 act2 = Ok (w4, cons4, act4) /\
    oom_killer C (p_max_ram p) w4 cons4 act4 = Ok (w', cons5, act5) /\
    res = map (result_of (p_id p)) (filter c_completed act5) /\
    kill_over_limit C w4 cons4 act4 = Ok (w', cons5, act5) /\
    act5 = map (kill_when over_limit) act4 /\
    (cons5 <= sumQ (map c_ram act4))%Q /\ (sumQ (map c_ram act4) <= p_max_ram p)%Q /\
    p_active p' = filter (fun c => negb (c_completed c)) act5 /\
    (forall r, In r res -> r_err r = true ->
       exists c, In c act4 /\ c_completed c = false /\ r = result_of (p_id p) (dead c) /\
                 (c_ram c < c_mem c)%Q) /\
    (forall c, In c act4 -> c_completed c = false -> (c_mem c <= c_ram c)%Q -> In c (p_active p')).
Proof. exact no_kill_without_overcommit. Qed.
Print Assumptions C04_no_kill_without_overcommit.

(* the hypotheses of the two theorems above hold for every pool of every reachable state *)
Theorem C04_invariants_reachable : forall C npools cpu ram s,
  (forall x, (cf_rnd C x == x)%Q) -> script_nonneg C -> (0 <= ram)%Q ->
  reach_exec C npools cpu ram s -> Forall (pool_inv C (e_next s)) (e_pools s).
Proof. exact reach_inv. Qed.
Print Assumptions C04_invariants_reachable.

(* [exact] Python's compensated sum() returns the exact sum when nothing is rounded *)
Theorem C04_py_sum_exact : forall rnd, (forall x, (rnd x == x)%Q) -> forall l, (py_sum rnd l == sumQ l)%Q.
Proof. exact py_sum_exact. Qed.
Print Assumptions C04_py_sum_exact.

(* non-vacuity: a two-tick reachable history with an own-limit kill and a completion; an overcommitted
   pool where both containers are within their allocation and the higher scorer is killed *)
Example C04_witness : reach_exec Examples.exC 1 4%Z 10%Q Examples.s2 /\
  forall p, In p (e_pools Examples.s2) ->
    (p_consumed p <= p_max_ram p)%Q /\ (p_consumed p == sumQ (map c_mem (p_active p)))%Q.
Proof. split; [exact Examples.ex_reach | exact Examples.ex_C04]. Qed.

(* ====================================================================== *)
(* [float] the float-faithful model                                        *)
(* ====================================================================== *)
(* Vocabulary (Proofs/FloatBoundFacts.v):
   upd rnd c old new = rnd (c + rnd (new - old))      what set_current_memory_usage does to consumed_ram_gb;
   run_f rnd c l / run_e e l                          a list l of updates (old, new) applied to c with
                                                      rounding / to e exactly;
   steps_ok M S e l                                   all old, new within [-M, M], every exact value within [-S, S];
   nQ k                                               the natural number k as a rational;
   sumabs l                                           the sum of the absolute values;
   script_bd C M                                      every memory demand of every script is within [-M, M];
   cbd M c                                            the usage of c and its demands still to come are within [-M, M];
   pool_run C n p k p'                                p' is reached from p by pool ticks, at most n running containers
                                                      after each of them, and k is the number of container-ticks since
                                                      the last tick in which a container left the running set (was
                                                      suspended, finished or was killed; such a tick recomputes the
                                                      usage), or since p. *)

(* [float] k incremental updates starting from a value whose error is at most D0: the drift is at most
   D0 (1 + k 2^-52) + k (S + 3 M) 2^-52 *)
Theorem C04_float_update_drift : forall M S D0 l c e,
  (0 <= M)%Q -> (0 <= S)%Q -> (0 <= D0)%Q ->
  (Z.of_nat (length l) <= 4503599627370496)%Z ->
  steps_ok M S e l -> (Qabs.Qabs (c - e) <= D0)%Q ->
  (Qabs.Qabs (run_f rnd64 c l - run_e e l) <=
     D0 * (1 + nQ (length l) * (1 # 4503599627370496)) +
     nQ (length l) * (S + 3 * M) * (1 # 4503599627370496))%Q.
Proof. exact rnd64_drift_seq. Qed.
Print Assumptions C04_float_update_drift.

(* [float] the pool: after any number of ticks, the reported usage differs from the exact sum of the
   (float) usages of the running containers by at most
       E (1 + k 2^-52) + k (n + 3) M 2^-52,     E = 3 n M 2^-53 (the error of one reconcile),
   where k counts the container-ticks since the usage was last recomputed. The start p is any pool whose
   reported usage is within E of the sum (a new pool, or the pool after any reconciling tick). *)
Theorem C04_float_drift_bound : forall C M n p k p',
  (forall x, (cf_rnd C x == rnd64 x)%Q) -> (0 <= M)%Q -> script_bd C M ->
  (Z.of_nat n <= 1048576)%Z -> (Z.of_nat k <= 4503599627370496)%Z ->
  pool_run C n p k p' ->
  Forall (cbd M) (p_active p) ->
  (Qabs.Qabs (p_consumed p - sumQ (map c_mem (p_active p))) <= 3 * nQ n * M * (1 # 9007199254740992))%Q ->
  (Qabs.Qabs (p_consumed p' - sumQ (map c_mem (p_active p'))) <=
     3 * nQ n * M * (1 # 9007199254740992) * (1 + nQ k * (1 # 4503599627370496)) +
     nQ k * ((nQ n + 3) * M) * (1 # 4503599627370496))%Q.
Proof. exact float_drift_bound. Qed.
Print Assumptions C04_float_drift_bound.

(* ... in short (k + 3) (n + 3) M 2^-52 *)
Theorem C04_float_drift_bound_simple : forall C M n p k p',
  (forall x, (cf_rnd C x == rnd64 x)%Q) -> (0 <= M)%Q -> script_bd C M ->
  (Z.of_nat n <= 1048576)%Z -> (Z.of_nat k <= 4503599627370496)%Z ->
  pool_run C n p k p' ->
  Forall (cbd M) (p_active p) ->
  (Qabs.Qabs (p_consumed p - sumQ (map c_mem (p_active p))) <= 3 * nQ n * M * (1 # 9007199254740992))%Q ->
  (Qabs.Qabs (p_consumed p' - sumQ (map c_mem (p_active p'))) <=
     (nQ k + 3) * ((nQ n + 3) * M) * (1 # 4503599627370496))%Q.
Proof. exact float_drift_bound_simple. Qed.
Print Assumptions C04_float_drift_bound_simple.

(* the start condition holds for a new pool *)
Theorem C04_float_new_pool : forall id cpu ram n M, (0 <= M)%Q ->
  Forall (cbd M) (p_active (new_pool id cpu ram)) /\
  (Qabs.Qabs (p_consumed (new_pool id cpu ram) - sumQ (map c_mem (p_active (new_pool id cpu ram)))) <=
     3 * nQ n * M * (1 # 9007199254740992))%Q.
Proof. exact new_pool_start. Qed.
Print Assumptions C04_float_new_pool.

(* [float] one tick, the two cases.
   Nobody is suspended, nobody finishes or is killed: at most one update per running container. *)
Theorem C04_float_quiet_tick : forall C M n D0,
  rel_rnd (cf_rnd C) -> (0 <= M)%Q -> (0 <= D0)%Q -> script_bd C M ->
  forall w next p asgs w' next' p' k,
  pool_tick C w next p [] asgs = Ok (w', next', p', []) ->
  Forall (cbd M) (p_active p) -> length (p_active p') <= n ->
  (Qabs.Qabs (p_consumed p - sumQ (map c_mem (p_active p))) <= dbound D0 ((nQ n + 3) * M) k)%Q ->
  Forall (cbd M) (p_active p') /\
  (Qabs.Qabs (p_consumed p' - sumQ (map c_mem (p_active p'))) <=
     dbound D0 ((nQ n + 3) * M) (k + length (p_active p')))%Q.
Proof. exact quiet_tick_drift. Qed.
Print Assumptions C04_float_quiet_tick.

(* A container leaves the running set: whatever the drift was, the usage is recomputed; when a container
   finished or was killed (res <> []) the new value is the reconcile of the containers still running. *)
Theorem C04_float_reset_tick : forall C M n w next p ss asgs w' next' p' res,
  rel_rnd (cf_rnd C) -> (0 <= M)%Q -> script_bd C M -> (Z.of_nat n <= 1048576)%Z ->
  pool_tick C w next p ss asgs = Ok (w', next', p', res) ->
  ss <> [] \/ res <> [] ->
  Forall (cbd M) (p_active p) -> length (p_active p') <= n ->
  Forall (cbd M) (p_active p') /\
  (res <> [] -> p_consumed p' = reconcile C (p_active p') /\
     (Qabs.Qabs (p_consumed p' - sumQ (map c_mem (p_active p'))) <= 3 * nQ n * M * (1 # 9007199254740992))%Q) /\
  (Qabs.Qabs (p_consumed p' - sumQ (map c_mem (p_active p'))) <=
     dbound (3 * nQ n * M * (1 # 9007199254740992)) ((nQ n + 3) * M) (length (p_active p')))%Q.
Proof. exact reset_tick_drift. Qed.
Print Assumptions C04_float_reset_tick.

(* [float] the error of a reconcile. Python's sum() (Neumaier) of at most 2^20 binary64 numbers:
   |py_sum l - sum l| <= 2^-53 (|sum l| + (1 + 2^-10) sum |l_i|), independent of the number of items;
   for non-negative items a relative error of at most 3 * 2^-53.
   Partial with respect to the best known bound (2^-53 |sum l| + O(n 2^-106) sum |l_i|): the proof uses the
   relative error of every rounding only, not the exactness of the error term (f - t) + x. *)
Theorem C04_reconcile_error_bound : forall l,
  (Z.of_nat (length l) <= 1048576)%Z ->
  (Qabs.Qabs (py_sum rnd64 l - sumQ l) <=
     (Qabs.Qabs (sumQ l) + (1025 # 1024) * sumabs l) * (1 # 9007199254740992))%Q.
Proof. exact rnd64_py_sum_error. Qed.
Print Assumptions C04_reconcile_error_bound.

Theorem C04_reconcile_error_bound_nonneg : forall l,
  (Z.of_nat (length l) <= 1048576)%Z -> (forall x, In x l -> (0 <= x)%Q) ->
  (Qabs.Qabs (py_sum rnd64 l - sumQ l) <= sumQ l * (3 # 9007199254740992))%Q.
Proof. exact rnd64_py_sum_error_nonneg. Qed.
Print Assumptions C04_reconcile_error_bound_nonneg.

(* the single-rounding bound, conditional: [comp_exact rnd64 f c l] says that along the loop of sum() the
   compensation c absorbs the rounding error of every addition f + x without an error of its own
   (c + (f + x - f') == c'); then the result is ONE rounding of the exact sum. The condition is decidable on
   concrete lists (C04_reconcile_witness_exact below); that it always holds for the first two of the three
   compensation roundings (error-free transformation) is not proved here. *)
Theorem C04_reconcile_error_single_rounding_partial : forall x t,
  comp_exact rnd64 x 0 t ->
  (Qabs.Qabs (py_sum rnd64 (x :: t) - sumQ (x :: t)) <= Qabs.Qabs (sumQ (x :: t)) * (1 # 9007199254740992))%Q.
Proof. exact rnd64_py_sum_error_comp_exact. Qed.
Print Assumptions C04_reconcile_error_single_rounding_partial.

(* ... and in the pool: after a tick in which a container finished or was killed the reported usage IS that
   sum() over the containers still running *)
Theorem C04_float_reconcile_tick : forall C w next p ss asgs w' next' p' res,
  (forall x, (cf_rnd C x == rnd64 x)%Q) ->
  pool_tick C w next p ss asgs = Ok (w', next', p', res) -> res <> [] ->
  (Z.of_nat (length (p_active p')) <= 1048576)%Z ->
  p_consumed p' = py_sum (cf_rnd C) (map c_mem (p_active p')) /\
  (Qabs.Qabs (p_consumed p' - sumQ (map c_mem (p_active p'))) <=
     (Qabs.Qabs (sumQ (map c_mem (p_active p'))) + (1025 # 1024) * sumabs (map c_mem (p_active p'))) *
     (1 # 9007199254740992))%Q /\
  ((forall c, In c (p_active p') -> (0 <= c_mem c)%Q) ->
   (Qabs.Qabs (p_consumed p' - sumQ (map c_mem (p_active p'))) <=
      sumQ (map c_mem (p_active p')) * (3 # 9007199254740992))%Q).
Proof. exact float_reconcile_tick. Qed.
Print Assumptions C04_float_reconcile_tick.

(* [float] numbers. The monitor of the harness compares with a tolerance of 1e-6 GB; this is justified
   whenever (k + 3) (n + 3) M <= 4503599627 = floor (2^52 / 10^6) ... *)
Theorem C04_float_drift_tolerance : forall C M n p k p',
  (forall x, (cf_rnd C x == rnd64 x)%Q) -> (0 <= M)%Q -> script_bd C M ->
  (Z.of_nat n <= 1048576)%Z -> (Z.of_nat k <= 4503599627370496)%Z ->
  pool_run C n p k p' ->
  Forall (cbd M) (p_active p) ->
  (Qabs.Qabs (p_consumed p - sumQ (map c_mem (p_active p))) <= 3 * nQ n * M * (1 # 9007199254740992))%Q ->
  ((nQ k + 3) * ((nQ n + 3) * M) <= 4503599627)%Q ->
  (Qabs.Qabs (p_consumed p' - sumQ (map c_mem (p_active p'))) <= 1 # 1000000)%Q.
Proof. exact float_drift_tolerance. Qed.
Print Assumptions C04_float_drift_tolerance.

(* ... for instance at the scale of the harness (values up to 512 GB, at most 16 running containers in a
   pool) for up to 400000 container-ticks between two reconciles; *)
Theorem C04_float_drift_harness_scale : forall C M n k p p',
  (forall x, (cf_rnd C x == rnd64 x)%Q) -> (0 <= M)%Q -> script_bd C M ->
  pool_run C n p k p' ->
  Forall (cbd M) (p_active p) ->
  (Qabs.Qabs (p_consumed p - sumQ (map c_mem (p_active p))) <= 3 * nQ n * M * (1 # 9007199254740992))%Q ->
  (M <= 512)%Q -> (Z.of_nat n <= 16)%Z -> (Z.of_nat k <= 400000)%Z ->
  (Qabs.Qabs (p_consumed p' - sumQ (map c_mem (p_active p'))) <= 1 # 1000000)%Q.
Proof. exact drift_harness_scale. Qed.
Print Assumptions C04_float_drift_harness_scale.

(* with values up to 1024 GB and 1000 running containers for up to 4380 container-ticks; *)
Theorem C04_float_drift_large_scale : forall C M n k p p',
  (forall x, (cf_rnd C x == rnd64 x)%Q) -> (0 <= M)%Q -> script_bd C M ->
  pool_run C n p k p' ->
  Forall (cbd M) (p_active p) ->
  (Qabs.Qabs (p_consumed p - sumQ (map c_mem (p_active p))) <= 3 * nQ n * M * (1 # 9007199254740992))%Q ->
  (M <= 1024)%Q -> (Z.of_nat n <= 1000)%Z -> (Z.of_nat k <= 4380)%Z ->
  (Qabs.Qabs (p_consumed p' - sumQ (map c_mem (p_active p'))) <= 1 # 1000000)%Q.
Proof. exact drift_large_scale_tolerance. Qed.
Print Assumptions C04_float_drift_large_scale.

(* with 10^6 container-ticks at that scale the bound is 2.3e-4 GB, not 1e-6 GB *)
Theorem C04_float_drift_large_scale_million : forall C M n k p p',
  (forall x, (cf_rnd C x == rnd64 x)%Q) -> (0 <= M)%Q -> script_bd C M ->
  pool_run C n p k p' ->
  Forall (cbd M) (p_active p) ->
  (Qabs.Qabs (p_consumed p - sumQ (map c_mem (p_active p))) <= 3 * nQ n * M * (1 # 9007199254740992))%Q ->
  (M <= 1024)%Q -> (Z.of_nat n <= 1000)%Z -> (Z.of_nat k <= 1000000)%Z ->
  (Qabs.Qabs (p_consumed p' - sumQ (map c_mem (p_active p'))) <= 23 # 100000)%Q.
Proof. exact drift_large_scale_million. Qed.
Print Assumptions C04_float_drift_large_scale_million.

(* non-vacuity (cf_rnd = rnd64, memory demands 0.1 0.2 0.3 0.3 and 0.7 0.1 0.4 0.4 0.4 GB): three quiet
   ticks of a pool with two containers, k = 6; the reported usage is off by 2^-54 GB, not zero, and within
   the bound; in the fourth tick a container finishes, the usage is recomputed and the count restarts *)
Example C04_float_witness :
  pool_run FloatExamples.exF 2 (FloatExamples.pl FloatExamples.st0) 6
           (FloatExamples.pl FloatExamples.st3) /\
  map FloatExamples.usage
      [FloatExamples.st1; FloatExamples.st2; FloatExamples.st3;
       FloatExamples.st4] =
  [(7205759403792793 # 9007199254740992, 28823037615171173 # 36028797018963968, (-1) # 36028797018963968);
   (2702159776422297 # 9007199254740992, 10808639105689191 # 36028797018963968, (-3) # 36028797018963968);
   (3152519739159347 # 4503599627370496, 12610078956637389 # 18014398509481984, (-1) # 18014398509481984);
   (3602879701896397 # 9007199254740992, 3602879701896397 # 9007199254740992, 0)]%Q /\
  (Qabs.Qabs (p_consumed (FloatExamples.pl FloatExamples.st3)
              - sumQ (map c_mem (p_active (FloatExamples.pl FloatExamples.st3)))) <=
     (6 + 3) * ((2 + 3) * 1) * (1 # 4503599627370496))%Q /\
  pool_run FloatExamples.exF 2 (FloatExamples.pl FloatExamples.st0) 1
           (FloatExamples.pl FloatExamples.st4).
Proof.
  split; [exact FloatExamples.ex_run3|].
  split; [exact FloatExamples.ex_usages|].
  split; [exact (proj2 FloatExamples.ex_pool_drift) | exact FloatExamples.ex_run4].
Qed.

(* sum([0.1, 0.2, 0.3]) = 0.6 differs from the exact sum of the three binary64 numbers by 2^-55 *)
Example C04_reconcile_witness :
  Qred (py_sum rnd64 [FloatExamples.d01; FloatExamples.d02; FloatExamples.d03]
        - sumQ [FloatExamples.d01; FloatExamples.d02; FloatExamples.d03])
  = ((-1) # 36028797018963968)%Q.
Proof. exact (proj1 (proj2 FloatExamples.ex_py_sum)). Qed.

Example C04_reconcile_witness_exact :
  comp_exact rnd64 FloatExamples.d01 0 [FloatExamples.d02; FloatExamples.d03].
Proof. exact FloatExamples.ex_py_sum_comp_exact. Qed.

(* ====================================================================== *)
(* Simulator level: C04 in every state and every tick of a whole run       *)
(* ====================================================================== *)
(* [sim_reach C a 0 (init_sim C np cpu ram) t s]: [s] is the simulator state after [t] ticks of some run of
   the shipped scheduler [a] (naive, starter, overbook, priority, priority-pool) from the initial state, for
   any arrivals; every state [sim_run] passes through is one (C04_sim_run_ticks below). Every simulator tick
   is one executor step with the scheduler's commands (Proofs/SimReachFacts.v, [sim_tick_exec_step]);
   Proofs/SimCorollaryFacts.v opens it into the ticks of the pools. *)
From Eudoxia Require Import Model.Sched Model.Simulator Proofs.PriorityPoolRunFacts Proofs.SimCorollaryFacts.

(* [exact] the invariants behind the per-tick theorems, and C04 in the words of the property, in every state *)
Theorem C04_sim_pool_invariants : forall C a np cpu ram,
  (forall x, (cf_rnd C x == x)%Q) -> script_nonneg C -> (0 <= ram)%Q ->
  forall t s, sim_reach C a 0%Z (init_sim C np cpu ram) t s ->
  Forall (pool_inv C (e_next (sm_exec s))) (e_pools (sm_exec s)).
Proof. exact SimCorollaryFacts.sim_pool_inv. Qed.
Print Assumptions C04_sim_pool_invariants.

Theorem C04_sim_invariants : forall C a np cpu ram,
  (forall x, (cf_rnd C x == x)%Q) -> script_nonneg C -> (0 <= ram)%Q ->
  forall t s, sim_reach C a 0%Z (init_sim C np cpu ram) t s ->
  forall p, In p (e_pools (sm_exec s)) ->
    (forall c, In c (p_active p) -> c_completed c = false /\ (c_mem c <= c_ram c)%Q) /\
    (p_consumed p <= p_max_ram p)%Q /\
    (p_consumed p == sumQ (map c_mem (p_active p)))%Q /\
    (p_active p = [] -> (p_consumed p == 0)%Q).
Proof. exact SimCorollaryFacts.C04_sim_invariants. Qed.
Print Assumptions C04_sim_invariants.

(* ... in particular in the state [sim_run] ends in (normally, or at the tick that raised) *)
Theorem C04_sim_run_invariants : forall C a np cpu ram,
  (forall x, (cf_rnd C x == x)%Q) -> script_nonneg C -> (0 <= ram)%Q ->
  forall arrivals sf logs oe,
  sim_run C a 0%Z (init_sim C np cpu ram) arrivals = (sf, logs, oe) ->
  Forall (pool_inv C (e_next (sm_exec sf))) (e_pools (sm_exec sf)) /\
  forall p, In p (e_pools (sm_exec sf)) ->
    (forall c, In c (p_active p) -> c_completed c = false /\ (c_mem c <= c_ram c)%Q) /\
    (p_consumed p <= p_max_ram p)%Q /\
    (p_consumed p == sumQ (map c_mem (p_active p)))%Q /\
    (p_active p = [] -> (p_consumed p == 0)%Q).
Proof. exact SimCorollaryFacts.C04_sim_run_invariants. Qed.
Print Assumptions C04_sim_run_invariants.

(* [any rnd] within the allocation, in every state of every run *)
Theorem C04_sim_within_alloc : forall C a np cpu ram t s,
  sim_reach C a 0%Z (init_sim C np cpu ram) t s ->
  forall p, In p (e_pools (sm_exec s)) ->
  forall c, In c (p_active p) -> (c_mem c <= c_ram c)%Q /\ c_completed c = false.
Proof. exact SimCorollaryFacts.C04_sim_within_alloc. Qed.
Print Assumptions C04_sim_within_alloc.

(* the ticks of a run: the i-th log entry of [sim_run] is the log of [sim_tick] from a state the run passes
   through, so the per-tick theorems below speak about every tick of every run *)
Theorem C04_sim_run_ticks : forall C a arrivals t0 s0 sf logs oe,
  sim_run C a t0 s0 arrivals = (sf, logs, oe) ->
  forall i lg, nth_error logs i = Some lg ->
  exists s s' newp,
    nth_error arrivals i = Some newp /\
    sim_reach C a t0 s0 (t0 + Z.of_nat i)%Z s /\
    sim_tick C a (t0 + Z.of_nat i)%Z s newp = Ok (s', lg) /\
    sim_reach C a t0 s0 (t0 + Z.of_nat i + 1)%Z s'.
Proof. exact SimCorollaryFacts.sim_run_log_tick. Qed.
Print Assumptions C04_sim_run_ticks.

(* [exact] every OOM failure reported in any tick of any run is justified. The failed result [r] comes from
   the tick of one pool [p] (position [i]; [p'] afterwards), run with the pool's share [ss], [asgs] of the
   commands of this simulator tick and a container-id counter [next] not below the counter of the state.
   The containers the justification speaks about ARE the containers of the pool (the link, audit C P2):
     [act2] = the running containers of [p] that no command of [ss] names, in order, followed by the containers
              the assignments [asgs] create ([new_containers next asgs]: [new_container] with ids next, next+1, ..);
     [act4] = [map (cstep C) act2]: each of them after its [ctick] of this tick ([cstep], Proofs/SimTimelineFacts.v,
              C05 Part 4) - the containers as they enter the killer; the running ones among [act5] (as they leave
              it) are the running list of [p'], the finished ones are the results of the pool.
   With the vocabulary of C04_kill_justified ([act1] / [cons1]: after the own-limit kills, [vs]: the victims of the
   pool-level loop in kill order): the usage figures are the exact sums, the pool-level loop ran only if the usage
   exceeded the pool AND RAM overcommit is on, and the failed container [c] was above its own allocation, or
   (overcommit) was killed while the usage that remained after the earlier victims still exceeded the pool.
   [vs], [next] and [res] are tied to the run (audit D P2, P5; the same links as C11_sim_kills):
     the ids of [act4] are distinct; the ids of [vs] are the first [k] of the killer's candidate order over [act1];
     [act5] IS [act1] with exactly the containers of [vs] killed ([kill_if (map c_id vs)]), and the ids that step 2
     killed ([ids_killed act1 act5]) are the ids of [vs] - so a container that survives the tick is not in [vs], and
     with [Forall (fun v => In v act4 /\ ..) vs] the list [vs] is a function of [act4] and [k]
     (AuditRepairFacts2.victims_determined);
     every result of the pool tick is a result of the simulator tick ([incl res (tl_results lg)]), which pins the
     ids of the containers created in the tick, hence [next], whenever one of them leaves in the tick.
   Both are shown on the audit's own witness ticks below (C04_sim_kill_justified_forces_victims / _forces_counter) *)
From Eudoxia Require Import Proofs.LedgerFacts Proofs.SimTimelineFacts Proofs.AuditRepairFacts
  Proofs.AuditRepairFacts2.

Theorem C04_sim_kill_justified : forall C a np cpu ram,
  (forall x, (cf_rnd C x == x)%Q) -> script_nonneg C -> (0 <= ram)%Q ->
  forall t s newp s' lg,
  sim_reach C a 0%Z (init_sim C np cpu ram) t s ->
  sim_tick C a t s newp = Ok (s', lg) ->
  forall r, In r (tl_results lg) -> r_err r = true ->
  exists i p p' w next w' next' res,
    let ss := filter (fun x => (su_pool x =? Z.of_nat (p_id p))%Z) (tl_susp lg) in
    let asgs := filter (fun x => (a_pool x =? Z.of_nat (p_id p))%Z) (tl_asgs lg) in
    nth_error (e_pools (sm_exec s)) i = Some p /\ nth_error (e_pools (sm_exec s')) i = Some p' /\
    (e_next (sm_exec s) <= next)%nat /\
    pool_tick C w next p ss asgs = Ok (w', next', p', res) /\ In r res /\ incl res (tl_results lg) /\
    exists act2 w3 cons3 w4 cons4 act4 w1 cons1 act1 cons5 act5 vs k,
      act2 = filter (fun c => negb (memb (c_id c) (map su_cid ss))) (p_active p) ++ new_containers next asgs /\
      act4 = map (cstep C) act2 /\
      tick_active C w3 cons3 act2 = Ok (w4, cons4, act4) /\
      NoDup (map c_id act4) /\
      oom_killer C (p_max_ram p) w4 cons4 act4 = Ok (w', cons5, act5) /\
      p_active p' = filter (fun c => negb (c_completed c)) act5 /\
      res = map (result_of (p_id p)) (filter c_completed act5) /\
      kill_over_limit C w4 cons4 act4 = Ok (w1, cons1, act1) /\
      act1 = map (kill_when over_limit) act4 /\
      (k <= length (victims_order C act1))%nat /\
      map c_id vs = firstn k (victims_order C act1) /\
      act5 = map (kill_if (map c_id vs)) act1 /\
      (forall id, In id (ids_killed act1 act5) <-> In id (map c_id vs)) /\
      (cons4 == sumQ (map c_mem act4))%Q /\ (cons1 == sumQ (map c_mem act1))%Q /\
      (vs <> [] -> (p_max_ram p < cons1)%Q /\ cf_overcommit C = true) /\
      Forall (fun v => In v act4 /\ c_completed v = false /\
                       (c_mem v <= c_ram v)%Q /\ (0 < c_mem v)%Q) vs /\
      exists c, In c act4 /\ c_completed c = false /\ r = result_of (p_id p) (dead c) /\
        ((c_ram c < c_mem c)%Q
         \/
         cf_overcommit C = true /\
         exists j, nth_error vs j = Some c /\
                   (p_max_ram p < cons1 - sumQ (map c_mem (firstn j vs)))%Q).
Proof. exact AuditRepairFacts.sim_kill_justified_linked. Qed.
Print Assumptions C04_sim_kill_justified.

(* the link is what ties the memory figures to the run. Tick 0 of the witness run below ([C04_sim_witness]: two
   containers created in the tick, 6 GB of their 10 GB each, container 0 taken by the pool-level loop): audit C
   satisfied the body WITHOUT the link by a fabricated container 0 that "uses" 11 GB, with the own-limit disjunct
   (AuditExamplesC.C04.kill_justified_body_accepts_fabricated_containers). Four conjuncts of the body above force
   the real figures on every candidate [c]: 6 GB of 10 GB, so the own-limit disjunct is false of it *)
Example C04_sim_kill_justified_link_forces_real_memory :
  forall i p next act2 act4 c,
    nth_error (e_pools (sm_exec SimCorExamples.k0)) i = Some p ->
    act2 = filter (fun c => negb (memb (c_id c) (map su_cid
                     (filter (fun x => (su_pool x =? Z.of_nat (p_id p))%Z) (tl_susp SimCorExamples.klg0)))))
                  (p_active p)
           ++ new_containers next
                (filter (fun x => (a_pool x =? Z.of_nat (p_id p))%Z) (tl_asgs SimCorExamples.klg0)) ->
    act4 = map (cstep SimCorExamples.Ck) act2 -> In c act4 ->
    (c_mem c == 6)%Q /\ (c_ram c == 10)%Q /\ ~ (c_ram c < c_mem c)%Q.
Proof. exact AuditRepairFacts.LinkExamples.link_forces_real_memory. Qed.

(* the victim link is what fixes [vs] (audit D P2). Same tick: AuditExamplesD.VsFree satisfied the body as it was
   before - [vs] mentioned only by [vs <> [] -> ..], the [Forall] and [nth_error vs j = Some c] - with
   vs = [container 0; container 1] although container 1 is the running list of the pool after the tick. With the
   conjuncts of the body above (the link, the two kill equations, the victim link, the running list after the tick,
   the [Forall]): the counter is 0, exactly one victim is taken, [vs] is exactly [container 0], the survivor
   container 1 is not in it *)
Example C04_sim_kill_justified_forces_victims :
  forall i p p' next act2 act4 act1 act5 vs k,
    nth_error (e_pools (sm_exec SimCorExamples.k0)) i = Some p ->
    nth_error (e_pools (sm_exec SimCorExamples.k1)) i = Some p' ->
    act2 = filter (fun c => negb (memb (c_id c) (map su_cid
                     (filter (fun x => (su_pool x =? Z.of_nat (p_id p))%Z) (tl_susp SimCorExamples.klg0)))))
                  (p_active p)
           ++ new_containers next
                (filter (fun x => (a_pool x =? Z.of_nat (p_id p))%Z) (tl_asgs SimCorExamples.klg0)) ->
    act4 = map (cstep SimCorExamples.Ck) act2 ->
    act1 = map (kill_when over_limit) act4 ->
    (k <= length (victims_order SimCorExamples.Ck act1))%nat ->
    map c_id vs = firstn k (victims_order SimCorExamples.Ck act1) ->
    act5 = map (kill_if (map c_id vs)) act1 ->
    p_active p' = filter (fun c => negb (c_completed c)) act5 ->
    Forall (fun v => In v act4 /\ c_completed v = false /\ (c_mem v <= c_ram v)%Q /\ (0 < c_mem v)%Q) vs ->
    next = 0%nat /\ k = 1%nat /\ act4 = [VictimsForced.kc0; VictimsForced.kc1] /\
    vs = [VictimsForced.kc0] /\ ~ In VictimsForced.kc1 vs /\ In VictimsForced.kc1 (p_active p').
Proof. exact AuditRepairFacts2.VictimsForced.kill_justified_forces_victims. Qed.

(* ([kc0], [kc1] are the two containers of that tick as they enter the killer, ids 0 and 1) *)
Example C04_sim_kill_justified_forces_victims_containers :
  VictimsForced.kact4 = [VictimsForced.kc0; VictimsForced.kc1] /\
  (c_id VictimsForced.kc0, c_id VictimsForced.kc1) = (0%nat, 1%nat) /\
  p_active LinkExamples.kp' = [VictimsForced.kc1] /\
  map r_cid (tl_results SimCorExamples.klg0) = [0%nat] /\ e_next (sm_exec SimCorExamples.k0) = 0%nat.
Proof. exact AuditRepairFacts2.VictimsForced.real_containers. Qed.

(* [incl res (tl_results lg)] is what fixes [next] (audit D P5). A reachable overbook tick (CounterForced.real_tick:
   every hypothesis of the theorem holds; the counter of the state is 1; containers 0 and 1 both exceed their
   allocation and are killed): AuditExamplesD.NextFree satisfied the body as it was before with next = 7, a
   "container 7" and a result with id 7 that the tick never reported. With the conjuncts of the body above the
   counter is the counter of the state, the containers that enter the killer are 0 and 1, and the results of the
   pool are the two results of the log *)
Example C04_sim_kill_justified_forces_counter :
  forall i p next act2 act4 act1 act5 vs k res,
    nth_error (e_pools (sm_exec CounterForced.n1)) i = Some p ->
    act2 = filter (fun c => negb (memb (c_id c) (map su_cid
              (filter (fun x => (su_pool x =? Z.of_nat (p_id p))%Z) (tl_susp CounterForced.nlg1))))) (p_active p)
           ++ new_containers next (filter (fun x => (a_pool x =? Z.of_nat (p_id p))%Z) (tl_asgs CounterForced.nlg1)) ->
    act4 = map (cstep CounterForced.Cn) act2 -> act1 = map (kill_when over_limit) act4 ->
    map c_id vs = firstn k (victims_order CounterForced.Cn act1) ->
    act5 = map (kill_if (map c_id vs)) act1 ->
    res = map (result_of (p_id p)) (filter c_completed act5) ->
    incl res (tl_results CounterForced.nlg1) ->
    next = 1%nat /\ next = e_next (sm_exec CounterForced.n1) /\ map c_id act4 = [0%nat; 1%nat] /\ vs = [] /\
    map r_cid res = [0%nat; 1%nat] /\ next <> 7%nat.
Proof. exact AuditRepairFacts2.CounterForced.kill_justified_forces_counter. Qed.

Example C04_sim_kill_justified_forces_counter_tick :
  (forall x, (cf_rnd CounterForced.Cn x == x)%Q) /\ script_nonneg CounterForced.Cn /\
  sim_reach CounterForced.Cn AOverbook 0%Z (init_sim CounterForced.Cn 1 10%Z 10%Q) 1%Z CounterForced.n1 /\
  sim_tick CounterForced.Cn AOverbook 1%Z CounterForced.n1 [0%nat] = Ok (CounterForced.n2, CounterForced.nlg1) /\
  In CounterForced.nr (tl_results CounterForced.nlg1) /\ r_err CounterForced.nr = true /\
  e_next (sm_exec CounterForced.n1) = 1%nat /\ e_next (sm_exec CounterForced.n2) = 2%nat /\
  map (fun r => (r_cid r, r_ops r, r_err r)) (tl_results CounterForced.nlg1)
    = [(0%nat, [1%nat], true); (1%nat, [0%nat], true)] /\
  r_cid CounterForced.nr = 0%nat.
Proof. exact AuditRepairFacts2.CounterForced.real_tick. Qed.

(* [exact] "without overcommit a container that stays within its allocation is never killed" (audit C P1; this
   replaces a statement whose existential container was tied to nothing). A running container [c] of pool [i] that
   no suspension command of the tick names, and whose state after this tick's [ctick] ([cstep C c]) is unfinished
   and within its allocation: it is in the running list of pool [i] after the tick, in that state, and no result
   of the tick carries its id *)
Theorem C04_sim_no_overcommit_within_alloc_never_killed : forall C a np cpu ram,
  (forall x, (cf_rnd C x == x)%Q) -> script_nonneg C -> (0 <= ram)%Q ->
  forall t s newp s' lg i p c,
  sim_reach C a 0%Z (init_sim C np cpu ram) t s ->
  sim_tick C a t s newp = Ok (s', lg) ->
  cf_overcommit C = false ->
  nth_error (e_pools (sm_exec s)) i = Some p -> In c (p_active p) ->
  (forall su, In su (tl_susp lg) -> su_cid su <> c_id c) ->
  c_completed (cstep C c) = false -> (c_mem (cstep C c) <= c_ram (cstep C c))%Q ->
  exists p', nth_error (e_pools (sm_exec s')) i = Some p' /\ In (cstep C c) (p_active p') /\
             forall r, In r (tl_results lg) -> r_cid r <> c_id c.
Proof. exact AuditRepairFacts.sim_no_overcommit_within_alloc_never_killed. Qed.
Print Assumptions C04_sim_no_overcommit_within_alloc_never_killed.

(* [exact] the converse direction, about REAL containers: without RAM overcommit every failed result of a tick is
   the result of a container [c] of one pool [p] of the state before the tick - running there and not named by a
   suspension command for that pool, or created by this tick's assignments for that pool (id from the counter) -
   whose state after its [ctick] of this tick is unfinished and ABOVE its allocation *)
Theorem C04_sim_failure_is_own_limit_without_overcommit : forall C a np cpu ram,
  (forall x, (cf_rnd C x == x)%Q) -> script_nonneg C -> (0 <= ram)%Q ->
  forall t s newp s' lg,
  sim_reach C a 0%Z (init_sim C np cpu ram) t s ->
  sim_tick C a t s newp = Ok (s', lg) ->
  cf_overcommit C = false ->
  forall r, In r (tl_results lg) -> r_err r = true ->
  exists i p next c,
    nth_error (e_pools (sm_exec s)) i = Some p /\ (e_next (sm_exec s) <= next)%nat /\
    (In c (p_active p) /\
     ~ In (c_id c) (map su_cid (filter (fun x => (su_pool x =? Z.of_nat (p_id p))%Z) (tl_susp lg)))
     \/ In c (new_containers next (filter (fun x => (a_pool x =? Z.of_nat (p_id p))%Z) (tl_asgs lg)))) /\
    r = result_of (p_id p) (dead (cstep C c)) /\
    c_completed (cstep C c) = false /\
    (c_ram c < c_mem (cstep C c))%Q.
Proof. exact AuditRepairFacts.sim_failure_is_own_limit_without_overcommit. Qed.
Print Assumptions C04_sim_failure_is_own_limit_without_overcommit.

(* non-vacuity of the two theorems, RAM overcommit OFF: the naive run of C05 Part 4 (SimTimelineExamples: one pool,
   4 CPUs, 8 GB; container 1 = operators [1; 2] with 8 GB, created in tick 1; operator 1 needs 1 GB for three
   ticks, operator 2 then asks for 1 GB and 100 GB). ALL hypotheses of C04_sim_no_overcommit_within_alloc_never_killed
   hold in tick 3 for container 1 (1 GB of 8 GB after its [ctick]), and its conclusion *)
Example C04_sim_never_killed_witness :
  cf_overcommit SimTimelineExamples.xC = false /\
  (forall x, (cf_rnd SimTimelineExamples.xC x == x)%Q) /\ script_nonneg SimTimelineExamples.xC /\ (0 <= 8)%Q /\
  sim_reach SimTimelineExamples.xC ANaive 0%Z (init_sim SimTimelineExamples.xC 1 4%Z 8%Q) 3%Z SimTimelineExamples.x3 /\
  sim_tick SimTimelineExamples.xC ANaive 3%Z SimTimelineExamples.x3 []
    = Ok (RepairExamples.x4, RepairExamples.xlg3) /\
  nth_error (e_pools (sm_exec SimTimelineExamples.x3)) 0 = Some SimTimelineExamples.xp3 /\
  In SimTimelineExamples.xc1 (p_active SimTimelineExamples.xp3) /\
  (forall su, In su (tl_susp RepairExamples.xlg3) -> su_cid su <> c_id SimTimelineExamples.xc1) /\
  c_completed (cstep SimTimelineExamples.xC SimTimelineExamples.xc1) = false /\
  (c_mem (cstep SimTimelineExamples.xC SimTimelineExamples.xc1)
   <= c_ram (cstep SimTimelineExamples.xC SimTimelineExamples.xc1))%Q /\
  (c_id SimTimelineExamples.xc1, Qred (c_mem (cstep SimTimelineExamples.xC SimTimelineExamples.xc1)),
   Qred (c_ram (cstep SimTimelineExamples.xC SimTimelineExamples.xc1))) = (1%nat, 1%Q, 8%Q) /\
  exists p', nth_error (e_pools (sm_exec RepairExamples.x4)) 0 = Some p' /\
             In (cstep SimTimelineExamples.xC SimTimelineExamples.xc1) (p_active p') /\
             forall r, In r (tl_results RepairExamples.xlg3) -> r_cid r <> c_id SimTimelineExamples.xc1.
Proof.
  destruct RepairExamples.never_killed_hyps as (A1 & A2 & A3 & A4 & A5 & A6 & A7 & A8 & A9).
  split; [exact A1|]. split; [exact RepairExamples.xC_exact|]. split; [exact RepairExamples.xC_nonneg|].
  split; [discriminate|]. split; [exact A2|]. split; [exact A3|]. split; [exact A4|]. split; [exact A5|].
  split; [exact A6|]. split; [exact A7|]. split; [exact A8|]. split; [exact A9|].
  exact (C04_sim_no_overcommit_within_alloc_never_killed SimTimelineExamples.xC ANaive 1%nat 4%Z 8%Q
           RepairExamples.xC_exact RepairExamples.xC_nonneg ltac:(discriminate) 3%Z SimTimelineExamples.x3 []
           RepairExamples.x4 RepairExamples.xlg3 0%nat SimTimelineExamples.xp3 SimTimelineExamples.xc1
           A2 A3 A1 A4 A5 A6 A7 A8).
Qed.

(* ... and ALL hypotheses of C04_sim_failure_is_own_limit_without_overcommit hold in tick 6 of the same run for the
   failed result of container 1 (its own-limit OOM: 100 GB against 8 GB); the theorem applies, and the container it
   speaks about is the running container 1 of pool 0 *)
Example C04_sim_failure_is_own_limit_witness :
  cf_overcommit SimTimelineExamples.xC = false /\
  sim_reach SimTimelineExamples.xC ANaive 0%Z (init_sim SimTimelineExamples.xC 1 4%Z 8%Q) 6%Z RepairExamples.x6 /\
  sim_tick SimTimelineExamples.xC ANaive 6%Z RepairExamples.x6 [] = Ok (RepairExamples.x7, RepairExamples.xlg6) /\
  In RepairExamples.xr6 (tl_results RepairExamples.xlg6) /\ r_err RepairExamples.xr6 = true /\
  (r_cid RepairExamples.xr6, r_ops RepairExamples.xr6, Qred (r_ram RepairExamples.xr6), r_pool RepairExamples.xr6)
    = (1%nat, [1%nat; 2%nat], 8%Q, 0%nat) /\
  (exists i p next c,
     nth_error (e_pools (sm_exec RepairExamples.x6)) i = Some p /\ (e_next (sm_exec RepairExamples.x6) <= next)%nat /\
     (In c (p_active p) /\
      ~ In (c_id c) (map su_cid (filter (fun x => (su_pool x =? Z.of_nat (p_id p))%Z) (tl_susp RepairExamples.xlg6)))
      \/ In c (new_containers next
                 (filter (fun x => (a_pool x =? Z.of_nat (p_id p))%Z) (tl_asgs RepairExamples.xlg6)))) /\
     RepairExamples.xr6 = result_of (p_id p) (dead (cstep SimTimelineExamples.xC c)) /\
     c_completed (cstep SimTimelineExamples.xC c) = false /\
     (c_ram c < c_mem (cstep SimTimelineExamples.xC c))%Q) /\
  nth_error (e_pools (sm_exec RepairExamples.x6)) 0 = Some RepairExamples.xp6 /\
  In RepairExamples.xc6 (p_active RepairExamples.xp6) /\ tl_susp RepairExamples.xlg6 = [] /\
  RepairExamples.xr6 = result_of (p_id RepairExamples.xp6) (dead (cstep SimTimelineExamples.xC RepairExamples.xc6)) /\
  (c_id RepairExamples.xc6, Qred (c_ram RepairExamples.xc6), Qred (c_mem RepairExamples.xc6),
   Qred (c_mem (cstep SimTimelineExamples.xC RepairExamples.xc6))) = (1%nat, 8%Q, 1%Q, 100%Q).
Proof.
  destruct RepairExamples.failure_hyps as (A1 & A2 & A3 & A4 & A5 & A6).
  split; [exact A1|]. split; [exact A2|]. split; [exact A3|]. split; [exact A4|]. split; [exact A5|].
  split; [exact A6|].
  split; [|exact (proj2 RepairExamples.failure_applies)].
  exact (C04_sim_failure_is_own_limit_without_overcommit SimTimelineExamples.xC ANaive 1%nat 4%Z 8%Q
           RepairExamples.xC_exact RepairExamples.xC_nonneg ltac:(discriminate) 6%Z RepairExamples.x6 []
           RepairExamples.x7 RepairExamples.xlg6 A2 A3 A1 RepairExamples.xr6 A4 A5).
Qed.

(* non-vacuity: overbook with RAM overcommit, two one-operator pipelines of 6 GB each on one pool of 10 GB:
   both containers get 10 GB in tick 0, both are within their allocation, container 0 is killed by the
   pool-level loop; the hypotheses of the theorems hold, a failed result exists, and the state after the tick
   satisfies the invariants (usage 6 GB = the one running container) *)
Example C04_sim_witness :
  (forall x, (cf_rnd SimCorExamples.Ck x == x)%Q) /\ script_nonneg SimCorExamples.Ck /\
  sim_reach SimCorExamples.Ck AOverbook 0%Z (init_sim SimCorExamples.Ck 1 10%Z 10%Q) 0%Z SimCorExamples.k0 /\
  sim_tick SimCorExamples.Ck AOverbook 0%Z SimCorExamples.k0 [0%nat; 1%nat]
    = Ok (SimCorExamples.k1, SimCorExamples.klg0) /\
  (exists r, In r (tl_results SimCorExamples.klg0) /\ r_err r = true) /\
  map (fun r => (r_cid r, r_err r, Qred (r_ram r))) (tl_results SimCorExamples.klg0) = [(0%nat, true, 10%Q)] /\
  map (fun p => map (fun c => (c_id c, Qred (c_mem c), Qred (c_ram c))) (p_active p))
      (e_pools (sm_exec SimCorExamples.k1)) = [[(1%nat, 6%Q, 10%Q)]] /\
  forall p, In p (e_pools (sm_exec SimCorExamples.k1)) ->
    (p_consumed p <= p_max_ram p)%Q /\ (p_consumed p == sumQ (map c_mem (p_active p)))%Q.
Proof.
  split; [exact SimCorExamples.Ck_exact|]. split; [exact SimCorExamples.Ck_nonneg|].
  split; [exact SimCorExamples.k_reach0|]. split; [exact SimCorExamples.k_tick0|].
  split; [exact SimCorExamples.k_failure|].
  split; [exact (proj1 (proj2 SimCorExamples.k_facts))|].
  split; [exact (proj1 (proj2 (proj2 SimCorExamples.k_facts)))|].
  intros p Hp.
  destruct (C04_sim_invariants SimCorExamples.Ck AOverbook 1%nat 10%Z 10%Q SimCorExamples.Ck_exact
              SimCorExamples.Ck_nonneg ltac:(discriminate) 1%Z SimCorExamples.k1 SimCorExamples.k_reach1 p Hp)
    as (_ & A & B & _).
  split; assumption.
Qed.
