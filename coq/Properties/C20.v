(* C20 Trace tools change only arrival times, within their stated bounds.
   Statements only; every proof is [exact <lemma of Proofs/ToolsFacts.v>].

   Part 1: the documented snap rule  snap_exact tps a = floor(a * tps) / tps  in exact arithmetic, and the
           executable model with the identity rounding computes exactly that.
   Part 2: the float-faithful snap of tools.py ([snap_val rnd64], the loops of commit 5867ace). A "tick
           boundary" in float terms is [boundary rnd64 tps k] = the double k / tps. [snap_val] answers
           [None] only when the loop fuel (4 iterations each) is exhausted, which C20_snap_float_total
           excludes on the domain  0 <= original, original * tps <= 2^50.
   Part 3: jitter ([jitter_arrival] = one float addition, [jitter_pipes] = addition + list.sort by arrival),
           for every rounding; the draws are inputs (numpy's generator is not modelled).
   Part 4: the seed of sample i of sensitivity-sample. *)
From Coq Require Import List ZArith QArith Sorting.Sorted Sorting.Permutation.
Import ListNotations.
From Eudoxia Require Import Num.Rnd64 Model.Tools Proofs.ToolsFacts.

(* ---------------------------------------------------------------------------------------------- *)
(* Part 1 *)

Theorem C20_snap_le : forall tps, (0 < tps)%Z -> forall a, (snap_exact tps a <= a)%Q.
Proof. exact snap_le. Qed.
Print Assumptions C20_snap_le.

Theorem C20_snap_lt_tick : forall tps, (0 < tps)%Z -> forall a, (a - snap_exact tps a < 1 / inject_Z tps)%Q.
Proof. exact snap_lt_tick. Qed.
Print Assumptions C20_snap_lt_tick.

Theorem C20_snap_grid_fixed : forall tps, (0 < tps)%Z ->
  forall a k, (a == inject_Z k / inject_Z tps)%Q -> (snap_exact tps a == a)%Q.
Proof. exact snap_grid_fixed. Qed.
Print Assumptions C20_snap_grid_fixed.

Theorem C20_snap_idem : forall tps, (0 < tps)%Z -> forall a, (snap_exact tps (snap_exact tps a) == snap_exact tps a)%Q.
Proof. exact snap_idem. Qed.
Print Assumptions C20_snap_idem.

(* it is the NEAREST boundary below: no grid point lies between the result and the arrival *)
Theorem C20_snap_greatest : forall tps, (0 < tps)%Z ->
  forall a k, (inject_Z k / inject_Z tps <= a)%Q -> (inject_Z k / inject_Z tps <= snap_exact tps a)%Q.
Proof. exact snap_exact_greatest. Qed.
Print Assumptions C20_snap_greatest.

(* the executable model, run with exact arithmetic, is the documented rule (and never runs out of fuel) *)
Theorem C20_snap_model_exact : forall tps a, (0 < tps)%Z ->
  exists v, snap_val (fun x => x) tps a = Some v /\ (v == snap_exact tps a)%Q.
Proof. exact snap_id_exact. Qed.
Print Assumptions C20_snap_model_exact.

(* rows, their order and every cell other than a non-blank arrival are kept (any rounding) *)
Theorem C20_snap_frame : forall (rnd : Q -> Q) (R : Type) tps (rows out : list (option Q * R)),
  snap_file rnd tps rows = Some out ->
  length out = length rows /\ map snd out = map snd rows /\
  Forall2 (fun r r' => match fst r with
                       | None => fst r' = None
                       | Some o => exists v, fst r' = Some v /\ snap_val rnd tps o = Some v
                       end) rows out.
Proof. exact @snap_file_frame. Qed.
Print Assumptions C20_snap_frame.

(* ---------------------------------------------------------------------------------------------- *)
(* Part 2: binary64 *)

(* never up *)
Theorem C20_snap_float_le : forall tps o v, snap_val rnd64 tps o = Some v -> (v <= o)%Q.
Proof. exact snap64_le. Qed.
Print Assumptions C20_snap_float_le.

(* the result is a float boundary and the next float boundary is already above the original *)
Theorem C20_snap_float_next : forall tps o v, snap_val rnd64 tps o = Some v ->
  exists t, v = boundary rnd64 tps t /\ (boundary rnd64 tps t <= o)%Q /\ (o < boundary rnd64 tps (t + 1))%Q.
Proof. exact snap64_next. Qed.
Print Assumptions C20_snap_float_next.

(* by less than one tick, up to the rounding of the two boundaries *)
Theorem C20_snap_float_lt_tick : forall tps o v, (0 < tps)%Z -> (0 <= o)%Q ->
  snap_val rnd64 tps o = Some v ->
  (o - v < 1 / inject_Z tps + (2 * o + 1 / inject_Z tps) * (2 # 9007199254740992))%Q.
Proof. exact snap64_lt_tick. Qed.
Print Assumptions C20_snap_float_lt_tick.

(* a time that is on a (float) boundary is unchanged *)
Theorem C20_snap_float_grid_fixed : forall tps k v, (0 < tps)%Z ->
  snap_val rnd64 tps (boundary rnd64 tps k) = Some v -> (v == boundary rnd64 tps k)%Q.
Proof. exact snap64_grid_fixed. Qed.
Print Assumptions C20_snap_float_grid_fixed.

(* snapping twice equals snapping once *)
Theorem C20_snap_float_idem : forall tps o v v', (0 < tps)%Z ->
  snap_val rnd64 tps o = Some v -> snap_val rnd64 tps v = Some v' -> (v' == v)%Q.
Proof. exact snap64_idem. Qed.
Print Assumptions C20_snap_float_idem.

(* the two loops end within the fuel on the domain *)
Theorem C20_snap_float_total : forall tps o, (0 < tps)%Z -> (0 <= o)%Q ->
  (o * inject_Z tps <= inject_Z (2 ^ 50))%Q -> exists v, snap_val rnd64 tps o = Some v.
Proof. exact snap64_total. Qed.
Print Assumptions C20_snap_float_total.

(* ---------------------------------------------------------------------------------------------- *)
(* Part 3: jitter *)

Theorem C20_jitter_bound : forall a d delta, (0 <= d)%Q -> (d <= delta)%Q ->
  (0 <= jitter_arrival (fun x => x) a d - a)%Q /\ (jitter_arrival (fun x => x) a d - a <= delta)%Q.
Proof. exact jitter_bound_exact. Qed.
Print Assumptions C20_jitter_bound.

(* with the float addition: never earlier than the original double, never later than original (+) delta *)
Theorem C20_jitter_bound_float : forall a d delta, (rnd64 a == a)%Q -> (0 <= d)%Q -> (d <= delta)%Q ->
  (a <= jitter_arrival rnd64 a d)%Q /\ (jitter_arrival rnd64 a d <= rnd64 (a + delta))%Q.
Proof. exact jitter64_bound_float. Qed.
Print Assumptions C20_jitter_bound_float.

Theorem C20_jitter_sorted : forall (P : Type) (rnd : Q -> Q) (l : list (Q * Q * P)),
  StronglySorted (fun a b : Q * P => (fst a <= fst b)%Q) (jitter_pipes rnd l).
Proof. exact @jitter_sorted. Qed.
Print Assumptions C20_jitter_sorted.

(* pipelines with equal new arrivals keep their file order *)
Theorem C20_jitter_stable : forall (P : Type) (rnd : Q -> Q) (l l1 l2 l3 : list (Q * Q * P)) x y,
  (fst (jitter_one rnd x) == fst (jitter_one rnd y))%Q -> l = l1 ++ x :: l2 ++ y :: l3 ->
  exists m1 m2 m3, jitter_pipes rnd l = m1 ++ jitter_one rnd x :: m2 ++ jitter_one rnd y :: m3.
Proof. exact @jitter_stable. Qed.
Print Assumptions C20_jitter_stable.

(* the output pipelines are the input pipelines with the new arrivals, each exactly once *)
Theorem C20_jitter_perm : forall (P : Type) (rnd : Q -> Q) (l : list (Q * Q * P)),
  Permutation (jitter_pipes rnd l) (map (jitter_one rnd) l).
Proof. exact @jitter_perm. Qed.
Print Assumptions C20_jitter_perm.

(* the file: the rows written are the concatenation of the rows of the pipelines in the new order
   (contiguous, unchanged), the pipelines are a permutation of the input's, the row count is kept *)
Theorem C20_jitter_frame : forall (R : Type) (rnd : Q -> Q) (l : list (Q * Q * list R)),
  map snd (jitter_file rnd l) = concat (map snd (jitter_pipes rnd l)) /\
  Permutation (map snd (jitter_pipes rnd l)) (map snd l) /\
  length (jitter_file rnd l) = length (concat (map snd l)).
Proof. exact @jitter_file_rows. Qed.
Print Assumptions C20_jitter_frame.

(* ---------------------------------------------------------------------------------------------- *)
(* Part 4: sensitivity-sample *)

Theorem C20_sample_seed : forall params start i, seed_used params start i = Some (start + i)%Z.
Proof. exact sample_seed. Qed.
Print Assumptions C20_sample_seed.

Theorem C20_sample_seed_distinct : forall params start i j,
  i <> j -> seed_used params start i <> seed_used params start j.
Proof. exact sample_seed_distinct. Qed.
Print Assumptions C20_sample_seed_distinct.

Theorem C20_sample_seeds : forall params start n,
  sample_seeds params start n = map (fun i => Some (start + Z.of_nat i)%Z) (seq 0 n) /\
  NoDup (sample_seeds params start n).
Proof. exact sample_seeds_spec. Qed.
Print Assumptions C20_sample_seeds.

(* ---------------------------------------------------------------------------------------------- *)
(* Non-vacuity *)

(* the historical failing inputs (before 5867ace: 0.29 s at 100 ticks/s -> 0.28; snap(snap 0.295) <> snap 0.295) *)
Example snap_029 : snap_val rnd64 100 (rnd64 (29 # 100)) = Some (rnd64 (29 # 100)).
Proof. vm_compute. reflexivity. Qed.

Example snap_0295_idem :
  snap_val rnd64 100 (rnd64 (295 # 1000)) = Some (rnd64 (29 # 100)) /\
  snap_val rnd64 100 (rnd64 (29 # 100)) = Some (rnd64 (29 # 100)).
Proof. vm_compute. split; reflexivity. Qed.

(* the float product alone would miss: floor(0.29 * 100) = 28 in doubles; the first loop repairs it *)
Example snap_029_start : snap_start rnd64 100 (rnd64 (29 # 100)) = 28%Z /\ snap_tick rnd64 100 (rnd64 (29 # 100)) = Some 29%Z.
Proof. vm_compute. split; reflexivity. Qed.

(* off the grid: 0.123 s at 20 ticks/s -> 0.1 *)
Example snap_0123 : snap_val rnd64 20 (rnd64 (123 # 1000)) = Some (rnd64 (1 # 10)) /\ (snap_exact 20 (123 # 1000) == 1 # 10)%Q.
Proof. vm_compute. split; reflexivity. Qed.

(* jitter: three pipelines, the second overtakes nobody, the third (equal key to the first) stays behind it *)
Example jitter_ex :
  jitter_pipes rnd64 [((1 # 1)%Q, (1 # 2)%Q, 0%nat); ((1 # 2)%Q, (1 # 4)%Q, 1%nat); ((5 # 4)%Q, (1 # 4)%Q, 2%nat)]
  = [((3 # 4)%Q, 1%nat); ((3 # 2)%Q, 0%nat); ((3 # 2)%Q, 2%nat)].
Proof. vm_compute. reflexivity. Qed.

From Coq Require Import String.
Example seeds_ex : sample_seeds [("random_seed"%string, 42%Z)] 42 3 = [Some 42%Z; Some 43%Z; Some 44%Z].
Proof. vm_compute. reflexivity. Qed.
