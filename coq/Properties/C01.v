(* C01 Operators never start before their parents have completed; DAG iteration is topological.
   Statements only; every proof is [exact <lemma of Proofs/>]. *)
From Coq Require Import List Arith Bool Permutation ZArith QArith.
Import ListNotations.
From Eudoxia Require Import Model.Sched Model.Simulator Proofs.PriorityPoolRunFacts Proofs.SimReachFacts.
From Eudoxia Require Import Model.Types Model.Dag Model.Lifecycle
  Model.Container Model.Pool Model.Executor Proofs.DagProof Proofs.DagBounded Proofs.LifecycleFacts
  Proofs.ExecLifeFacts.
Close Scope Q_scope.
Close Scope Z_scope.

(* Iterating a pipeline's operators visits every operator exactly once ... (all DAGs, no bound) *)
Theorem C01_iter_perm : forall g, wf_dag g -> Permutation (iterate g) (nodes g).
Proof. exact dag_iter_perm. Qed.
Print Assumptions C01_iter_perm.

(* ... parents before children *)
Theorem C01_iter_topo : forall g, wf_dag g ->
  forall l1 x l2, iterate g = l1 ++ x :: l2 -> forall p, In p (parents g x) -> In p l1.
Proof. exact dag_iter_topo. Qed.
Print Assumptions C01_iter_topo.

(* bounded cross-check by computation: all 33868 DAGs on at most 6 nodes *)
Theorem C01_iter_ok_le6 : forallb iter_ok (all_dags_upto 6) = true.
Proof. exact dag_iter_ok_le6. Qed.
Print Assumptions C01_iter_ok_le6.

(* An operator is running or completed only if all its parents are completed: invariant of every
   history of accepted state changes, whoever issues them. *)
Theorem C01_dep_inv : forall S w w',
  irreflexive_parents S -> DepInv S w -> steps_in S w w' -> DepInv S w'.
Proof. exact dep_inv. Qed.
Print Assumptions C01_dep_inv.

Theorem C01_dep_inv_init : forall S, DepInv S (init_world S).
Proof. exact DepInv_init. Qed.
Print Assumptions C01_dep_inv_init.

(* a start with an unfinished parent is refused with the dependency error *)
Theorem C01_bad_start_rejected : forall S w op p,
  st_of w op = Assigned -> In p (op_parents S op) -> st_of w p <> Completed ->
  transition S w op Running = Err EDep.
Proof. exact bad_start_rejected_dep. Qed.
Print Assumptions C01_bad_start_rejected.

(* Executor level: in every state reachable by executor ticks under arbitrary scheduler commands
   (legal or not; an illegal one ends the run with Err), for pipelines built from well-formed DAGs,
   every running or completed operator has only completed parents. *)
Theorem C01_exec_dep_inv : forall C l n cpu ram s,
  cf_static C = mk_static l -> dags_wf l ->
  reach_exec_r C (init_estate C n cpu ram) s -> DepInv (cf_static C) (e_world s).
Proof. exact exec_dep_inv_mk_static. Qed.
Print Assumptions C01_exec_dep_inv.

(* a container about to start an operator whose parent is unfinished raises the dependency error *)
Theorem C01_container_bad_start_rejected : forall C w cons c op p,
  c_completed c = false -> c_frozen c = false ->
  nth_error (c_ops c) (c_opidx c) = Some op -> c_rest c = None ->
  st_of w op = Assigned -> In p (op_parents (cf_static C) op) -> st_of w p <> Completed ->
  ctick C w cons c = Err EDep.
Proof. exact ctick_bad_start_rejected_dep. Qed.
Print Assumptions C01_container_bad_start_rejected.

(* non-vacuity: in a diamond, the join cannot start while one branch is unfinished *)
Example C01_witness :
  let S := mk_static [(Batch, [[]; [0]; [0]; [1; 2]])] in
  exists w, transition_all S (init_world S) [0; 1; 2; 3] Assigned = Ok w
            /\ transition S w 3 Running = Err EDep /\ iterate [[]; [0]; [0]; [1; 2]] = [0; 1; 2; 3].
Proof. eexists. repeat split; vm_compute; reflexivity. Qed.

(* Simulator level: the same invariant in every state a full simulation passes through, under every shipped
   scheduler ([a] ranges over naive, starter, overbook, priority, priority-pool), any pools, any arrivals.
   [sim_reach C a 0 (init_sim ..) t s]: [s] is the simulator state after [t] ticks of some run
   (Proofs/SimReachFacts.v shows that its executor state is [reach_exec_r]-reachable: every scheduler's
   returned world is the one in which exactly its Assignment objects were created, and every assignment
   names known operators). *)
Theorem C01_sim_dep_inv : forall C a l np cpu ram t s,
  cf_static C = mk_static l -> dags_wf l ->
  sim_reach C a 0%Z (init_sim C np cpu ram) t s ->
  DepInv (cf_static C) (e_world (sm_exec s)).
Proof. exact sim_dep_inv. Qed.
Print Assumptions C01_sim_dep_inv.

(* ... in particular in the state [sim_run] ends in (normally, or at the tick that raised) *)
Theorem C01_sim_run_dep_inv : forall C a l np cpu ram arrivals sf logs oe,
  cf_static C = mk_static l -> dags_wf l ->
  sim_run C a 0%Z (init_sim C np cpu ram) arrivals = (sf, logs, oe) ->
  DepInv (cf_static C) (e_world (sm_exec sf)).
Proof. exact sim_run_dep_inv. Qed.
Print Assumptions C01_sim_run_dep_inv.

(* non-vacuity: a diamond and an OOM-ing operator under each of the five schedulers, state after three
   ticks (both branches of the diamond completed, the join assigned / pending / completed) *)
Example C01_sim_witness : forall a,
  DepInv (cf_static SimReachExamples.Cx) (e_world (sm_exec (SimReachExamples.mid a))) /\
  st_of (e_world (sm_exec (SimReachExamples.mid a))) 2 = Completed.
Proof. intros a. split; [apply SimReachExamples.mid_dep_inv | destruct a; vm_compute; reflexivity]. Qed.
