(* C18 overbook: one operator and one CPU per container, full-pool RAM, CPU-bound.
   Statements only; every proof is [exact <lemma of Proofs/OverbookFacts.v>]. Per scheduling round of the
   model of eudoxia/scheduler/overbook.py ([overbook_step]); [ob_rounds]: a sequence of rounds threading
   the scheduler state (executor states arbitrary). *)
From Coq Require Import List ZArith QArith.
Import ListNotations.
From Eudoxia Require Import Model.Types Model.Dag Model.Lifecycle Model.Container Model.Pool Model.Executor
  Model.Sched Proofs.NaiveFacts Proofs.OverbookFacts.
Close Scope Q_scope.
Close Scope Z_scope.

Theorem C18_no_suspend : forall C s e results newp s' w' susps asgs,
  overbook_step C s e results newp = Ok (s', w', susps, asgs) -> susps = [].
Proof. exact ob_no_suspend. Qed.
Print Assumptions C18_no_suspend.

(* every container: exactly one operator (assignable when the container is created), one CPU, a memory
   limit equal to the whole pool's RAM; its pipeline has fewer than three failed containers *)
Theorem C18_shape : forall C s e results newp s' w' susps asgs,
  overbook_step C s e results newp = Ok (s', w', susps, asgs) ->
  forall a, In a asgs ->
  exists o p wk,
    a_ops a = [o] /\ a_cpu a = 1%Z /\
    In p (e_pools e) /\ a_pool a = Z.of_nat (p_id p) /\ a_ram a = p_max_ram p /\
    a_prio a = prio_of_pipe C (op_pipe (S_of C) o) /\
    asteps (S_of C) (e_world e) wk /\ asteps (S_of C) wk w' /\
    assignable (st_of wk o) = true /\
    (assoc_get (op_pipe (S_of C) o) (ss_fail s') < max_failures)%Z /\
    (exists w1, mk_assignment C wk a = Ok w1 /\ asteps (S_of C) w1 w') /\
    (In o (ss_queue s) \/
     exists k, (In k newp \/ exists r, In r results /\ r_pipe C r = k) /\
               In o (get_ops (S_of C) (e_world e) k assignable true)).
Proof. exact ob_shape. Qed.
Print Assumptions C18_shape.

(* ... a ready one: queued operators have completed parents (an invariant of the queue), and so has every
   operator at the moment its container is created *)
Theorem C18_ready : forall C s e results newp s' w' susps asgs,
  overbook_step C s e results newp = Ok (s', w', susps, asgs) ->
  queue_ready C (e_world e) (ss_queue s) ->
  queue_ready C w' (ss_queue s') /\
  (forall a, In a asgs -> exists o wk,
     a_ops a = [o] /\ asteps (S_of C) (e_world e) wk /\ asteps (S_of C) wk w' /\
     assignable (st_of wk o) = true /\ parents_complete (S_of C) wk o = true).
Proof. exact ob_ready. Qed.
Print Assumptions C18_ready.

(* CPU-bound: a pool gets at most as many containers in a round as it has free CPUs (with C03: a pool never
   runs more containers than it has CPUs) *)
Theorem C18_cpu_bound : forall C s e results newp s' w' susps asgs,
  overbook_step C s e results newp = Ok (s', w', susps, asgs) ->
  NoDup (map p_id (e_pools e)) ->
  forall p, In p (e_pools e) ->
  (Z.of_nat (to_pool asgs p) <= Z.max 0 (p_avail_cpu p))%Z /\
  to_pool asgs p <= Z.to_nat (p_avail_cpu p) /\
  sumZ (map a_cpu (filter (fun a => (a_pool a =? Z.of_nat (p_id p))%Z) asgs)) = Z.of_nat (to_pool asgs p).
Proof. exact ob_cpu_bound. Qed.
Print Assumptions C18_cpu_bound.

(* after a round triggered by an arrival or a result: the queue is consumed from the front (assigned, or
   abandoned pipelines); if something is kept, no pool has a CPU left *)
Theorem C18_no_waiting_with_free_cpu : forall C s e results newp s' w' susps asgs,
  overbook_step C s e results newp = Ok (s', w', susps, asgs) ->
  (newp <> [] \/ results <> []) ->
  exists proc pre,
    ob_results C results (ob_proc0 newp) (ss_fail s) = Ok (proc, ss_fail s') /\
    ob_queue C (e_world e) (ss_queue s) proc = pre ++ ss_queue s' /\
    sublist (flat_map a_ops asgs) pre /\
    Forall (fun o => (max_failures <= assoc_get (op_pipe (S_of C) o) (ss_fail s'))%Z \/
                     In o (flat_map a_ops asgs)) pre /\
    (forall o rest, ss_queue s' = o :: rest ->
       (assoc_get (op_pipe (S_of C) o) (ss_fail s') < max_failures)%Z /\
       assignable (st_of w' o) = true /\
       (NoDup (map p_id (e_pools e)) ->
        forall p, In p (e_pools e) -> (p_avail_cpu p - Z.of_nat (to_pool asgs p) < 1)%Z)).
Proof. exact ob_no_waiting_with_free_cpu. Qed.
Print Assumptions C18_no_waiting_with_free_cpu.

(* failures are counted once per failed result; a pipeline with three failed containers is never assigned
   again, in this round or in any later one *)
Theorem C18_fail_counts : forall C s e results newp s' w' susps asgs,
  overbook_step C s e results newp = Ok (s', w', susps, asgs) ->
  forall k, assoc_get k (ss_fail s') = (assoc_get k (ss_fail s) + Z.of_nat (fail_count C k results))%Z.
Proof. exact ob_fail_counts. Qed.
Print Assumptions C18_fail_counts.

Theorem C18_abandon_after_three : forall C s e results newp s' w' susps asgs,
  overbook_step C s e results newp = Ok (s', w', susps, asgs) ->
  forall a o, In a asgs -> In o (a_ops a) ->
  (assoc_get (op_pipe (S_of C) o) (ss_fail s') < max_failures)%Z /\
  (assoc_get (op_pipe (S_of C) o) (ss_fail s) < max_failures)%Z.
Proof. exact ob_abandon_after_three. Qed.
Print Assumptions C18_abandon_after_three.

Theorem C18_abandoned_forever : forall C s l s' k,
  ob_rounds C s l s' -> (max_failures <= assoc_get k (ss_fail s))%Z ->
  forall asgs a o, In asgs l -> In a asgs -> In o (a_ops a) -> op_pipe (S_of C) o <> k.
Proof. exact ob_abandoned_forever. Qed.
Print Assumptions C18_abandoned_forever.

Example C18_max_failures_is_three : max_failures = 3%Z.
Proof. reflexivity. Qed.
