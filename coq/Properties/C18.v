(* C18 overbook: one operator and one CPU per container, full-pool RAM, CPU-bound.
   Statements only; every proof is [exact <lemma of Proofs/OverbookFacts.v>]. Per scheduling round of the
   model of eudoxia/scheduler/overbook.py ([overbook_step]); [ob_rounds]: a sequence of rounds threading
   the scheduler state (executor states arbitrary). At the end: the run-level invariant of the operator
   queue in the closed loop [sim_tick C AOverbook] (Proofs/OverbookRunFacts.v). *)
From Coq Require Import List ZArith QArith.
Import ListNotations.
From Eudoxia Require Import Model.Types Model.Dag Model.Lifecycle Model.Container Model.Pool Model.Executor
  Model.Sched Model.Simulator Proofs.ExecLifeFacts Proofs.NaiveFacts Proofs.OverbookFacts
  Proofs.PriorityPoolRunFacts Proofs.OverbookRunFacts Proofs.OverbookCpuFacts.
Close Scope Q_scope.
Close Scope Z_scope.

Theorem C18_no_suspend : forall C s e results newp s' w' susps asgs,
  overbook_step C s e results newp = Ok (s', w', susps, asgs) -> susps = [].
Proof. exact ob_no_suspend. Qed.
Print Assumptions C18_no_suspend.

(* every container: exactly one operator (assignable when the container is created), one CPU, a memory
   limit equal to the whole pool's RAM; its pipeline has fewer than three failed containers *)
Theorem C18_shape : forall C s e results newp s' w' susps asgs,
  overbook_step C s e results newp = Ok (s', w', susps, asgs) ->
  forall a, In a asgs ->
  exists o p wk,
    a_ops a = [o] /\ a_cpu a = 1%Z /\
    In p (e_pools e) /\ a_pool a = Z.of_nat (p_id p) /\ a_ram a = p_max_ram p /\
    a_prio a = prio_of_pipe C (op_pipe (S_of C) o) /\
    asteps (S_of C) (e_world e) wk /\ asteps (S_of C) wk w' /\
    assignable (st_of wk o) = true /\
    (assoc_get (op_pipe (S_of C) o) (ss_fail s') < max_failures)%Z /\
    (exists w1, mk_assignment C wk a = Ok w1 /\ asteps (S_of C) w1 w') /\
    (In o (ss_queue s) \/
     exists k, (In k newp \/ exists r, In r results /\ r_pipe C r = k) /\
               In o (get_ops (S_of C) (e_world e) k assignable true)).
Proof. exact ob_shape. Qed.
Print Assumptions C18_shape.

(* ... a ready one: queued operators have completed parents (an invariant of the queue), and so has every
   operator at the moment its container is created *)
Theorem C18_ready : forall C s e results newp s' w' susps asgs,
  overbook_step C s e results newp = Ok (s', w', susps, asgs) ->
  queue_ready C (e_world e) (ss_queue s) ->
  queue_ready C w' (ss_queue s') /\
  (forall a, In a asgs -> exists o wk,
     a_ops a = [o] /\ asteps (S_of C) (e_world e) wk /\ asteps (S_of C) wk w' /\
     assignable (st_of wk o) = true /\ parents_complete (S_of C) wk o = true).
Proof. exact ob_ready. Qed.
Print Assumptions C18_ready.

(* CPU-bound: a pool gets at most as many containers in a round as it has free CPUs (with C03: a pool never
   runs more containers than it has CPUs) *)
Theorem C18_cpu_bound : forall C s e results newp s' w' susps asgs,
  overbook_step C s e results newp = Ok (s', w', susps, asgs) ->
  NoDup (map p_id (e_pools e)) ->
  forall p, In p (e_pools e) ->
  (Z.of_nat (to_pool asgs p) <= Z.max 0 (p_avail_cpu p))%Z /\
  to_pool asgs p <= Z.to_nat (p_avail_cpu p) /\
  sumZ (map a_cpu (filter (fun a => (a_pool a =? Z.of_nat (p_id p))%Z) asgs)) = Z.of_nat (to_pool asgs p).
Proof. exact ob_cpu_bound. Qed.
Print Assumptions C18_cpu_bound.

(* after a round triggered by an arrival or a result: the queue is consumed from the front (assigned, or
   abandoned pipelines); if something is kept, no pool has a CPU left *)
Theorem C18_no_waiting_with_free_cpu : forall C s e results newp s' w' susps asgs,
  overbook_step C s e results newp = Ok (s', w', susps, asgs) ->
  (newp <> [] \/ results <> []) ->
  exists proc pre,
    ob_results C results (ob_proc0 newp) (ss_fail s) = Ok (proc, ss_fail s') /\
    ob_queue C (e_world e) (ss_queue s) proc = pre ++ ss_queue s' /\
    sublist (flat_map a_ops asgs) pre /\
    Forall (fun o => (max_failures <= assoc_get (op_pipe (S_of C) o) (ss_fail s'))%Z \/
                     In o (flat_map a_ops asgs)) pre /\
    (forall o rest, ss_queue s' = o :: rest ->
       (assoc_get (op_pipe (S_of C) o) (ss_fail s') < max_failures)%Z /\
       assignable (st_of w' o) = true /\
       (NoDup (map p_id (e_pools e)) ->
        forall p, In p (e_pools e) -> (p_avail_cpu p - Z.of_nat (to_pool asgs p) < 1)%Z)).
Proof. exact ob_no_waiting_with_free_cpu. Qed.
Print Assumptions C18_no_waiting_with_free_cpu.

(* failures are counted once per failed result; a pipeline with three failed containers is never assigned
   again, in this round or in any later one *)
Theorem C18_fail_counts : forall C s e results newp s' w' susps asgs,
  overbook_step C s e results newp = Ok (s', w', susps, asgs) ->
  forall k, assoc_get k (ss_fail s') = (assoc_get k (ss_fail s) + Z.of_nat (fail_count C k results))%Z.
Proof. exact ob_fail_counts. Qed.
Print Assumptions C18_fail_counts.

Theorem C18_abandon_after_three : forall C s e results newp s' w' susps asgs,
  overbook_step C s e results newp = Ok (s', w', susps, asgs) ->
  forall a o, In a asgs -> In o (a_ops a) ->
  (assoc_get (op_pipe (S_of C) o) (ss_fail s') < max_failures)%Z /\
  (assoc_get (op_pipe (S_of C) o) (ss_fail s) < max_failures)%Z.
Proof. exact ob_abandon_after_three. Qed.
Print Assumptions C18_abandon_after_three.

Theorem C18_abandoned_forever : forall C s l s' k,
  ob_rounds C s l s' -> (max_failures <= assoc_get k (ss_fail s))%Z ->
  forall asgs a o, In asgs l -> In a asgs -> In o (a_ops a) -> op_pipe (S_of C) o <> k.
Proof. exact ob_abandoned_forever. Qed.
Print Assumptions C18_abandoned_forever.

Example C18_max_failures_is_three : max_failures = 3%Z.
Proof. reflexivity. Qed.

(* ---------------------------------------------------------------------------------------------- *)
(* Run level: the closed loop scheduler + executor, [sim_tick C AOverbook], started in [init_sim].
   [sim_reach C AOverbook 0 (init_sim ..) t s]: [s] is a state the run passes through (Proofs/
   PriorityPoolRunFacts.v); proofs in Proofs/OverbookRunFacts.v. *)

(* (a) no operator is queued twice; (b) every queued operator is ready in the current world: PENDING or
   FAILED (so held by no container) with all parents COMPLETED. For every static description. *)
Theorem C18_run_queue_sound : forall C np cpu ram t s,
  sim_reach C AOverbook 0%Z (init_sim C np cpu ram) t s ->
  NoDup (ss_queue (sm_sched s)) /\
  (forall o, In o (ss_queue (sm_sched s)) ->
     assignable (st_of (e_world (sm_exec s)) o) = true /\
     parents_complete (cf_static C) (e_world (sm_exec s)) o = true).
Proof. exact ob_queue_sound_reach. Qed.
Print Assumptions C18_run_queue_sound.

(* nothing is ever suspending; every container and every reported result holds exactly one operator *)
Theorem C18_run_one_operator_containers : forall C np cpu ram t s,
  sim_reach C AOverbook 0%Z (init_sim C np cpu ram) t s ->
  (forall p, In p (e_pools (sm_exec s)) ->
     p_suspending p = [] /\ forall c, In c (p_active p) -> exists o, c_ops c = [o]) /\
  (forall r, In r (sm_results s) -> exists o, r_ops r = [o]).
Proof. exact ob_exec_shape_reach. Qed.
Print Assumptions C18_run_one_operator_containers.

(* (c) completeness, for static descriptions built from well-formed DAGs: if pipeline [k] has arrived,
   is not abandoned and has no result waiting to be processed by the next round, every ready operator
   of [k] is in the queue *)
Theorem C18_run_queue_complete : forall C l np cpu ram t s,
  cf_static C = mk_static l -> dags_wf l ->
  sim_reach C AOverbook 0%Z (init_sim C np cpu ram) t s ->
  forall k o,
    In k (map fst (sm_arrival s)) ->
    (assoc_get k (ss_fail (sm_sched s)) < max_failures)%Z ->
    ~ (exists r, In r (sm_results s) /\ r_pipe C r = k) ->
    In o (pd_order (pipe_of (cf_static C) k)) ->
    assignable (st_of (e_world (sm_exec s)) o) = true ->
    parents_complete (cf_static C) (e_world (sm_exec s)) o = true ->
    In o (ss_queue (sm_sched s)).
Proof. exact ob_queue_complete_reach. Qed.
Print Assumptions C18_run_queue_complete.

(* (b) + (c): for such a pipeline, what [get_ops(ASSIGNABLE_STATES, require_parents_complete=True)]
   would return is exactly the part of the queue that belongs to the pipeline *)
Theorem C18_run_queue_exact : forall C l np cpu ram t s,
  cf_static C = mk_static l -> dags_wf l ->
  sim_reach C AOverbook 0%Z (init_sim C np cpu ram) t s ->
  forall k,
    In k (map fst (sm_arrival s)) ->
    (assoc_get k (ss_fail (sm_sched s)) < max_failures)%Z ->
    ~ (exists r, In r (sm_results s) /\ r_pipe C r = k) ->
    forall o, In o (get_ops (cf_static C) (e_world (sm_exec s)) k assignable true) <->
              In o (pd_order (pipe_of (cf_static C) k)) /\ In o (ss_queue (sm_sched s)).
Proof. exact ob_queue_exact_reach. Qed.
Print Assumptions C18_run_queue_exact.

(* the same for the state [sf] in which a run ends, normally ([oe = None]) or at the tick that raised *)
Theorem C18_run_queue_sound_final : forall C np cpu ram arrivals sf logs oe,
  sim_run C AOverbook 0%Z (init_sim C np cpu ram) arrivals = (sf, logs, oe) ->
  NoDup (ss_queue (sm_sched sf)) /\
  (forall o, In o (ss_queue (sm_sched sf)) ->
     assignable (st_of (e_world (sm_exec sf)) o) = true /\
     parents_complete (cf_static C) (e_world (sm_exec sf)) o = true).
Proof. exact ob_queue_sound_run. Qed.
Print Assumptions C18_run_queue_sound_final.

Theorem C18_run_queue_complete_final : forall C l np cpu ram arrivals sf logs oe,
  cf_static C = mk_static l -> dags_wf l ->
  sim_run C AOverbook 0%Z (init_sim C np cpu ram) arrivals = (sf, logs, oe) ->
  forall k o,
    In k (map fst (sm_arrival sf)) ->
    (assoc_get k (ss_fail (sm_sched sf)) < max_failures)%Z ->
    ~ (exists r, In r (sm_results sf) /\ r_pipe C r = k) ->
    In o (pd_order (pipe_of (cf_static C) k)) ->
    assignable (st_of (e_world (sm_exec sf)) o) = true ->
    parents_complete (cf_static C) (e_world (sm_exec sf)) o = true ->
    In o (ss_queue (sm_sched sf)).
Proof. exact ob_queue_complete_run. Qed.
Print Assumptions C18_run_queue_complete_final.

(* non-vacuity. One pool, 2 CPUs, 8 GB; pipeline 0 = operators 0, 1 and 2 (child of both), pipeline 1 =
   operators 3, 4; every operator runs two ticks at 5 GB ([OverbookRunExample.Cx], overcommit on).
   Tick 0: 0 and 1 run together, 10 GB > 8 GB, the container of 0 is killed. Tick 1: pipeline 1 arrives,
   the failure is counted, 3, 4 and again 0 are queued; 3 is assigned, [4; 0] wait. *)
Example C18_run_requeued :
  let '(s2, logs, oe) := OverbookRunExample.run_x [[0]; [1]] in
  oe = None /\ map (fun lg => map a_ops (tl_asgs lg)) logs = [[[0]; [1]]; [[3]]] /\
  ss_queue (sm_sched s2) = [4; 0] /\ ss_fail (sm_sched s2) = [(0, 1%Z)] /\
  map (st_of (e_world (sm_exec s2))) [0; 1; 2; 3; 4] = [Failed; Completed; Pending; Running; Pending] /\
  map fst (sm_arrival s2) = [0; 1] /\
  map (fun r => (r_ops r, r_pipe OverbookRunExample.Cx r)) (sm_results s2) = [([1], 0)].
Proof. exact OverbookRunExample.ex_ob_requeued. Qed.

(* the whole run: 0 is retried in tick 4, 2 starts once both parents are completed; one failed
   container, no error, everything completed, the queue is empty *)
Example C18_run_retry :
  let '(sf, logs, oe) := OverbookRunExample.run_x [[0]; [1]; []; []; []; []; []; []] in
  oe = None /\ sm_nfail sf = 1%Z /\ ss_queue (sm_sched sf) = [] /\
  map (fun lg => map a_ops (tl_asgs lg)) logs = [[[0]; [1]]; [[3]]; [[4]]; [[0]]; []; [[2]]; []; []] /\
  map (st_of (e_world (sm_exec sf))) [0; 1; 2; 3; 4] =
    [Completed; Completed; Completed; Completed; Completed].
Proof. exact OverbookRunExample.ex_ob_retry_run. Qed.

(* the hypotheses of the completeness theorem are satisfiable: it yields that operator 4 is queued in
   the state after tick 1, [OverbookRunExample.s2x = fst (fst (run_x [[0]; [1]]))] *)
Example C18_run_complete_applies :
  In 4 (ss_queue (sm_sched OverbookRunExample.s2x)).
Proof. exact OverbookRunExample.ex_ob_complete_applies. Qed.

(* ---------------------------------------------------------------------------------------------- *)
(* Run level, CPU side (closes audit point P9; proofs in Proofs/OverbookCpuFacts.v): in every state a run
   of overbook passes through, a pool never runs more containers than it has CPUs. [cpu] is the CPU count
   every pool of [init_sim C np cpu ram] is built with. *)
Theorem C18_run_containers_le_cpus : forall C np cpu ram t s,
  (0 <= cpu)%Z ->
  sim_reach C AOverbook 0%Z (init_sim C np cpu ram) t s ->
  forall p, In p (e_pools (sm_exec s)) -> length (p_active p) <= Z.to_nat cpu.
Proof. exact ob_containers_le_cpus. Qed.
Print Assumptions C18_run_containers_le_cpus.

(* the hypothesis [0 <= cpu] is not needed for the bound: a pool built with a negative CPU count never
   runs a container ([Z.to_nat cpu = 0]) *)
Theorem C18_run_containers_le_cpus_any : forall C np cpu ram t s,
  sim_reach C AOverbook 0%Z (init_sim C np cpu ram) t s ->
  forall p, In p (e_pools (sm_exec s)) -> length (p_active p) <= Z.to_nat cpu.
Proof. exact ob_containers_le_cpus_any. Qed.
Print Assumptions C18_run_containers_le_cpus_any.

(* the sharp form: nothing is suspending and nothing was ever suspended, every container holds exactly one
   CPU, so the number of containers of a pool is its number of allocated CPUs = capacity - free, and the
   free count is never negative *)
Theorem C18_run_containers_eq_allocated : forall C np cpu ram t s,
  (0 <= cpu)%Z ->
  sim_reach C AOverbook 0%Z (init_sim C np cpu ram) t s ->
  forall p, In p (e_pools (sm_exec s)) ->
    p_suspending p = [] /\ p_suspended p = [] /\
    (forall c, In c (p_active p) -> c_cpu c = 1%Z) /\
    p_max_cpu p = cpu /\
    Z.of_nat (length (p_active p)) = (cpu - p_avail_cpu p)%Z /\
    (0 <= p_avail_cpu p <= cpu)%Z.
Proof. exact ob_containers_eq_allocated. Qed.
Print Assumptions C18_run_containers_eq_allocated.

(* the same for the state [sf] in which a run ends, normally ([oe = None]) or at the tick that raised *)
Theorem C18_run_containers_le_cpus_final : forall C np cpu ram arrivals sf logs oe,
  (0 <= cpu)%Z ->
  sim_run C AOverbook 0%Z (init_sim C np cpu ram) arrivals = (sf, logs, oe) ->
  forall p, In p (e_pools (sm_exec sf)) -> length (p_active p) <= Z.to_nat cpu.
Proof. exact ob_containers_le_cpus_run. Qed.
Print Assumptions C18_run_containers_le_cpus_final.

Theorem C18_run_containers_eq_allocated_final : forall C np cpu ram arrivals sf logs oe,
  (0 <= cpu)%Z ->
  sim_run C AOverbook 0%Z (init_sim C np cpu ram) arrivals = (sf, logs, oe) ->
  forall p, In p (e_pools (sm_exec sf)) ->
    p_suspending p = [] /\ p_suspended p = [] /\
    (forall c, In c (p_active p) -> c_cpu c = 1%Z) /\
    p_max_cpu p = cpu /\
    Z.of_nat (length (p_active p)) = (cpu - p_avail_cpu p)%Z /\
    (0 <= p_avail_cpu p <= cpu)%Z.
Proof. exact ob_containers_eq_allocated_run. Qed.
Print Assumptions C18_run_containers_eq_allocated_final.

(* non-vacuity: the bound is attained. One pool, 2 CPUs, 8 GB; the pipelines of [OverbookRunExample.Lx],
   every operator runs three ticks at 1 GB ([OverbookCpuExample.Cy]); both pipelines arrive in tick 0.
   [s1y], [s2y], [s4y] = the states after ticks 0, 1 and 3 of [run_y l = sim_run Cy AOverbook 0 s0y l];
   [cpu_view] lists (containers running, CPUs, free CPUs) per pool. After ticks 0 and 1: two containers on
   two CPUs, none free, the ready operators 3 and 4 wait. Operators 0 and 1 complete in tick 2; the round
   of tick 3 hands their CPUs to 3 and 4, the pool is full again and operator 2 waits. *)
Example C18_run_cpu_bound_attained :
  OverbookCpuExample.cpu_view OverbookCpuExample.s1y = [(2, 2%Z, 0%Z)] /\
  ss_queue (sm_sched OverbookCpuExample.s1y) = [3; 4] /\
  map (st_of (e_world (sm_exec OverbookCpuExample.s1y))) [0; 1; 2; 3; 4]
    = [Running; Running; Pending; Pending; Pending] /\
  OverbookCpuExample.cpu_view OverbookCpuExample.s2y = [(2, 2%Z, 0%Z)] /\
  ss_queue (sm_sched OverbookCpuExample.s2y) = [3; 4] /\
  OverbookCpuExample.cpu_view OverbookCpuExample.s4y = [(2, 2%Z, 0%Z)] /\
  ss_queue (sm_sched OverbookCpuExample.s4y) = [2] /\
  map (st_of (e_world (sm_exec OverbookCpuExample.s4y))) [0; 1; 2; 3; 4]
    = [Completed; Completed; Pending; Running; Running].
Proof. exact OverbookCpuExample.ex_bound_attained. Qed.

(* these states are states of the run, and the run raises nothing *)
Example C18_run_cpu_states_reachable :
  (exists t, sim_reach OverbookCpuExample.Cy AOverbook 0%Z OverbookCpuExample.s0y t OverbookCpuExample.s1y) /\
  (exists t, sim_reach OverbookCpuExample.Cy AOverbook 0%Z OverbookCpuExample.s0y t OverbookCpuExample.s2y) /\
  (exists t, sim_reach OverbookCpuExample.Cy AOverbook 0%Z OverbookCpuExample.s0y t OverbookCpuExample.s4y) /\
  snd (OverbookCpuExample.run_y [[0; 1]; []; []; []]) = None.
Proof. exact OverbookCpuExample.ex_reach. Qed.

(* the theorem applied to that run; its bound is met with equality by the pool [p1y] of [s1y] *)
Example C18_run_cpu_bound_applies :
  (forall p, In p (e_pools (sm_exec OverbookCpuExample.s1y)) -> length (p_active p) <= Z.to_nat 2) /\
  In OverbookCpuExample.p1y (e_pools (sm_exec OverbookCpuExample.s1y)) /\
  length (p_active OverbookCpuExample.p1y) = Z.to_nat 2.
Proof. exact OverbookCpuExample.ex_theorem_applies. Qed.
