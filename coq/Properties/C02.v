(* C02 Operator lifecycle follows the documented state machine; completion is final.
   Statements only; every proof is [exact <lemma of Proofs/>]. *)
From Coq Require Import List Arith ZArith Bool.
Import ListNotations.
From Eudoxia Require Import Model.Sched Model.Simulator Proofs.PriorityPoolRunFacts Proofs.SimReachFacts
  Proofs.AuditExamplesA.
From Eudoxia Require Import Model.Types Model.Dag Model.Lifecycle Model.Container Model.Pool Model.Executor
  Proofs.LifecycleFacts Proofs.ExecLifeFacts.
Close Scope Q_scope.
Close Scope Z_scope.

(* The table the code consults is exactly the documented machine (the eight edges of the property
   text). Bridge obligation [valid_transitions] ties [valid_table] to the source on every run. *)
Theorem C02_valid_iff_documented : forall a b,
  valid a b = true <->
  In (a, b) [ (Pending, Assigned); (Assigned, Running); (Running, Completed);
              (Assigned, Failed); (Running, Failed); (Failed, Assigned);
              (Assigned, Suspending); (Suspending, Pending) ].
Proof. exact valid_iff_documented. Qed.
Print Assumptions C02_valid_iff_documented.

(* Any other requested change is refused (with the table error, or the dependency error for a start
   with an unfinished parent). A refusal yields no new world: histories continue from the old one. *)
Theorem C02_refused_iff : forall S w op new e,
  transition S w op new = Err e ->
  (e = ETransition /\ valid (st_of w op) new = false) \/
  (e = EDep /\ new = Running /\ valid (st_of w op) new = true /\ parents_complete S w op = false).
Proof. exact transition_err. Qed.
Print Assumptions C02_refused_iff.

Theorem C02_accepted_iff : forall S w op new w',
  transition S w op new = Ok w' <->
  valid (st_of w op) new = true /\ (new = Running -> parents_complete S w op = true)
  /\ w' = world_after S w op new.
Proof. exact transition_ok. Qed.
Print Assumptions C02_accepted_iff.

(* frame: an accepted request changes exactly the requested operator *)
Theorem C02_frame_other : forall S w op new w' o,
  transition S w op new = Ok w' -> o <> op -> st_of w' o = st_of w o.
Proof. exact transition_st_other. Qed.
Print Assumptions C02_frame_other.

(* completion is final, over every history of accepted requests *)
Theorem C02_completed_final : forall S w w' o,
  steps S w w' -> st_of w o = Completed -> st_of w' o = Completed.
Proof. exact completed_final. Qed.
Print Assumptions C02_completed_final.

(* Executor level, every run under arbitrary commands: a completed operator never changes state again *)
Theorem C02_exec_completed_final : forall C n cpu ram s s' o,
  reach_exec_r C (init_estate C n cpu ram) s -> reach_exec_r C s s' ->
  st_of (e_world s) o = Completed -> st_of (e_world s') o = Completed.
Proof. exact exec_completed_final_run. Qed.
Print Assumptions C02_exec_completed_final.

(* ... and is never handed to a container again: a batch containing an operator that is Assigned,
   Running, Suspending or Completed is rejected *)
Theorem C02_no_reassign : forall C s ss asgs a o,
  In a asgs -> In o (a_ops a) -> held (st_of (e_world s) o) ->
  exists e, exec_step C s ss asgs = Err e.
Proof. exact exec_step_rejects_reassign. Qed.
Print Assumptions C02_no_reassign.

Theorem C02_no_reassign_exact : forall C w a l1 o l2 w1,
  args_ok a -> a_ops a = l1 ++ o :: l2 ->
  transition_all (cf_static C) w l1 Assigned = Ok w1 ->
  held (st_of w o) -> mk_assignment C w a = Err ETransition.
Proof. exact no_reassign_held_exact. Qed.
Print Assumptions C02_no_reassign_exact.

(* at any moment an operator belongs to at most one live container: the unfinished suffixes of all
   live containers (running and suspending, all pools) are duplicate-free and pairwise disjoint, and
   every operator in them is Assigned, Running or Suspending *)
Theorem C02_unique_owner : forall C n cpu ram s,
  reach_exec_r C (init_estate C n cpu ram) s -> NoDup (sown s).
Proof. exact unique_owner. Qed.
Print Assumptions C02_unique_owner.

Theorem C02_unique_owner_pairwise : forall C n cpu ram s l1 c1 l2 c2 l3 o,
  reach_exec_r C (init_estate C n cpu ram) s ->
  live_containers s = l1 ++ c1 :: l2 ++ c2 :: l3 ->
  In o (own c1) -> In o (own c2) -> False.
Proof. exact unique_owner_pairwise. Qed.
Print Assumptions C02_unique_owner_pairwise.

Theorem C02_owned_busy : forall C n cpu ram s o,
  reach_exec_r C (init_estate C n cpu ram) s -> In o (sown s) -> busy (st_of (e_world s) o).
Proof. exact owned_busy. Qed.
Print Assumptions C02_owned_busy.

(* non-vacuity: a concrete two-operator pipeline runs A then B to completion through [steps] *)
Example C02_witness :
  let S := mk_static [(Batch, [[]; [0]])] in
  exists w', transition_all S (init_world S) [0; 1] Assigned = Ok w' /\ st_of w' 1 = Assigned.
Proof. eexists. split; vm_compute; reflexivity. Qed.

(* "Per-state counts": in every reachable executor state (arbitrary in-range commands, pipelines built from
   well-formed DAGs) [state_counts] is the histogram of the operator states: cell [a] of pipeline [k]
   counts the operators of [k] in state [a]; the tables have the right shape *)
Theorem C02_counts_are_histogram_every_reachable : forall C l n cpu ram s,
  cf_static C = mk_static l -> dags_wf l ->
  reach_exec_r C (init_estate C n cpu ram) s ->
  length (w_st (e_world s)) = length (s_ops (cf_static C)) /\
  length (w_cnt (e_world s)) = length (s_pipes (cf_static C)) /\
  (forall k, k < length (s_pipes (cf_static C)) -> length (nth k (w_cnt (e_world s)) []) = 6) /\
  (forall k a, cnt_of (e_world s) k a =
     Z.of_nat (length (filter (fun o => ostate_eqb (st_of (e_world s) o) a)
                              (pd_order (pipe_of (cf_static C) k))))).
Proof. exact AuditA.hist_ok_every_reachable. Qed.
Print Assumptions C02_counts_are_histogram_every_reachable.

(* Simulator level, every shipped scheduler [a], between any two states of one run: a completed operator
   never changes state again. No hypothesis on the static data is needed: every request of a run (the
   scheduler's ASSIGNED requests and the executor's) goes through the checked [transition]. *)
Theorem C02_sim_finality : forall C a t s t' s' o,
  sim_reach C a t s t' s' ->
  st_of (e_world (sm_exec s)) o = Completed -> st_of (e_world (sm_exec s')) o = Completed.
Proof. exact sim_completed_final. Qed.
Print Assumptions C02_sim_finality.

(* ... and in every state of every run an operator belongs to at most one live container, and an owned
   operator is Assigned, Running or Suspending (C02_unique_owner, C02_owned_busy through the link
   "states of a run are [reach_exec_r]-reachable") *)
Theorem C02_sim_unique_owner : forall C a l np cpu ram t s,
  cf_static C = mk_static l -> dags_wf l ->
  sim_reach C a 0%Z (init_sim C np cpu ram) t s ->
  NoDup (sown (sm_exec s)) /\
  forall o, In o (sown (sm_exec s)) -> busy (st_of (e_world (sm_exec s)) o).
Proof. exact sim_unique_owner. Qed.
Print Assumptions C02_sim_unique_owner.

(* ... and the per-state counts are the histogram *)
Theorem C02_sim_counts_are_histogram : forall C a l np cpu ram t s,
  cf_static C = mk_static l -> dags_wf l ->
  sim_reach C a 0%Z (init_sim C np cpu ram) t s ->
  forall k x, cnt_of (e_world (sm_exec s)) k x =
     Z.of_nat (length (filter (fun o => ostate_eqb (st_of (e_world (sm_exec s)) o) x)
                              (pd_order (pipe_of (cf_static C) k)))).
Proof. exact AuditA.counts_ok_sim_all. Qed.
Print Assumptions C02_sim_counts_are_histogram.

(* non-vacuity: the diamond of SimReachExamples under each scheduler; operators 0, 1, 2 are completed after
   three ticks and stay so to the end of the run *)
Example C02_sim_witness : forall a o,
  st_of (e_world (sm_exec (SimReachExamples.mid a))) o = Completed ->
  st_of (e_world (sm_exec (SimReachExamples.final a))) o = Completed.
Proof. exact SimReachExamples.mid_final_finality. Qed.
Example C02_sim_witness_nontrivial : forall a,
  st_of (e_world (sm_exec (SimReachExamples.mid a))) 1 = Completed /\
  (exists t', sim_reach SimReachExamples.Cx a 3%Z (SimReachExamples.mid a) t' (SimReachExamples.final a)).
Proof. intros a. split; [destruct a; vm_compute; reflexivity | apply SimReachExamples.mid_final_reach]. Qed.
