(* C02 Operator lifecycle follows the documented state machine; completion is final.
   Statements only; every proof is [exact <lemma of Proofs/>]. *)
From Coq Require Import List Arith ZArith Bool.
Import ListNotations.
From Eudoxia Require Import Model.Types Model.Dag Model.Lifecycle Proofs.LifecycleFacts.

(* The table the code consults is exactly the documented machine (the eight edges of the property
   text). Bridge obligation [valid_transitions] ties [valid_table] to the source on every run. *)
Theorem C02_valid_iff_documented : forall a b,
  valid a b = true <->
  In (a, b) [ (Pending, Assigned); (Assigned, Running); (Running, Completed);
              (Assigned, Failed); (Running, Failed); (Failed, Assigned);
              (Assigned, Suspending); (Suspending, Pending) ].
Proof. exact valid_iff_documented. Qed.
Print Assumptions C02_valid_iff_documented.

(* Any other requested change is refused (with the table error, or the dependency error for a start
   with an unfinished parent). A refusal yields no new world: histories continue from the old one. *)
Theorem C02_refused_iff : forall S w op new e,
  transition S w op new = Err e ->
  (e = ETransition /\ valid (st_of w op) new = false) \/
  (e = EDep /\ new = Running /\ valid (st_of w op) new = true /\ parents_complete S w op = false).
Proof. exact transition_err. Qed.
Print Assumptions C02_refused_iff.

Theorem C02_accepted_iff : forall S w op new w',
  transition S w op new = Ok w' <->
  valid (st_of w op) new = true /\ (new = Running -> parents_complete S w op = true)
  /\ w' = world_after S w op new.
Proof. exact transition_ok. Qed.
Print Assumptions C02_accepted_iff.

(* frame: an accepted request changes exactly the requested operator *)
Theorem C02_frame_other : forall S w op new w' o,
  transition S w op new = Ok w' -> o <> op -> st_of w' o = st_of w o.
Proof. exact transition_st_other. Qed.
Print Assumptions C02_frame_other.

(* completion is final, over every history of accepted requests *)
Theorem C02_completed_final : forall S w w' o,
  steps S w w' -> st_of w o = Completed -> st_of w' o = Completed.
Proof. exact completed_final. Qed.
Print Assumptions C02_completed_final.

(* non-vacuity: a concrete two-operator pipeline runs A then B to completion through [steps] *)
Example C02_witness :
  let S := mk_static [(Batch, [[]; [0]])] in
  exists w', transition_all S (init_world S) [0; 1] Assigned = Ok w' /\ st_of w' 1 = Assigned.
Proof. eexists. split; vm_compute; reflexivity. Qed.
