(* C02 Operator lifecycle follows the documented state machine; completion is final.
   Statements only; every proof is [exact <lemma of Proofs/>]. *)
From Coq Require Import List Arith ZArith Bool.
Import ListNotations.
From Eudoxia Require Import Model.Types Model.Dag Model.Lifecycle Model.Container Model.Pool Model.Executor
  Proofs.LifecycleFacts Proofs.ExecLifeFacts.

(* The table the code consults is exactly the documented machine (the eight edges of the property
   text). Bridge obligation [valid_transitions] ties [valid_table] to the source on every run. *)
Theorem C02_valid_iff_documented : forall a b,
  valid a b = true <->
  In (a, b) [ (Pending, Assigned); (Assigned, Running); (Running, Completed);
              (Assigned, Failed); (Running, Failed); (Failed, Assigned);
              (Assigned, Suspending); (Suspending, Pending) ].
Proof. exact valid_iff_documented. Qed.
Print Assumptions C02_valid_iff_documented.

(* Any other requested change is refused (with the table error, or the dependency error for a start
   with an unfinished parent). A refusal yields no new world: histories continue from the old one. *)
Theorem C02_refused_iff : forall S w op new e,
  transition S w op new = Err e ->
  (e = ETransition /\ valid (st_of w op) new = false) \/
  (e = EDep /\ new = Running /\ valid (st_of w op) new = true /\ parents_complete S w op = false).
Proof. exact transition_err. Qed.
Print Assumptions C02_refused_iff.

Theorem C02_accepted_iff : forall S w op new w',
  transition S w op new = Ok w' <->
  valid (st_of w op) new = true /\ (new = Running -> parents_complete S w op = true)
  /\ w' = world_after S w op new.
Proof. exact transition_ok. Qed.
Print Assumptions C02_accepted_iff.

(* frame: an accepted request changes exactly the requested operator *)
Theorem C02_frame_other : forall S w op new w' o,
  transition S w op new = Ok w' -> o <> op -> st_of w' o = st_of w o.
Proof. exact transition_st_other. Qed.
Print Assumptions C02_frame_other.

(* completion is final, over every history of accepted requests *)
Theorem C02_completed_final : forall S w w' o,
  steps S w w' -> st_of w o = Completed -> st_of w' o = Completed.
Proof. exact completed_final. Qed.
Print Assumptions C02_completed_final.

(* Executor level, every run under arbitrary commands: a completed operator never changes state again *)
Theorem C02_exec_completed_final : forall C n cpu ram s s' o,
  reach_exec_r C (init_estate C n cpu ram) s -> reach_exec_r C s s' ->
  st_of (e_world s) o = Completed -> st_of (e_world s') o = Completed.
Proof. exact exec_completed_final_run. Qed.
Print Assumptions C02_exec_completed_final.

(* ... and is never handed to a container again: a batch containing an operator that is Assigned,
   Running, Suspending or Completed is rejected *)
Theorem C02_no_reassign : forall C s ss asgs a o,
  In a asgs -> In o (a_ops a) -> held (st_of (e_world s) o) ->
  exists e, exec_step C s ss asgs = Err e.
Proof. exact exec_step_rejects_reassign. Qed.
Print Assumptions C02_no_reassign.

Theorem C02_no_reassign_exact : forall C w a l1 o l2 w1,
  args_ok a -> a_ops a = l1 ++ o :: l2 ->
  transition_all (cf_static C) w l1 Assigned = Ok w1 ->
  held (st_of w o) -> mk_assignment C w a = Err ETransition.
Proof. exact no_reassign_held_exact. Qed.
Print Assumptions C02_no_reassign_exact.

(* at any moment an operator belongs to at most one live container: the unfinished suffixes of all
   live containers (running and suspending, all pools) are duplicate-free and pairwise disjoint, and
   every operator in them is Assigned, Running or Suspending *)
Theorem C02_unique_owner : forall C n cpu ram s,
  reach_exec_r C (init_estate C n cpu ram) s -> NoDup (sown s).
Proof. exact unique_owner. Qed.
Print Assumptions C02_unique_owner.

Theorem C02_unique_owner_pairwise : forall C n cpu ram s l1 c1 l2 c2 l3 o,
  reach_exec_r C (init_estate C n cpu ram) s ->
  live_containers s = l1 ++ c1 :: l2 ++ c2 :: l3 ->
  In o (own c1) -> In o (own c2) -> False.
Proof. exact unique_owner_pairwise. Qed.
Print Assumptions C02_unique_owner_pairwise.

Theorem C02_owned_busy : forall C n cpu ram s o,
  reach_exec_r C (init_estate C n cpu ram) s -> In o (sown s) -> busy (st_of (e_world s) o).
Proof. exact owned_busy. Qed.
Print Assumptions C02_owned_busy.

(* non-vacuity: a concrete two-operator pipeline runs A then B to completion through [steps] *)
Example C02_witness :
  let S := mk_static [(Batch, [[]; [0]])] in
  exists w', transition_all S (init_world S) [0; 1] Assigned = Ok w' /\ st_of w' 1 = Assigned.
Proof. eexists. split; vm_compute; reflexivity. Qed.
