(* C07: in Coq a definition is a function, so "same input, same output" needs no theorem; what can fail in
   a faithful model is dependence on the process-global container counter and on identifier values. The
   equivariance theorems are added when Proofs/EquivarianceFacts.v is merged. *)
From Coq Require Import List ZArith QArith.
From Eudoxia Require Import Model.Simulator.
Example C07_placeholder : percentile99 nil = None.
Proof. reflexivity. Qed.
Print Assumptions C07_placeholder.
