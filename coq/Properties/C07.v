(* C07 Runs are reproducible and every policy is evaluated on the same workload.
   In Coq every definition is a function, so "same input, same output" needs no theorem. What CAN fail in a
   faithful model is dependence on where the process-global container counter (Container.next_container_num)
   stands when a simulation starts: ids are dictionary keys and appear in suspend commands. These theorems
   show it does not matter, for every shipped policy and every workload. Statements only; proofs are
   [exact <lemma of Proofs/EquivarianceFacts.v>]. The rest of C07 (hash seeds, identifier values, numpy
   seeds) is decided by the multi-process correspondence (harness/props/C07.py). *)
From Coq Require Import List ZArith QArith.
Import ListNotations.
From Eudoxia Require Import Model.Types Model.Lifecycle Model.Container Model.Pool Model.Executor Model.Sched
  Model.Simulator Proofs.EquivarianceFacts.
Close Scope Q_scope.
Close Scope Z_scope.

(* two runs of the same configuration and workload whose container counters start at k1 and k2: same error
   (or none), the same canonical event log (ids renumbered from the start value), the same statistics *)
Theorem C07_counter_independence : forall C a npools cpu ram tick arrivals k1 k2 d,
  forall sf1 logs1 e1 sf2 logs2 e2,
    sim_run C a tick (init_sim_at C npools cpu ram k1) arrivals = (sf1, logs1, e1) ->
    sim_run C a tick (init_sim_at C npools cpu ram k2) arrivals = (sf2, logs2, e2) ->
    e1 = e2 /\
    map (canon_log k1) logs1 = map (canon_log k2) logs2 /\
    final_stats C d sf1 = final_stats C d sf2.
Proof. exact cid_independence. Qed.
Print Assumptions C07_counter_independence.

Theorem C07_counter_equivariance : forall C a npools cpu ram tick arrivals k d,
  forall sf logs e sf' logs' e',
    sim_run C a tick (init_sim C npools cpu ram) arrivals = (sf, logs, e) ->
    sim_run C a tick (init_sim_at C npools cpu ram k) arrivals = (sf', logs', e') ->
    e' = e /\
    logs' = map (shift_log k) logs /\
    map (canon_log k) logs' = logs /\
    sf' = shift_sim k sf /\
    final_stats C d sf' = final_stats C d sf.
Proof. exact cid_equivariance. Qed.
Print Assumptions C07_counter_equivariance.

(* executor level, arbitrary commands (custom schedulers): a whole run commutes with the id shift *)
Theorem C07_exec_run_shift : forall C k cmds s,
  exec_run C (shift_estate k s) (map (shift_cmd k) cmds) = map_res (sh_erun k) (exec_run C s cmds).
Proof. exact exec_run_shift. Qed.
Print Assumptions C07_exec_run_shift.

Example C07_witness : forall C, init_sim_at C 2 4%Z 8%Q 0 = init_sim C 2 4%Z 8%Q.
Proof. intros. reflexivity. Qed.
