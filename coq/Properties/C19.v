(* C19 The REST bridge is transparent and keeps its protocol promises.
   Statements only; every proof is [exact <lemma of Proofs/RestFacts.v>].

   The model (Model/Rest.v) is the REST scheduler's own bookkeeping, eudoxia/scheduler/rest.py as it is:
   [outs rnd tps poll ins] is the list of per-tick outputs of a run from [rest_init] ([None]: no request in that
   tick, [Some p]: the request [p] was sent) for the input history [ins]; entry k is tick k+1. Per tick the input
   gives the arriving pipelines ([ti_new], ids with their operator ids), the number of executor results of the
   previous tick ([ti_nres]) and the ids of the pipelines for which is_pipeline_successful() holds ([ti_succ]).
   [rnd] is the rounding of the three float operations of the poll clock ([rnd64] for the code).
   The only hypothesis on the history is that pipeline ids are fresh: [NoDup (arrivals ins)].
   (No stability hypothesis on the success flags is needed: the update of the call that reports a pipeline
   complete deletes it, and deletion uses the very flags that were sent.) *)
From Coq Require Import List ZArith QArith Arith String.
Import ListNotations.
From Eudoxia Require Import Num.Rnd64 Model.Types Model.Lifecycle Model.Rest Proofs.RestFacts.
Close Scope Q_scope.
Close Scope Z_scope.

(* ---- new and previously known pipelines are disjoint (and each list is duplicate-free) *)
Theorem C19_new_other_disjoint : forall rnd tps poll ins k p x,
  NoDup (arrivals ins) ->
  nth_error (outs rnd tps poll ins) k = Some (Some p) ->
  In x (new_ids p) -> ~ In x (other_ids p).
Proof. exact new_other_disjoint. Qed.
Print Assumptions C19_new_other_disjoint.

Theorem C19_new_other_nodup : forall rnd tps poll ins k p,
  NoDup (arrivals ins) ->
  nth_error (outs rnd tps poll ins) k = Some (Some p) -> NoDup (other_ids p ++ new_ids p).
Proof. exact new_other_nodup. Qed.
Print Assumptions C19_new_other_nodup.

(* ---- a pipeline reported with is_complete = true is in no later request at all ... *)
Theorem C19_complete_reported_once : forall rnd tps poll ins k p x,
  NoDup (arrivals ins) ->
  nth_error (outs rnd tps poll ins) k = Some (Some p) -> In x (complete_ids p) ->
  forall j q, k < j -> nth_error (outs rnd tps poll ins) j = Some (Some q) ->
    ~ In x (new_ids q) /\ ~ In x (other_ids q).
Proof. exact complete_reported_once. Qed.
Print Assumptions C19_complete_reported_once.

(* ... hence with is_complete = true in at most one request of the whole run *)
Theorem C19_complete_at_most_once : forall rnd tps poll ins k j p q x,
  NoDup (arrivals ins) ->
  nth_error (outs rnd tps poll ins) k = Some (Some p) -> nth_error (outs rnd tps poll ins) j = Some (Some q) ->
  In x (complete_ids p) -> In x (complete_ids q) -> k = j.
Proof. exact complete_at_most_once. Qed.
Print Assumptions C19_complete_at_most_once.

(* ... and nothing is dropped before it was reported complete: a pipeline listed in a request and not
   flagged complete there is in other_pipelines of the next request *)
Theorem C19_listed_until_complete : forall rnd tps poll ins k p x,
  NoDup (arrivals ins) ->
  nth_error (outs rnd tps poll ins) k = Some (Some p) ->
  In x (new_ids p ++ other_ids p) -> ~ In x (complete_ids p) ->
  forall j q, k < j -> nth_error (outs rnd tps poll ins) j = Some (Some q) ->
    (forall m, k < m < j -> nth_error (outs rnd tps poll ins) m = Some None) ->
    In x (other_ids q).
Proof. exact listed_until_complete. Qed.
Print Assumptions C19_listed_until_complete.

(* every arrival is announced in new_pipelines of a request sent in its own tick *)
Theorem C19_arrival_announced : forall rnd tps poll ins k i,
  nth_error ins k = Some i -> ti_new i <> [] ->
  exists p, nth_error (outs rnd tps poll ins) k = Some (Some p) /\ new_ids p = map fst (ti_new i).
Proof. exact arrival_announced. Qed.
Print Assumptions C19_arrival_announced.

(* ---- when is a request sent: in tick k+1 iff something arrived, or there were results, or
   NOT (time_since_last < rest_poll_interval), where time_since_last is the float
   rnd (rnd ((k+1)/tps) - sim time of the most recent request (0.0 if none)) *)
Theorem C19_call_iff : forall rnd tps poll ins k i,
  nth_error ins k = Some i ->
  ((exists p, nth_error (outs rnd tps poll ins) k = Some (Some p)) <->
   (ti_new i <> [] \/ ti_nres i <> 0 \/
    ~ (since_of rnd (now_of rnd tps (Z.of_nat k + 1)%Z) (last_time (firstn k (outs rnd tps poll ins))) < poll)%Q)).
Proof. exact call_iff. Qed.
Print Assumptions C19_call_iff.

(* the request of tick k+1 says tick = k+1 and sim_time_seconds = the float (k+1)/tps *)
Theorem C19_payload_clock : forall rnd tps poll ins k p,
  nth_error (outs rnd tps poll ins) k = Some (Some p) ->
  pl_tick p = (Z.of_nat k + 1)%Z /\ pl_time p = now_of rnd tps (Z.of_nat k + 1)%Z.
Proof. exact payload_clock. Qed.
Print Assumptions C19_payload_clock.

(* exact arithmetic ("at most once per poll interval"): between two consecutive requests, the later one
   without an arrival or a result, at least rest_poll_interval simulated seconds pass *)
Theorem C19_poll_gap_exact : forall tps poll ins k j p q i,
  k < j ->
  nth_error (outs (fun x => x) tps poll ins) k = Some (Some p) ->
  nth_error (outs (fun x => x) tps poll ins) j = Some (Some q) ->
  (forall m, k < m < j -> nth_error (outs (fun x => x) tps poll ins) m = Some None) ->
  nth_error ins j = Some i -> ti_new i = [] -> ti_nres i = 0 ->
  (poll <= pl_time q - pl_time p)%Q /\
  (pl_time q - pl_time p == inject_Z (Z.of_nat j - Z.of_nat k) / inject_Z tps)%Q.
Proof. exact poll_gap_exact. Qed.
Print Assumptions C19_poll_gap_exact.

Theorem C19_first_poll_exact : forall tps poll ins j q i,
  nth_error (outs (fun x => x) tps poll ins) j = Some (Some q) ->
  (forall m, m < j -> nth_error (outs (fun x => x) tps poll ins) m = Some None) ->
  nth_error ins j = Some i -> ti_new i = [] -> ti_nres i = 0 ->
  (poll <= pl_time q)%Q.
Proof. exact first_poll_exact. Qed.
Print Assumptions C19_first_poll_exact.

(* exact arithmetic, other direction: once rest_poll_interval has passed since the last request, one is sent *)
Theorem C19_poll_due_exact : forall tps poll ins k i,
  nth_error ins k = Some i ->
  (poll <= inject_Z (Z.of_nat k + 1) / inject_Z tps - last_time (firstn k (outs (fun x => x) tps poll ins)))%Q ->
  exists p, nth_error (outs (fun x => x) tps poll ins) k = Some (Some p).
Proof. exact poll_due_exact. Qed.
Print Assumptions C19_poll_due_exact.

(* ---- the reply: the wire codec loses nothing, parsing changes nothing *)
Theorem C19_decode_encode : forall r, decode_reply (encode_reply r) = Some r.
Proof. exact decode_encode. Qed.
Print Assumptions C19_decode_encode.

Theorem C19_parse_assignments_same : forall tab l os,
  parse_assignments tab l = inr os -> Forall2 same_decision l os.
Proof. exact parse_assignments_same. Qed.
Print Assumptions C19_parse_assignments_same.

Theorem C19_parse_assignments_pipeline : forall tab l os,
  parse_assignments tab l = inr os ->
  Forall (fun o => exists op, hd_error (ao_ops o) = Some op /\ lookup_pipe tab op = Some (ao_pipeline o)) os.
Proof. exact parse_assignments_pipeline. Qed.
Print Assumptions C19_parse_assignments_pipeline.

Theorem C19_parse_suspensions_same : forall l,
  map (fun s => (so_container s, so_pool s)) (parse_suspensions l) = map (fun s => (su_container s, su_pool s)) l.
Proof. exact parse_suspensions_same. Qed.
Print Assumptions C19_parse_suspensions_same.

(* ---- nothing about the operators' true resource needs: the serialised view of a pipeline is the same
   whatever the segments of its operators are (the view records have no field for them; Operator.to_dict
   emits exactly [operator_keys], tied to /repo by the bridge obligation operator_to_dict_keys) *)
Theorem C19_payload_hides_needs : forall f p, pipe_to_dict (with_needs f p) = pipe_to_dict p.
Proof. exact payload_hides_needs. Qed.
Print Assumptions C19_payload_hides_needs.

(* ---------------------------------------------------------------------------------------------- *)
(* Examples (non-vacuity) *)

(* 2 ticks/s, poll 1.0 s. tick 1: pipeline 7 (operators 1,2) arrives; tick 3: a result, 7 successful;
   8 arrives in tick 4. Requests in ticks 1, 3 (result; 7 shown complete, once), 4 (arrival), 6 (poll). *)
Definition ex_ins : list tick_in :=
  [mkin [(7, [1; 2])]%Z 0 []; mkin [] 0 []; mkin [] 1 [7%Z]; mkin [(8, [3])]%Z 0 [7%Z];
   mkin [] 0 [7%Z]; mkin [] 0 [7%Z]].
Example C19_run_example :
  map (fun o => match o with
                | Some p => (pl_tick p, new_ids p, other_ids p, complete_ids p)
                | None => (0%Z, [], [], []) end) (outs rnd64 2 1 ex_ins)
  = [(1, [7], [], []); (0, [], [], []); (3, [], [7], [7]); (4, [8], [], []); (0, [], [], []); (6, [], [8], [])]%Z.
Proof. vm_compute. reflexivity. Qed.

(* the float poll clock on a boundary: 10 ticks/s, poll 0.1 (as a double), nothing ever happens.
   With exact arithmetic and poll = 1/10 every tick polls; the float text polls in ticks 1 and 2, skips tick 3
   (0.3 - 0.2 < 0.1 in binary64) and from then on polls every second tick; with the double 0.1 taken exactly (it is > 1/10) exact arithmetic polls every second tick. *)
Definition idle (n : nat) : list tick_in := repeat (mkin [] 0 []) n.
Definition called (os : list (option payload)) : list bool :=
  map (fun o => match o with Some _ => true | None => false end) os.
Example C19_float_poll_boundary :
  called (outs rnd64 10 (rnd64 (1 # 10)) (idle 10))
    = [true; true; false; true; false; true; false; true; false; true] /\
  called (outs (fun x => x) 10 (1 # 10) (idle 10)) = repeat true 10 /\
  called (outs (fun x => x) 10 (rnd64 (1 # 10)) (idle 6)) = [false; true; false; true; false; true].
Proof. vm_compute. repeat split; reflexivity. Qed.

(* a reply through the codec and the parser; an unknown priority name is a KeyError *)
Definition ex_reply : reply :=
  {| rp_susp := [{| su_container := 12; su_pool := 1 |}]%Z;
     rp_asg := [{| as_ops := [3; 4]%Z; as_cpu := 2; as_ram := 3 # 2; as_prio := 1%Z; as_pool := 0%Z;
                   as_resume := false; as_force := true |}] |}.
Example C19_codec_example :
  decode_reply (encode_reply ex_reply) = Some ex_reply /\
  parse_assignments [(3, 9); (4, 9)]%Z (rp_asg ex_reply)
    = inr [{| ao_ops := [3; 4]%Z; ao_cpu := 2; ao_ram := 3 # 2; ao_prio := Query; ao_pool := 0%Z;
              ao_pipeline := 9%Z; ao_resume := false; ao_force := true |}] /\
  parse_assignments [(3, 9)]%Z (rp_asg ex_reply) = inl PKeyOperator /\
  parse_assignments [(3, 9); (4, 9)]%Z
    [{| as_ops := []; as_cpu := 1; as_ram := 1; as_prio := 0%Z; as_pool := 0%Z; as_resume := false; as_force := false |}]
    = inl PKeyPriority.
Proof. vm_compute. repeat split; reflexivity. Qed.

(* an operator view: state, assignability, parents; two operators that differ only in their needs *)
Example C19_view_example :
  op_to_dict {| ot_id := 5%Z; ot_state := Failed; ot_parent_states := [Completed; Completed];
                ot_needs := [{| sn_cpu_secs := 15; sn_mem := None; sn_read := 35 |}] |}
  = {| ov_id := 5%Z; ov_state := Failed; ov_assignable := true; ov_parents_complete := true |} /\
  op_to_dict {| ot_id := 5%Z; ot_state := Failed; ot_parent_states := [Completed; Completed]; ot_needs := [] |}
  = {| ov_id := 5%Z; ov_state := Failed; ov_assignable := true; ov_parents_complete := true |}.
Proof. vm_compute. split; reflexivity. Qed.

(* schema note: of the three values whose Python attribute defaults to None, two are pointers in
   go/eudoxia/types.go; ExecutionResult.container_id is a plain string there (the pool always sets it; the
   monitor checks that no recorded result carries a null container_id) *)
Example C19_go_nullable_gap :
  filter (fun k => negb (existsb (fun g => (String.eqb (fst k) (fst g) && String.eqb (snd k) (snd g))%bool)
                                 go_pointer_keys)) nullable_keys
  = [("ExecutionResult", "container_id")]%string.
Proof. vm_compute. reflexivity. Qed.

(* ============================================================================================== *)
(* TRANSPARENCY: the bridge inside the simulator loop.

   Model/SimGen.v is the loop of run_simulator with the scheduler as a parameter ([gsim_run C step]); with a
   shipped policy it IS [sim_run] (first theorem). Model/RestSim.v puts rest_scheduler into that loop:
   [rest_gstep C poll pol] serialises the real executor / lifecycle state ([view], mirroring the to_dict
   methods), decides with the bookkeeping of Model/Rest.v ([rest_step]) whether to send it, hands it to the
   external server [pol] (ANY function: private state x request -> reply x private state), pushes the reply
   through the wire codec and turns it into Suspend / Assignment objects exactly as _parse_suspensions /
   _parse_assignments / Assignment.__init__ do. [direct_gstep C call_at pol] is the in-process counterpart: no
   operator_lookup, no wire, no poll clock of its own; it consults the same [pol] on the same view in the ticks
   [call_at] names and issues its decisions directly.
   Statements only; every proof is [exact <lemma of Proofs/SimGenFacts.v or Proofs/RestSimFacts.v>]. *)
From Eudoxia Require Import Model.Dag Model.Container Model.Pool Model.Executor Model.Sched Model.Simulator
  Model.SimGen Model.RestSim Proofs.SimGenFacts Proofs.RestSimFacts.
Close Scope Q_scope.
Close Scope Z_scope.

(* ---- the scheduler-generic loop is the loop of Model/Simulator.v *)
Theorem C19_generic_loop_is_sim_run : forall C a arrivals tick s,
  gsim_run C (lift_sched C a) tick (g_of_sim s) arrivals
  = let '(sf, logs, e) := sim_run C a tick s arrivals in (g_of_sim sf, logs, e).
Proof. exact gsim_run_is_sim_run. Qed.
Print Assumptions C19_generic_loop_is_sim_run.

(* ---- every call carries the true current state.
   [observable_part] reads the simulator state through the accessors of the executor / lifecycle model (pool
   figures, each container's id / pipeline / operators / cpu / ram / memory / priority, each operator's state,
   assignability and parents_complete, each pipeline's is_pipeline_successful and failure counter, the arrival
   ticks, the results of the last tick); [state_of_payload] reads a request body back. No serialiser occurs in
   [observable_part]. *)
Theorem C19_payload_is_true_state : forall C e results newp other arr t,
  state_of_payload (view C e results newp other arr t) = observable_part C e results newp other arr t.
Proof. exact payload_is_true_state. Qed.
Print Assumptions C19_payload_is_true_state.

(* the request of one invocation, in any state of the scheduler object *)
Theorem C19_request_is_true_state : forall PS C poll (x : rxs PS) e results newp tick p,
  rest_request C poll x e results newp tick = Some p ->
  state_of_payload p
  = observable_part C e results newp (map pid (rs_other (rx_rs x)))
                    (rx_arr x ++ map (fun q => (q, tick)) newp) (rs_tick (rx_rs x) + 1)%Z.
Proof. exact @request_is_true_state. Qed.
Print Assumptions C19_request_is_true_state.

(* in a run from the initial state the arrival ticks the bridge holds are the simulator's table and its tick
   counter is the simulator's tick number ... *)
Theorem C19_bridge_holds_simulator_clock : forall PS C poll (pol : policy PS) npools cpu ram ps0 arrivals k sk,
  nth_error (gsim_states C (rest_gstep C poll pol) 0%Z (ginit C npools cpu ram (rx_init ps0)) arrivals) k
    = Some sk ->
  rx_arr (gm_sched sk) = gm_arrival sk /\ rs_tick (rx_rs (gm_sched sk)) = Z.of_nat k.
Proof. exact @bridge_holds_simulator_clock. Qed.
Print Assumptions C19_bridge_holds_simulator_clock.

(* ... so the request of tick k shows the simulator state of tick k: executor state and results as they are
   when the scheduler runs, the simulator's own arrival table (with this tick's arrivals), "tick" = k + 1 *)
Theorem C19_run_payload_is_true_state : forall PS C poll (pol : policy PS) npools cpu ram ps0 arrivals k sk newp p,
  nth_error (gsim_states C (rest_gstep C poll pol) 0%Z (ginit C npools cpu ram (rx_init ps0)) arrivals) k
    = Some sk ->
  nth_error arrivals k = Some newp ->
  rest_request C poll (gm_sched sk) (gm_exec sk) (gm_results sk) newp (Z.of_nat k) = Some p ->
  state_of_payload p
  = observable_part C (gm_exec sk) (gm_results sk) newp (map pid (rs_other (rx_rs (gm_sched sk))))
                    (gm_arrival sk ++ map (fun q => (q, Z.of_nat k)) newp) (Z.of_nat k + 1)%Z.
Proof. exact @run_payload_is_true_state. Qed.
Print Assumptions C19_run_payload_is_true_state.

(* nothing about true resource needs, at the level of the simulator: the request is the same whatever the
   per-tick memory scripts (durations and memory demands) of the operators are *)
Theorem C19_view_hides_script : forall C f e results newp other arr t,
  view (with_script C f) e results newp other arr t = view C e results newp other arr t.
Proof. exact view_hides_script. Qed.
Print Assumptions C19_view_hides_script.

(* ---- the decisions in the reply are executed exactly as given.
   One invocation that returns normally: without a request no command is issued and the world is untouched;
   with a request the suspensions and assignments handed to the executor are, item by item and in order, the
   reply of the server to [view_of ...] (fields copied, [same_susp] / [same_asg]), every operator id named
   was a key of operator_lookup (new pipelines registered), and the world is the one in which exactly those
   Assignment objects were created. *)
Theorem C19_decisions_executed_as_given :
  forall PS C poll (pol : policy PS) x e results newp tick x' w' susps asgs,
  rest_gstep C poll pol x e results newp tick = Ok (x', w', susps, asgs) ->
  (rest_calls_at C poll x results newp = false -> susps = [] /\ asgs = [] /\ w' = e_world e) /\
  (rest_calls_at C poll x results newp = true ->
     let r := fst (pol (rx_pol x) (view_of C e results newp tick x)) in
     let lookup := register (rs_lookup (rx_rs x)) (map (pipe_entry (cf_static C)) newp) in
     Forall2 (same_susp e) (rp_susp r) susps /\
     Forall2 same_asg (rp_asg r) asgs /\
     Forall (fun a => forall o, In o (as_ops a) -> In o lookup) (rp_asg r) /\
     mk_assignments C (e_world e) asgs = Ok w').
Proof. exact @decisions_executed_as_given. Qed.
Print Assumptions C19_decisions_executed_as_given.

(* in a run from the initial state every key of operator_lookup is the wire form of an operator number, so
   the operators of each command ARE the ids the reply named (resolved through the lookup, nothing else) *)
Theorem C19_run_decisions_name_operators :
  forall PS C poll (pol : policy PS) npools cpu ram ps0 arrivals k sk newp tick x' w' susps asgs,
  nth_error (gsim_states C (rest_gstep C poll pol) 0%Z (ginit C npools cpu ram (rx_init ps0)) arrivals) k
    = Some sk ->
  rest_gstep C poll pol (gm_sched sk) (gm_exec sk) (gm_results sk) newp tick = Ok (x', w', susps, asgs) ->
  rest_calls_at C poll (gm_sched sk) (gm_results sk) newp = true ->
  Forall2 (fun a x => map Z.of_nat (a_ops x) = as_ops a)
          (rp_asg (fst (pol (rx_pol (gm_sched sk)) (view_of C (gm_exec sk) (gm_results sk) newp tick (gm_sched sk)))))
          asgs.
Proof. exact @run_decisions_name_operators. Qed.
Print Assumptions C19_run_decisions_name_operators.

(* the parser used inside the loop is Rest.parse_assignment (tests in the same order, same fields), followed
   by the reading of "cpu" as a CPU count *)
Theorem C19_parse_asg_is_rest_parser : forall S lk a,
  parse_asg (fun o => memZ o lk) a
  = match parse_assignment (tab_of S lk) a with
    | inl e => Err (err_of_perr e)
    | inr ob => asg_of_obj ob
    end.
Proof. exact parse_asg_rest. Qed.
Print Assumptions C19_parse_asg_is_rest_parser.

(* the bookkeeping inside the loop is [rest_step] on inputs read off the real state (so the protocol theorems
   above hold for the requests of a simulated run), and the arrival table grows by this tick's arrivals *)
Theorem C19_bookkeeping_is_rest_step : forall PS C poll (pol : policy PS) x e results newp t x' w su a,
  rest_gstep C poll pol x e results newp t = Ok (x', w, su, a) ->
  rx_rs x' = fst (rest_step (cf_rnd C) (cf_tps C) poll (rx_rs x) (tick_in_of C e results newp (rx_rs x))) /\
  rx_arr x' = rx_arr x ++ map (fun p => (p, t)) newp.
Proof. exact @rest_gstep_state. Qed.
Print Assumptions C19_bookkeeping_is_rest_step.

(* rest.py deletes completed pipelines AFTER it created the Assignment objects; [rest_step] deletes by the
   flags that were sent. Same thing: creating Assignment objects never changes is_pipeline_successful() *)
Theorem C19_deletion_sees_sent_flags : forall PS C poll (pol : policy PS) x e results newp t x' w' su a ps,
  rest_gstep C poll pol x e results newp t = Ok (x', w', su, a) ->
  succ_ids (cf_static C) w' ps = succ_ids (cf_static C) (e_world e) ps.
Proof. exact @deletion_sees_sent_flags. Qed.
Print Assumptions C19_deletion_sees_sent_flags.

(* ---- a run driven over HTTP equals the run in which the same policy is called in-process.
   For every server [pol] that names only operators it was shown in the request it answers ([admissible]), every
   workload, pool configuration, poll interval, tick rate and rounding, and every call discipline [call_at] that
   names the ticks in which the bridge sends a request: same final executor state, same results, same
   outstanding / arrival / latency tables and counters, same per-tick log (arrivals, suspensions, assignments,
   results, finished pipelines), same error if the run stops - everything but the schedulers' private state.
   [order_pipe]: operator ids are unique across pipelines (UUIDs in the code; holds for [mk_static]). *)
Theorem C19_transparent : forall PS C poll (pol : policy PS) call_at,
  order_pipe (cf_static C) -> admissible pol ->
  forall npools cpu ram ps0 arrivals,
  discipline_agrees C poll pol call_at 0%Z (ginit C npools cpu ram (rx_init ps0)) arrivals ->
  gforget_run (gsim_run C (rest_gstep C poll pol) 0%Z (ginit C npools cpu ram (rx_init ps0)) arrivals)
  = gforget_run (gsim_run C (direct_gstep C call_at pol) 0%Z (ginit C npools cpu ram (dx_init ps0)) arrivals).
Proof. exact @rest_transparent. Qed.
Print Assumptions C19_transparent.

(* hence the same statistics *)
Theorem C19_same_statistics : forall PS C poll (pol : policy PS) call_at,
  order_pipe (cf_static C) -> admissible pol ->
  forall npools cpu ram ps0 arrivals duration,
  discipline_agrees C poll pol call_at 0%Z (ginit C npools cpu ram (rx_init ps0)) arrivals ->
  gfinal_stats C duration
    (fst (fst (gsim_run C (rest_gstep C poll pol) 0%Z (ginit C npools cpu ram (rx_init ps0)) arrivals)))
  = gfinal_stats C duration
    (fst (fst (gsim_run C (direct_gstep C call_at pol) 0%Z (ginit C npools cpu ram (dx_init ps0)) arrivals))).
Proof. exact @rest_same_statistics. Qed.
Print Assumptions C19_same_statistics.

(* [gfinal_stats] is [final_stats] of Model/Simulator.v *)
Theorem C19_statistics_are_final_stats : forall C duration s,
  gfinal_stats C duration (g_of_sim s) = final_stats C duration s.
Proof. exact gfinal_stats_sim. Qed.
Print Assumptions C19_statistics_are_final_stats.

(* such a call discipline exists for every run: the one read off the REST run itself ... *)
Theorem C19_discipline_exists : forall PS C poll (pol : policy PS) s arrivals,
  discipline_agrees C poll pol (schedule_of 0%Z (rest_call_trace C poll pol 0%Z s arrivals)) 0%Z s arrivals.
Proof. exact @trace_discipline_agrees. Qed.
Print Assumptions C19_discipline_exists.

(* ... with which no hypothesis on the call ticks is left *)
Theorem C19_transparent_trace : forall PS C poll (pol : policy PS) npools cpu ram ps0 arrivals,
  order_pipe (cf_static C) -> admissible pol ->
  let s0 := ginit C npools cpu ram (rx_init ps0) in
  gforget_run (gsim_run C (rest_gstep C poll pol) 0%Z s0 arrivals)
  = gforget_run (gsim_run C (direct_gstep C (schedule_of 0%Z (rest_call_trace C poll pol 0%Z s0 arrivals)) pol)
                          0%Z (ginit C npools cpu ram (dx_init ps0)) arrivals).
Proof. exact @rest_transparent_trace. Qed.
Print Assumptions C19_transparent_trace.

(* WITHOUT admissibility the equality is false in the model as in the code: a reply that names an operator the
   bridge has not registered (or has already dropped) is a KeyError in _parse_assignments, while an in-process
   scheduler holds the operator objects and can assign them. Witness: the reply to the first request names an
   operator of a pipeline that arrives three ticks later. *)
Theorem C19_transparent_needs_admissible_refuted :
  exists (C : cfg) (poll : Q) (pol : policy unit) (arrivals : list (list nat)),
    let s0 := ginit C 1 4%Z 8%Q (rx_init tt) in
    let call_at := schedule_of 0%Z (rest_call_trace C poll pol 0%Z s0 arrivals) in
    let rest := gsim_run C (rest_gstep C poll pol) 0%Z s0 arrivals in
    let direct := gsim_run C (direct_gstep C call_at pol) 0%Z (ginit C 1 4%Z 8%Q (dx_init tt)) arrivals in
    order_pipe (cf_static C) /\
    discipline_agrees C poll pol call_at 0%Z s0 arrivals /\
    snd rest = Some EOther /\ snd direct = None /\
    gforget_run rest <> gforget_run direct.
Proof. exact transparent_needs_admissible_refuted. Qed.
Print Assumptions C19_transparent_needs_admissible_refuted.

(* the strongest statement for EVERY server: that KeyError (error class EOther) is the only way the two runs
   can part - either the HTTP-driven run stops with EOther, or it is the in-process run *)
Theorem C19_transparent_or_keyerror : forall PS C poll (pol : policy PS) call_at,
  order_pipe (cf_static C) ->
  forall npools cpu ram ps0 arrivals,
  discipline_agrees C poll pol call_at 0%Z (ginit C npools cpu ram (rx_init ps0)) arrivals ->
  snd (gsim_run C (rest_gstep C poll pol) 0%Z (ginit C npools cpu ram (rx_init ps0)) arrivals) = Some EOther \/
  gforget_run (gsim_run C (rest_gstep C poll pol) 0%Z (ginit C npools cpu ram (rx_init ps0)) arrivals)
  = gforget_run (gsim_run C (direct_gstep C call_at pol) 0%Z (ginit C npools cpu ram (dx_init ps0)) arrivals).
Proof. exact @rest_transparent_or_keyerror. Qed.
Print Assumptions C19_transparent_or_keyerror.

(* the hypotheses are satisfiable: the small greedy policy of Model/RestSim.v is admissible, the static
   description of the example below has unique operator ids *)
Theorem C19_greedy_admissible : admissible greedy_policy.
Proof. exact greedy_admissible. Qed.
Print Assumptions C19_greedy_admissible.

Theorem C19_example_order_pipe : order_pipe (cf_static RestSimExamples.exC).
Proof. exact RestSimExamples.ex_order_pipe. Qed.
Print Assumptions C19_example_order_pipe.

(* ---------------------------------------------------------------------------------------------- *)
(* Examples (non-vacuity) for the transparency theorems.
   RestSimExamples: pipeline 0 (QUERY, operators 0 -> 1) arrives in tick 0, pipeline 1 (BATCH, operator 2) in
   tick 3; every operator runs two ticks; one pool of 4 CPUs / 8 GB; 10 ticks/s, binary64 arithmetic, poll
   interval 0.3 s; the server is [greedy_policy] (the first ready operator gets the whole free pool). *)
Import RestSimExamples.

Definition ex_trace : list bool := rest_call_trace exC ex_poll greedy_policy 0%Z ex_s0 ex_arrivals.

(* the HTTP-driven run: no error; requests in ticks 0 (arrival), 2 (result), 3 (arrival), 4 (result),
   6 (result), 9 (poll clock); the poll clock suppresses the call in ticks 1, 5, 7, 8, 10, 11; operators 0, 1, 2
   are assigned in ticks 0, 2, 4; pipeline 0 finishes in tick 3 and pipeline 1 in tick 5 *)
Example C19_rest_run_example :
  let '(sf, logs, er) := gsim_run exC (rest_gstep exC ex_poll greedy_policy) 0%Z ex_s0 ex_arrivals in
  er = None /\
  ex_trace = [true; false; true; true; true; false; true; false; false; true; false; false] /\
  map (fun l => map a_ops (tl_asgs l)) logs = [[[0]]; []; [[1]]; []; [[2]]; []; []; []; []; []; []; []] /\
  map tl_finished logs = [[]; []; []; [0]; []; [1]; []; []; []; []; []; []] /\
  map (st_of (e_world (gm_exec sf))) [0; 1; 2] = [Completed; Completed; Completed].
Proof. vm_compute. repeat split; reflexivity. Qed.

(* the requests of that run: "tick", ids under new_pipelines, (id, is_complete) under other_pipelines, and
   (avail_cpu, number of active containers) of the pool. Pipeline 0 is shown complete once (request of tick 4,
   "tick": 5) and never again; the free CPUs are the pool's *)
Example C19_requests_example :
  map (fun o => match o with
                | Some p => Some (pf_tick p, map pv_id (pf_new p), map (fun v => (pv_id v, pv_complete v)) (pf_other p),
                                  map (fun q => (pov_avail_cpu q, Z.of_nat (List.length (pov_active q)))) (pf_pools p))
                | None => None end)
      (rest_requests exC ex_poll greedy_policy 0%Z ex_s0 ex_arrivals)
  = [Some (1, [0], [], [(4, 0)]); None; Some (3, [], [(0, false)], [(4, 0)]);
     Some (4, [1], [(0, false)], [(0, 1)]); Some (5, [], [(0, true); (1, false)], [(4, 0)]); None;
     Some (7, [], [(1, true)], [(4, 0)]); None; None; Some (10, [], [], [(4, 0)]); None; None]%Z.
Proof. vm_compute. reflexivity. Qed.

(* the in-process run with the call discipline of the REST run is the same run (checked by computation here;
   C19_transparent_trace with C19_greedy_admissible and C19_example_order_pipe gives it by proof) *)
Example C19_transparent_example :
  gforget_run (gsim_run exC (rest_gstep exC ex_poll greedy_policy) 0%Z ex_s0 ex_arrivals)
  = gforget_run (gsim_run exC (direct_gstep exC (schedule_of 0%Z ex_trace) greedy_policy) 0%Z ex_d0 ex_arrivals).
Proof. vm_compute. reflexivity. Qed.

Example C19_transparent_example_by_theorem :
  gforget_run (gsim_run exC (rest_gstep exC ex_poll greedy_policy) 0%Z ex_s0 ex_arrivals)
  = gforget_run (gsim_run exC (direct_gstep exC (schedule_of 0%Z ex_trace) greedy_policy) 0%Z ex_d0 ex_arrivals).
Proof. exact (C19_transparent_trace unit exC ex_poll greedy_policy 1 4%Z 8%Q tt ex_arrivals
                                    C19_example_order_pipe C19_greedy_admissible). Qed.

(* the inadmissible server of the refutation: the bridge stops in tick 0, the in-process run goes on *)
Example C19_rogue_example :
  snd (gsim_run exC (rest_gstep exC ex_poll rogue_policy) 0%Z ex_s0 ex_arrivals) = Some EOther /\
  (let '(sf, logs, er) := gsim_run exC (direct_gstep exC (fun t => (t =? 0)%Z) rogue_policy) 0%Z ex_d0 ex_arrivals in
   er = None /\ map (fun l => map a_ops (tl_asgs l)) logs = [[[2]]; []; []; []; []; []; []; []; []; []; []; []]).
Proof. vm_compute. repeat split; reflexivity. Qed.
