(* C19 The REST bridge is transparent and keeps its protocol promises.
   Statements only; every proof is [exact <lemma of Proofs/RestFacts.v>].

   The model (Model/Rest.v) is the REST scheduler's own bookkeeping, eudoxia/scheduler/rest.py as it is:
   [outs rnd tps poll ins] is the list of per-tick outputs of a run from [rest_init] ([None]: no request in that
   tick, [Some p]: the request [p] was sent) for the input history [ins]; entry k is tick k+1. Per tick the input
   gives the arriving pipelines ([ti_new], ids with their operator ids), the number of executor results of the
   previous tick ([ti_nres]) and the ids of the pipelines for which is_pipeline_successful() holds ([ti_succ]).
   [rnd] is the rounding of the three float operations of the poll clock ([rnd64] for the code).
   The only hypothesis on the history is that pipeline ids are fresh: [NoDup (arrivals ins)].
   (No stability hypothesis on the success flags is needed: the update of the call that reports a pipeline
   complete deletes it, and deletion uses the very flags that were sent.) *)
From Coq Require Import List ZArith QArith Arith String.
Import ListNotations.
From Eudoxia Require Import Num.Rnd64 Model.Types Model.Lifecycle Model.Rest Proofs.RestFacts.
Close Scope Q_scope.
Close Scope Z_scope.

(* ---- new and previously known pipelines are disjoint (and each list is duplicate-free) *)
Theorem C19_new_other_disjoint : forall rnd tps poll ins k p x,
  NoDup (arrivals ins) ->
  nth_error (outs rnd tps poll ins) k = Some (Some p) ->
  In x (new_ids p) -> ~ In x (other_ids p).
Proof. exact new_other_disjoint. Qed.
Print Assumptions C19_new_other_disjoint.

Theorem C19_new_other_nodup : forall rnd tps poll ins k p,
  NoDup (arrivals ins) ->
  nth_error (outs rnd tps poll ins) k = Some (Some p) -> NoDup (other_ids p ++ new_ids p).
Proof. exact new_other_nodup. Qed.
Print Assumptions C19_new_other_nodup.

(* ---- a pipeline reported with is_complete = true is in no later request at all ... *)
Theorem C19_complete_reported_once : forall rnd tps poll ins k p x,
  NoDup (arrivals ins) ->
  nth_error (outs rnd tps poll ins) k = Some (Some p) -> In x (complete_ids p) ->
  forall j q, k < j -> nth_error (outs rnd tps poll ins) j = Some (Some q) ->
    ~ In x (new_ids q) /\ ~ In x (other_ids q).
Proof. exact complete_reported_once. Qed.
Print Assumptions C19_complete_reported_once.

(* ... hence with is_complete = true in at most one request of the whole run *)
Theorem C19_complete_at_most_once : forall rnd tps poll ins k j p q x,
  NoDup (arrivals ins) ->
  nth_error (outs rnd tps poll ins) k = Some (Some p) -> nth_error (outs rnd tps poll ins) j = Some (Some q) ->
  In x (complete_ids p) -> In x (complete_ids q) -> k = j.
Proof. exact complete_at_most_once. Qed.
Print Assumptions C19_complete_at_most_once.

(* ... and nothing is dropped before it was reported complete: a pipeline listed in a request and not
   flagged complete there is in other_pipelines of the next request *)
Theorem C19_listed_until_complete : forall rnd tps poll ins k p x,
  NoDup (arrivals ins) ->
  nth_error (outs rnd tps poll ins) k = Some (Some p) ->
  In x (new_ids p ++ other_ids p) -> ~ In x (complete_ids p) ->
  forall j q, k < j -> nth_error (outs rnd tps poll ins) j = Some (Some q) ->
    (forall m, k < m < j -> nth_error (outs rnd tps poll ins) m = Some None) ->
    In x (other_ids q).
Proof. exact listed_until_complete. Qed.
Print Assumptions C19_listed_until_complete.

(* every arrival is announced in new_pipelines of a request sent in its own tick *)
Theorem C19_arrival_announced : forall rnd tps poll ins k i,
  nth_error ins k = Some i -> ti_new i <> [] ->
  exists p, nth_error (outs rnd tps poll ins) k = Some (Some p) /\ new_ids p = map fst (ti_new i).
Proof. exact arrival_announced. Qed.
Print Assumptions C19_arrival_announced.

(* ---- when is a request sent: in tick k+1 iff something arrived, or there were results, or
   NOT (time_since_last < rest_poll_interval), where time_since_last is the float
   rnd (rnd ((k+1)/tps) - sim time of the most recent request (0.0 if none)) *)
Theorem C19_call_iff : forall rnd tps poll ins k i,
  nth_error ins k = Some i ->
  ((exists p, nth_error (outs rnd tps poll ins) k = Some (Some p)) <->
   (ti_new i <> [] \/ ti_nres i <> 0 \/
    ~ (since_of rnd (now_of rnd tps (Z.of_nat k + 1)%Z) (last_time (firstn k (outs rnd tps poll ins))) < poll)%Q)).
Proof. exact call_iff. Qed.
Print Assumptions C19_call_iff.

(* the request of tick k+1 says tick = k+1 and sim_time_seconds = the float (k+1)/tps *)
Theorem C19_payload_clock : forall rnd tps poll ins k p,
  nth_error (outs rnd tps poll ins) k = Some (Some p) ->
  pl_tick p = (Z.of_nat k + 1)%Z /\ pl_time p = now_of rnd tps (Z.of_nat k + 1)%Z.
Proof. exact payload_clock. Qed.
Print Assumptions C19_payload_clock.

(* exact arithmetic ("at most once per poll interval"): between two consecutive requests, the later one
   without an arrival or a result, at least rest_poll_interval simulated seconds pass *)
Theorem C19_poll_gap_exact : forall tps poll ins k j p q i,
  k < j ->
  nth_error (outs (fun x => x) tps poll ins) k = Some (Some p) ->
  nth_error (outs (fun x => x) tps poll ins) j = Some (Some q) ->
  (forall m, k < m < j -> nth_error (outs (fun x => x) tps poll ins) m = Some None) ->
  nth_error ins j = Some i -> ti_new i = [] -> ti_nres i = 0 ->
  (poll <= pl_time q - pl_time p)%Q /\
  (pl_time q - pl_time p == inject_Z (Z.of_nat j - Z.of_nat k) / inject_Z tps)%Q.
Proof. exact poll_gap_exact. Qed.
Print Assumptions C19_poll_gap_exact.

Theorem C19_first_poll_exact : forall tps poll ins j q i,
  nth_error (outs (fun x => x) tps poll ins) j = Some (Some q) ->
  (forall m, m < j -> nth_error (outs (fun x => x) tps poll ins) m = Some None) ->
  nth_error ins j = Some i -> ti_new i = [] -> ti_nres i = 0 ->
  (poll <= pl_time q)%Q.
Proof. exact first_poll_exact. Qed.
Print Assumptions C19_first_poll_exact.

(* exact arithmetic, other direction: once rest_poll_interval has passed since the last request, one is sent *)
Theorem C19_poll_due_exact : forall tps poll ins k i,
  nth_error ins k = Some i ->
  (poll <= inject_Z (Z.of_nat k + 1) / inject_Z tps - last_time (firstn k (outs (fun x => x) tps poll ins)))%Q ->
  exists p, nth_error (outs (fun x => x) tps poll ins) k = Some (Some p).
Proof. exact poll_due_exact. Qed.
Print Assumptions C19_poll_due_exact.

(* ---- the reply: the wire codec loses nothing, parsing changes nothing *)
Theorem C19_decode_encode : forall r, decode_reply (encode_reply r) = Some r.
Proof. exact decode_encode. Qed.
Print Assumptions C19_decode_encode.

Theorem C19_parse_assignments_same : forall tab l os,
  parse_assignments tab l = inr os -> Forall2 same_decision l os.
Proof. exact parse_assignments_same. Qed.
Print Assumptions C19_parse_assignments_same.

Theorem C19_parse_assignments_pipeline : forall tab l os,
  parse_assignments tab l = inr os ->
  Forall (fun o => exists op, hd_error (ao_ops o) = Some op /\ lookup_pipe tab op = Some (ao_pipeline o)) os.
Proof. exact parse_assignments_pipeline. Qed.
Print Assumptions C19_parse_assignments_pipeline.

Theorem C19_parse_suspensions_same : forall l,
  map (fun s => (so_container s, so_pool s)) (parse_suspensions l) = map (fun s => (su_container s, su_pool s)) l.
Proof. exact parse_suspensions_same. Qed.
Print Assumptions C19_parse_suspensions_same.

(* ---- nothing about the operators' true resource needs: the serialised view of a pipeline is the same
   whatever the segments of its operators are (the view records have no field for them; Operator.to_dict
   emits exactly [operator_keys], tied to /repo by the bridge obligation operator_to_dict_keys) *)
Theorem C19_payload_hides_needs : forall f p, pipe_to_dict (with_needs f p) = pipe_to_dict p.
Proof. exact payload_hides_needs. Qed.
Print Assumptions C19_payload_hides_needs.

(* ---------------------------------------------------------------------------------------------- *)
(* Examples (non-vacuity) *)

(* 2 ticks/s, poll 1.0 s. tick 1: pipeline 7 (operators 1,2) arrives; tick 3: a result, 7 successful;
   8 arrives in tick 4. Requests in ticks 1, 3 (result; 7 shown complete, once), 4 (arrival), 6 (poll). *)
Definition ex_ins : list tick_in :=
  [mkin [(7, [1; 2])]%Z 0 []; mkin [] 0 []; mkin [] 1 [7%Z]; mkin [(8, [3])]%Z 0 [7%Z];
   mkin [] 0 [7%Z]; mkin [] 0 [7%Z]].
Example C19_run_example :
  map (fun o => match o with
                | Some p => (pl_tick p, new_ids p, other_ids p, complete_ids p)
                | None => (0%Z, [], [], []) end) (outs rnd64 2 1 ex_ins)
  = [(1, [7], [], []); (0, [], [], []); (3, [], [7], [7]); (4, [8], [], []); (0, [], [], []); (6, [], [8], [])]%Z.
Proof. vm_compute. reflexivity. Qed.

(* the float poll clock on a boundary: 10 ticks/s, poll 0.1 (as a double), nothing ever happens.
   With exact arithmetic and poll = 1/10 every tick polls; the float text polls in ticks 1 and 2, skips tick 3
   (0.3 - 0.2 < 0.1 in binary64) and from then on polls every second tick; with the double 0.1 taken exactly (it is > 1/10) exact arithmetic polls every second tick. *)
Definition idle (n : nat) : list tick_in := repeat (mkin [] 0 []) n.
Definition called (os : list (option payload)) : list bool :=
  map (fun o => match o with Some _ => true | None => false end) os.
Example C19_float_poll_boundary :
  called (outs rnd64 10 (rnd64 (1 # 10)) (idle 10))
    = [true; true; false; true; false; true; false; true; false; true] /\
  called (outs (fun x => x) 10 (1 # 10) (idle 10)) = repeat true 10 /\
  called (outs (fun x => x) 10 (rnd64 (1 # 10)) (idle 6)) = [false; true; false; true; false; true].
Proof. vm_compute. repeat split; reflexivity. Qed.

(* a reply through the codec and the parser; an unknown priority name is a KeyError *)
Definition ex_reply : reply :=
  {| rp_susp := [{| su_container := 12; su_pool := 1 |}]%Z;
     rp_asg := [{| as_ops := [3; 4]%Z; as_cpu := 2; as_ram := 3 # 2; as_prio := 1%Z; as_pool := 0%Z;
                   as_resume := false; as_force := true |}] |}.
Example C19_codec_example :
  decode_reply (encode_reply ex_reply) = Some ex_reply /\
  parse_assignments [(3, 9); (4, 9)]%Z (rp_asg ex_reply)
    = inr [{| ao_ops := [3; 4]%Z; ao_cpu := 2; ao_ram := 3 # 2; ao_prio := Query; ao_pool := 0%Z;
              ao_pipeline := 9%Z; ao_resume := false; ao_force := true |}] /\
  parse_assignments [(3, 9)]%Z (rp_asg ex_reply) = inl PKeyOperator /\
  parse_assignments [(3, 9); (4, 9)]%Z
    [{| as_ops := []; as_cpu := 1; as_ram := 1; as_prio := 0%Z; as_pool := 0%Z; as_resume := false; as_force := false |}]
    = inl PKeyPriority.
Proof. vm_compute. repeat split; reflexivity. Qed.

(* an operator view: state, assignability, parents; two operators that differ only in their needs *)
Example C19_view_example :
  op_to_dict {| ot_id := 5%Z; ot_state := Failed; ot_parent_states := [Completed; Completed];
                ot_needs := [{| sn_cpu_secs := 15; sn_mem := None; sn_read := 35 |}] |}
  = {| ov_id := 5%Z; ov_state := Failed; ov_assignable := true; ov_parents_complete := true |} /\
  op_to_dict {| ot_id := 5%Z; ot_state := Failed; ot_parent_states := [Completed; Completed]; ot_needs := [] |}
  = {| ov_id := 5%Z; ov_state := Failed; ov_assignable := true; ov_parents_complete := true |}.
Proof. vm_compute. split; reflexivity. Qed.

(* schema note: of the three values whose Python attribute defaults to None, two are pointers in
   go/eudoxia/types.go; ExecutionResult.container_id is a plain string there (the pool always sets it; the
   monitor checks that no recorded result carries a null container_id) *)
Example C19_go_nullable_gap :
  filter (fun k => negb (existsb (fun g => (String.eqb (fst k) (fst g) && String.eqb (snd k) (snd g))%bool)
                                 go_pointer_keys)) nullable_keys
  = [("ExecutionResult", "container_id")]%string.
Proof. vm_compute. reflexivity. Qed.
