(* C16 priority-pool keeps batch work and latency-sensitive work on separate pools.
   Statements only; every proof is [exact <lemma of Proofs/PriorityPoolFacts.v>]. Per scheduling round of
   the model of eudoxia/scheduler/priority_pool.py ([priority_pool_step]), from every scheduler state,
   executor state, result list and arrival list; [pp_reach C s]: s is reachable from the initial
   scheduler state by rounds. *)
From Coq Require Import List ZArith QArith.
Import ListNotations.
From Eudoxia Require Import Model.Types Model.Lifecycle Model.Container Model.Pool Model.Executor Model.Sched
  Proofs.PriorityPoolFacts.
Close Scope Q_scope.
Close Scope Z_scope.

(* the scheduler never suspends anything *)
Theorem C16_never_suspends : forall C s e results newp s' w' susps asgs,
  priority_pool_step C s e results newp = Ok (s', w', susps, asgs) -> susps = [].
Proof. exact pp_never_suspends. Qed.
Print Assumptions C16_never_suspends.

(* every container of a query or interactive pipeline goes to pool 0, of a batch pipeline to pool 1 —
   first attempts, retries and resumed work alike, in every round of every run *)
Theorem C16_pool_by_class : forall C s e results newp s' w' susps asgs a,
  pp_reach C s -> priority_pool_step C s e results newp = Ok (s', w', susps, asgs) -> In a asgs ->
  (a_prio a = Query \/ a_prio a = Interactive -> a_pool a = 0%Z) /\ (a_prio a = Batch -> a_pool a = 1%Z).
Proof. exact pp_pool_by_class_reach. Qed.
Print Assumptions C16_pool_by_class.

(* after an OOM failure exactly one job is queued per failed result: the unfinished operators of that
   container, in order, under the container's priority, with its sizes; one assignment = one whole job *)
Theorem C16_retry_unfinished_together : forall C s e results newp s' w' susps asgs,
  priority_pool_step C s e results newp = Ok (s', w', susps, asgs) ->
  (forall r, In r results -> r_err r = true -> not_completed_ops (e_world e) (r_ops r) <> []) /\
  exists lq n,
    (forall p, queue_of s' p =
       skipn (n p) (queue_of s p ++ filter (is_class p) (map (new_job C) newp)
                    ++ filter (is_class p) (map (fail_job C (e_world e)) (filter r_err results))
                    ++ filter (is_class p) lq)) /\
    (forall a, In a asgs ->
       exists p j, In j (firstn (n p) (pp_pre C s e results newp lq p)) /\
                   a_ops a = j_ops j /\ a_prio a = j_prio j).
Proof. exact pp_retry_unfinished_together. Qed.
Print Assumptions C16_retry_unfinished_together.

Theorem C16_fail_job_fields : forall C w r,
  j_ops (fail_job C w r) = not_completed_ops w (r_ops r) /\
  j_prio (fail_job C w r) = r_prio r /\
  j_retry (fail_job C w r) = Some (retry_of_result r).
Proof. exact fail_job_fields. Qed.
Print Assumptions C16_fail_job_fields.

(* a retry whose doubled request reaches half of the pool is abandoned: scanned, removed, counted, not assigned *)
Theorem C16_retry_cutoff : forall C w pid x j rest oom rs,
  pp_dead x = false -> j_retry j = Some rs -> rt_err rs = true ->
  over_half C x (2 * rt_cpu rs)%Z (2 * rt_ram rs)%Q = true ->
  pp_scan C w pid x (j :: rest) oom = bump_n (pp_scan C w pid x rest (oom + 1)%Z) None.
Proof. exact pp_retry_cutoff. Qed.
Print Assumptions C16_retry_cutoff.

(* "reaches half of the pool", in exact arithmetic *)
Theorem C16_over_half_exact : forall C x cpu ram,
  (forall q, cf_rnd C q == q)%Q -> (0 < ps_tcpu x)%Z -> (0 < ps_tram x)%Q ->
  over_half C x cpu ram = true <-> (ps_tcpu x <= 2 * cpu)%Z \/ (ps_tram x <= 2 * ram)%Q.
Proof. exact over_half_exact_pos. Qed.
Print Assumptions C16_over_half_exact.

(* otherwise it is assigned the doubled request, or everything that is free *)
Theorem C16_retry_assigned : forall C w pid x j rest oom rs,
  pp_dead x = false -> j_retry j = Some rs -> rt_err rs = true ->
  over_half C x (2 * rt_cpu rs)%Z (2 * rt_ram rs)%Q = false ->
  let req := if (ps_acpu x <=? 2 * rt_cpu rs)%Z || Qleb (ps_aram x) (2 * rt_ram rs)%Q
             then (ps_acpu x, ps_aram x) else ((2 * rt_cpu rs)%Z, (2 * rt_ram rs)%Q) in
  let a := mk_asg j pid (fst req) (snd req) in
  pp_scan C w pid x (j :: rest) oom =
  (do w' <- mk_assignment C w a;
   bump_n (pp_scan C w' pid (ps_take x (fst req) (snd req)) rest oom) (Some a)).
Proof. exact pp_retry_assigned. Qed.
Print Assumptions C16_retry_assigned.

(* the scheduler's internal assertion (free RAM and free CPU reach zero together) cannot fire *)
Theorem C16_no_internal_assertion : forall C s e results newp,
  (forall r, In r results -> r_err r = true -> not_completed_ops (e_world e) (r_ops r) <> []) ->
  (forall p c, In p (e_pools e) -> In c (p_suspending p) ->
               not_completed_ops (e_world e) (c_ops c) <> []) ->
  both_or_none (nth 0 (snapshot e) dummy_stat) -> both_or_none (nth 1 (snapshot e) dummy_stat) ->
  priority_pool_step C s e results newp <> Err ESchedAssert.
Proof. exact pp_step_no_assert. Qed.
Print Assumptions C16_no_internal_assertion.

(* the shared pool (C12): interactive work only if no query job waits; a job waits only if its pool is used up *)
Theorem C16_shared_pool_order : forall C s e results newp s' w' susps asgs,
  priority_pool_step C s e results newp = Ok (s', w', susps, asgs) ->
  let x0 := nth 0 (snapshot e) dummy_stat in
  let x1 := nth 1 (snapshot e) dummy_stat in
  let on k := filter (fun a => (a_pool a =? k)%Z) asgs in
  (class_ok s -> ss_q s' <> [] -> forall a, In a asgs -> a_prio a <> Interactive) /\
  (ss_q s' <> [] \/ ss_i s' <> [] ->
     (ps_acpu x0 - sumZ (map a_cpu (on 0%Z)) = 0)%Z /\ (ps_aram x0 - sumQ (map a_ram (on 0%Z)) == 0)%Q) /\
  (ss_b s' <> [] ->
     (ps_acpu x1 - sumZ (map a_cpu (on 1%Z)) = 0)%Z /\ (ps_aram x1 - sumQ (map a_ram (on 1%Z)) == 0)%Q).
Proof. exact pp_shared_pool_order. Qed.
Print Assumptions C16_shared_pool_order.

(* non-vacuity *)
Example C16_witness : forall C, pp_reach C init_sstate.
Proof. intros. constructor. Qed.
