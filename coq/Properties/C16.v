(* C16: theorem statements are added when the corresponding Proofs file is merged. *)
From Coq Require Import List ZArith QArith.
From Eudoxia Require Import Model.Sched.
Example C16_placeholder : ss_queue init_sstate = nil.
Proof. reflexivity. Qed.
Print Assumptions C16_placeholder.
