(* C16 priority-pool keeps batch work and latency-sensitive work on separate pools.
   Statements only; every proof is [exact <lemma of Proofs/PriorityPoolFacts.v>]. Per scheduling round of
   the model of eudoxia/scheduler/priority_pool.py ([priority_pool_step]), from every scheduler state,
   executor state, result list and arrival list; [pp_reach C s]: s is reachable from the initial
   scheduler state by rounds. *)
From Coq Require Import List ZArith QArith.
Import ListNotations.
From Eudoxia Require Import Model.Types Model.Lifecycle Model.Container Model.Pool Model.Executor Model.Sched
  Model.Simulator Proofs.PriorityPoolFacts Proofs.PriorityPoolRunFacts Proofs.PriorityPoolClassFacts
  Proofs.SimMainFacts.
Close Scope Q_scope.
Close Scope Z_scope.

(* the scheduler never suspends anything *)
Theorem C16_never_suspends : forall C s e results newp s' w' susps asgs,
  priority_pool_step C s e results newp = Ok (s', w', susps, asgs) -> susps = [].
Proof. exact pp_never_suspends. Qed.
Print Assumptions C16_never_suspends.

(* every container of a query or interactive pipeline goes to pool 0, of a batch pipeline to pool 1 —
   first attempts, retries and resumed work alike, in every round of every run *)
Theorem C16_pool_by_class : forall C s e results newp s' w' susps asgs a,
  pp_reach C s -> priority_pool_step C s e results newp = Ok (s', w', susps, asgs) -> In a asgs ->
  (a_prio a = Query \/ a_prio a = Interactive -> a_pool a = 0%Z) /\ (a_prio a = Batch -> a_pool a = 1%Z).
Proof. exact pp_pool_by_class_reach. Qed.
Print Assumptions C16_pool_by_class.

(* after an OOM failure exactly one job is queued per failed result: the unfinished operators of that
   container, in order, under the container's priority, with its sizes; one assignment = one whole job *)
Theorem C16_retry_unfinished_together : forall C s e results newp s' w' susps asgs,
  priority_pool_step C s e results newp = Ok (s', w', susps, asgs) ->
  (forall r, In r results -> r_err r = true -> not_completed_ops (e_world e) (r_ops r) <> []) /\
  exists lq n,
    (forall p, queue_of s' p =
       skipn (n p) (queue_of s p ++ filter (is_class p) (map (new_job C) newp)
                    ++ filter (is_class p) (map (fail_job C (e_world e)) (filter r_err results))
                    ++ filter (is_class p) lq)) /\
    (forall a, In a asgs ->
       exists p j, In j (firstn (n p) (pp_pre C s e results newp lq p)) /\
                   a_ops a = j_ops j /\ a_prio a = j_prio j).
Proof. exact pp_retry_unfinished_together. Qed.
Print Assumptions C16_retry_unfinished_together.

Theorem C16_fail_job_fields : forall C w r,
  j_ops (fail_job C w r) = not_completed_ops w (r_ops r) /\
  j_prio (fail_job C w r) = r_prio r /\
  j_retry (fail_job C w r) = Some (retry_of_result r).
Proof. exact fail_job_fields. Qed.
Print Assumptions C16_fail_job_fields.

(* a retry whose doubled request reaches half of the pool is abandoned: scanned, removed, counted, not assigned *)
Theorem C16_retry_cutoff : forall C w pid x j rest oom rs,
  pp_dead x = false -> j_retry j = Some rs -> rt_err rs = true ->
  over_half C x (2 * rt_cpu rs)%Z (2 * rt_ram rs)%Q = true ->
  pp_scan C w pid x (j :: rest) oom = bump_n (pp_scan C w pid x rest (oom + 1)%Z) None.
Proof. exact pp_retry_cutoff. Qed.
Print Assumptions C16_retry_cutoff.

(* "reaches half of the pool", in exact arithmetic *)
Theorem C16_over_half_exact : forall C x cpu ram,
  (forall q, cf_rnd C q == q)%Q -> (0 < ps_tcpu x)%Z -> (0 < ps_tram x)%Q ->
  over_half C x cpu ram = true <-> (ps_tcpu x <= 2 * cpu)%Z \/ (ps_tram x <= 2 * ram)%Q.
Proof. exact over_half_exact_pos. Qed.
Print Assumptions C16_over_half_exact.

(* otherwise it is assigned the doubled request, or everything that is free *)
Theorem C16_retry_assigned : forall C w pid x j rest oom rs,
  pp_dead x = false -> j_retry j = Some rs -> rt_err rs = true ->
  over_half C x (2 * rt_cpu rs)%Z (2 * rt_ram rs)%Q = false ->
  let req := if (ps_acpu x <=? 2 * rt_cpu rs)%Z || Qleb (ps_aram x) (2 * rt_ram rs)%Q
             then (ps_acpu x, ps_aram x) else ((2 * rt_cpu rs)%Z, (2 * rt_ram rs)%Q) in
  let a := mk_asg j pid (fst req) (snd req) in
  pp_scan C w pid x (j :: rest) oom =
  (do w' <- mk_assignment C w a;
   bump_n (pp_scan C w' pid (ps_take x (fst req) (snd req)) rest oom) (Some a)).
Proof. exact pp_retry_assigned. Qed.
Print Assumptions C16_retry_assigned.

(* the scheduler's internal assertion (free RAM and free CPU reach zero together) cannot fire *)
Theorem C16_no_internal_assertion : forall C s e results newp,
  (forall r, In r results -> r_err r = true -> not_completed_ops (e_world e) (r_ops r) <> []) ->
  (forall p c, In p (e_pools e) -> In c (p_suspending p) ->
               not_completed_ops (e_world e) (c_ops c) <> []) ->
  both_or_none (nth 0 (snapshot e) dummy_stat) -> both_or_none (nth 1 (snapshot e) dummy_stat) ->
  priority_pool_step C s e results newp <> Err ESchedAssert.
Proof. exact pp_step_no_assert. Qed.
Print Assumptions C16_no_internal_assertion.

(* the shared pool (C12): interactive work only if no query job waits; a job waits only if its pool is used up *)
Theorem C16_shared_pool_order : forall C s e results newp s' w' susps asgs,
  priority_pool_step C s e results newp = Ok (s', w', susps, asgs) ->
  let x0 := nth 0 (snapshot e) dummy_stat in
  let x1 := nth 1 (snapshot e) dummy_stat in
  let on k := filter (fun a => (a_pool a =? k)%Z) asgs in
  (class_ok s -> ss_q s' <> [] -> forall a, In a asgs -> a_prio a <> Interactive) /\
  (ss_q s' <> [] \/ ss_i s' <> [] ->
     (ps_acpu x0 - sumZ (map a_cpu (on 0%Z)) = 0)%Z /\ (ps_aram x0 - sumQ (map a_ram (on 0%Z)) == 0)%Q) /\
  (ss_b s' <> [] ->
     (ps_acpu x1 - sumZ (map a_cpu (on 1%Z)) = 0)%Z /\ (ps_aram x1 - sumQ (map a_ram (on 1%Z)) == 0)%Q).
Proof. exact pp_shared_pool_order. Qed.
Print Assumptions C16_shared_pool_order.

(* non-vacuity *)
Example C16_witness : forall C, pp_reach C init_sstate.
Proof. intros. constructor. Qed.

(* ---- run level (Proofs/PriorityPoolRunFacts.v): the simulator loop drives priority-pool (multi-operator
   containers, positive pool sizes, arriving pipelines have at least one operator). [sf] is the state a run
   has reached, normally or at the tick that raised; every state the loop passes through is the [sf] of the
   run over a prefix of the arrival batches. In every such state the hypotheses of C16_no_internal_assertion
   hold: a failed result still has an unfinished operator, no container is suspending or suspended (C16
   never suspends), every pool's free CPU and free RAM are non-negative and reach zero together; hence the
   scheduler's internal assertion cannot fire in the next round, whatever arrives. *)
Theorem C16_no_internal_assertion_run : forall C np cpu ram arrivals sf logs oe,
  cf_multi C = true -> (0 < cpu)%Z -> (0 < ram)%Q ->
  (forall k, In k (concat arrivals) -> pd_order (pipe_of (cf_static C) k) <> []) ->
  sim_run C APriorityPool 0%Z (init_sim C np cpu ram) arrivals = (sf, logs, oe) ->
  let e := sm_exec sf in
  (forall r, In r (sm_results sf) -> r_err r = true -> not_completed_ops (e_world e) (r_ops r) <> []) /\
  (forall p, In p (e_pools e) -> p_suspending p = [] /\ p_suspended p = []) /\
  (forall i, both_or_none (nth i (snapshot e) dummy_stat) /\
             (0 <= ps_acpu (nth i (snapshot e) dummy_stat))%Z /\
             (0 <= ps_aram (nth i (snapshot e) dummy_stat))%Q) /\
  (forall newp, priority_pool_step C (sm_sched sf) e (sm_results sf) newp <> Err ESchedAssert).
Proof. exact pp_run_snapshot. Qed.
Print Assumptions C16_no_internal_assertion_run.

(* one tick from a state satisfying the invariant [pp_inv np s] (pool ids 0..np-1; in every pool: nothing
   suspending or suspended, active containers unfinished with positive sizes and an operator left, free CPU and
   free RAM non-negative and zero together; results with positive sizes, failed ones still owning a FAILED
   operator; queued jobs with operators and positive retry sizes): the invariant again, or an error raised
   inside a container tick / by an ASSIGNED request on an operator that is not assignable *)
Theorem C16_tick_invariant : forall C, cf_multi C = true -> forall np t s newp,
  pp_inv np s -> (forall k, In k newp -> pd_order (pipe_of (cf_static C) k) <> []) ->
  match sim_tick C APriorityPool t s newp with
  | Ok (s', _) => pp_inv np s'
  | Err er => SafetyFacts.inner_err er
  end.
Proof. exact pp_tick_step. Qed.
Print Assumptions C16_tick_invariant.

(* the closed loop (C08_priority_pool_runs_to_end): with well-formed static data the run never stops early, so
   the invariant above holds after every tick of every such workload.
   NOTE: a statement about the loop [sim_run] for every pool count [np]; the code only starts with two pools
   (`assert s.executor.num_pools == 2`, priority_pool.py:20): see C16_main_runs_to_end and
   C16_main_refuses_other_pool_counts below for the entry point [sim_main]. The same remark applies to
   C16_no_internal_assertion_run and C16_tick_invariant. *)
Theorem C16_runs_to_end : forall C l np cpu ram arrivals,
  cf_static C = mk_static l -> ExecLifeFacts.dags_wf l ->
  (forall op c, cf_script C op c <> []) -> cf_multi C = true ->
  (0 < cpu)%Z -> (0 < ram)%Q ->
  (forall k, In k (concat arrivals) -> pd_order (pipe_of (cf_static C) k) <> []) ->
  NoDup (concat arrivals) ->
  exists sf logs,
    sim_run C APriorityPool 0%Z (init_sim C np cpu ram) arrivals = (sf, logs, None) /\
    length logs = length arrivals.
Proof. exact pp_runs_to_end. Qed.
Print Assumptions C16_runs_to_end.

(* non-vacuity at run level: a retry after an OOM kill really happens. One query pipeline whose operator needs
   2 GB; the first container gets 1 CPU / 1 GB and is killed in tick 0, the retry gets 2 CPUs / 2 GB in tick 1
   and completes; the run reaches its end *)
Example C16_retry_after_oom_run :
  let '(sf, logs, oe) := sim_run RunExamples.C1 APriorityPool 0%Z (init_sim RunExamples.C1 2 10%Z 10%Q)
                                 [[0]; []; []; []] in
  oe = None /\ sm_nfail sf = 1%Z /\ sm_nasg sf = 2%Z /\
  map p_num_completed (e_pools (sm_exec sf)) = [1%Z; 0%Z] /\
  map (fun lg => (map (fun a => (a_ops a, a_cpu a, a_ram a, a_pool a)) (tl_asgs lg),
                  map (fun r => (r_ops r, r_err r)) (tl_results lg), tl_finished lg)) logs
  = [([([0], 1%Z, 1%Q, 0%Z)], [([0], true)], []);
     ([([0], 2%Z, 2%Q, 0%Z)], [([0], false)], [0]); ([], [], []); ([], [], [])].
Proof. exact RunExamples.ex_retry_after_oom. Qed.

(* the hypothesis on the pool sizes is needed: pools with RAM but no CPU, or CPUs but no RAM, are not
   both-or-none and the internal assertion fires at the first arrival *)
Example C16_degenerate_pool_refuted :
  snd (sim_run RunExamples.C1 APriorityPool 0%Z (init_sim RunExamples.C1 2 0%Z 10%Q) [[0]; []; []])
    = Some ESchedAssert /\
  snd (sim_run RunExamples.C1 APriorityPool 0%Z (init_sim RunExamples.C1 2 10%Z 0%Q) [[0]; []; []])
    = Some ESchedAssert /\
  snd (sim_run RunExamples.C1 APriorityPool 0%Z (init_sim RunExamples.C1 2 10%Z (-(1))%Q) [[0]; []; []])
    = Some EBadAssignArgs.
Proof. exact RunExamples.degenerate_pool_refuted. Qed.

(* ------------------------------------------------------------------------------------------ *)
(* the entry point [sim_main] (Model/Simulator.v): run_simulator from the construction of the scheduler on.   *)
(* Audit B/P2: init_priority_pool_scheduler asserts `s.executor.num_pools == 2`.                               *)
(* ------------------------------------------------------------------------------------------ *)

(* with any other pool count the run does not start: the assertion of the scheduler's init fires before the
   first tick *)
Theorem C16_main_refuses_other_pool_counts : forall C np cpu ram arrivals,
  np <> 2 -> sim_main C APriorityPool np cpu ram arrivals = (init_sim C np cpu ram, [], Some ESchedAssert).
Proof. exact sim_main_refuses_other_pool_counts. Qed.
Print Assumptions C16_main_refuses_other_pool_counts.

(* with two pools of positive size the entry point is the loop ... *)
Theorem C16_main_is_loop : forall C a np cpu ram arrivals,
  (a = APriorityPool -> np = 2) -> 0 < np -> (0 < ram)%Q ->
  sim_main C a np cpu ram arrivals = sim_run C a 0%Z (init_sim C np cpu ram) arrivals.
Proof. exact sim_main_is_sim_run. Qed.
Print Assumptions C16_main_is_loop.

(* ... and the closed loop of C16_runs_to_end, for the configuration the code accepts *)
Theorem C16_main_runs_to_end : forall C l cpu ram arrivals,
  cf_static C = mk_static l -> ExecLifeFacts.dags_wf l ->
  (forall op c, cf_script C op c <> []) -> cf_multi C = true ->
  (0 < cpu)%Z -> (0 < ram)%Q ->
  (forall k, In k (concat arrivals) -> pd_order (pipe_of (cf_static C) k) <> []) ->
  NoDup (concat arrivals) ->
  exists sf logs,
    sim_main C APriorityPool 2 cpu ram arrivals = (sf, logs, None) /\ length logs = length arrivals.
Proof. exact pp_main_runs_to_end. Qed.
Print Assumptions C16_main_runs_to_end.

(* non-vacuity: two pools run (and the theorem applies, any number of ticks); one or three pools are refused,
   although the loop alone would run *)
Example C16_main_two_pools_run : forall n,
  exists sf logs,
    sim_main RunExamples.C1 APriorityPool 2 10%Z 10%Q ([0] :: repeat [] n) = (sf, logs, None) /\ length logs = S n.
Proof. exact MainExamples.ex_pp_main_applies. Qed.

Example C16_main_refuses_one_and_three :
  sim_main RunExamples.C1 APriorityPool 1 10%Z 10%Q MainExamples.arr1
    = (init_sim RunExamples.C1 1 10%Z 10%Q, [], Some ESchedAssert) /\
  sim_main RunExamples.C1 APriorityPool 3 10%Z 10%Q MainExamples.arr1
    = (init_sim RunExamples.C1 3 10%Z 10%Q, [], Some ESchedAssert) /\
  snd (sim_run RunExamples.C1 APriorityPool 0%Z (init_sim RunExamples.C1 1 10%Z 10%Q) MainExamples.arr1) = None.
Proof. exact MainExamples.ex_main_refuses_one_and_three. Qed.

(* ------------------------------------------------------------------------------------------ *)
(* isolation by the class of the PIPELINE (Proofs/PriorityPoolClassFacts.v). Audit B/P1: C16_pool_by_class    *)
(* speaks of the priority tag of the assignment; per round the results are arbitrary, so the tag need not be   *)
(* the pipeline's priority (C16_per_round_tag_is_free below). In a run it is: the tag is copied pipeline ->    *)
(* job -> assignment -> container -> result -> retry job. [op_class C o] is the priority of the pipeline of    *)
(* operator o; [ops_belong C]: the operators listed for pipeline k are operators of pipeline k (true of        *)
(* [mk_static] with well-formed DAGs, C16_ops_belong_mk_static). No hypothesis on pool sizes, container mode,  *)
(* scripts or workload; the run may stop with an error (the statement covers the ticks it completed).          *)
(* ------------------------------------------------------------------------------------------ *)

Theorem C16_ops_belong_mk_static : forall C l,
  cf_static C = mk_static l -> ExecLifeFacts.dags_wf l -> ops_belong C.
Proof. exact ops_belong_mk_static. Qed.
Print Assumptions C16_ops_belong_mk_static.

(* every assignment of every tick: its tag is the priority of the pipeline of each of its operators, and it
   goes to pool 0 if that pipeline is a query or interactive pipeline, to pool 1 if it is a batch pipeline --
   first attempts and retries alike *)
Theorem C16_run_pool_by_pipeline_class : forall C cpu ram arrivals sf logs oe,
  ops_belong C ->
  sim_run C APriorityPool 0%Z (init_sim C 2 cpu ram) arrivals = (sf, logs, oe) ->
  forall lg a o, In lg logs -> In a (tl_asgs lg) -> In o (a_ops a) ->
    a_prio a = op_class C o /\
    (op_class C o = Query \/ op_class C o = Interactive -> a_pool a = 0%Z) /\
    (op_class C o = Batch -> a_pool a = 1%Z).
Proof. exact pp_run_pool_by_pipeline_class_2. Qed.
Print Assumptions C16_run_pool_by_pipeline_class.

(* the same for every pool count of the loop *)
Theorem C16_run_pool_by_pipeline_class_any_np : forall C np cpu ram arrivals sf logs oe,
  ops_belong C ->
  sim_run C APriorityPool 0%Z (init_sim C np cpu ram) arrivals = (sf, logs, oe) ->
  forall lg a o, In lg logs -> In a (tl_asgs lg) -> In o (a_ops a) ->
    a_prio a = op_class C o /\
    (op_class C o = Query \/ op_class C o = Interactive -> a_pool a = 0%Z) /\
    (op_class C o = Batch -> a_pool a = 1%Z).
Proof. exact pp_run_pool_by_pipeline_class. Qed.
Print Assumptions C16_run_pool_by_pipeline_class_any_np.

(* every reachable state: nothing is suspending or suspended, so the active containers are all the containers;
   each lives in the pool of its pipeline's class; queued jobs sit in the queue of their pipeline's class; the
   results of the last tick carry their pipeline's class *)
Theorem C16_reach_containers_by_pipeline_class : forall C np cpu ram t s,
  ops_belong C -> sim_reach C APriorityPool 0%Z (init_sim C np cpu ram) t s ->
  (forall p, In p (e_pools (sm_exec s)) -> p_suspending p = [] /\ p_suspended p = []) /\
  (forall p c o, In p (e_pools (sm_exec s)) -> In c (p_active p) -> In o (c_ops c) ->
     c_prio c = op_class C o /\
     (op_class C o = Query \/ op_class C o = Interactive -> p_id p = 0) /\
     (op_class C o = Batch -> p_id p = 1)) /\
  (forall pr j o, In j (queue_of (sm_sched s) pr) -> In o (j_ops j) -> j_prio j = pr /\ pr = op_class C o) /\
  (forall r o, In r (sm_results s) -> In o (r_ops r) -> r_prio r = op_class C o).
Proof. exact pp_reach_containers_by_pipeline_class. Qed.
Print Assumptions C16_reach_containers_by_pipeline_class.

(* one tick from a state satisfying the class invariant: the invariant again, and tagged assignments *)
Theorem C16_class_tick_invariant : forall C t s newp s' lg,
  ops_belong C -> cls_inv C s -> sim_tick C APriorityPool t s newp = Ok (s', lg) ->
  cls_inv C s' /\ (forall a, In a (tl_asgs lg) -> atag C a).
Proof. exact cls_tick. Qed.
Print Assumptions C16_class_tick_invariant.

(* non-vacuity: a run with all three classes and an OOM retry. Pipeline 0: Query [0]; pipeline 1: Batch, chain
   1 -> 2; pipeline 2: Interactive [3]; two pools of 10 CPUs / 10 GB. The batch container is killed in tick 0 and
   retried with doubled sizes in tick 1, on pool 1 again *)
Example C16_three_classes_and_a_retry :
  sim_run ClassExamples.C3 APriorityPool 0%Z (init_sim ClassExamples.C3 2 10%Z 10%Q) ClassExamples.arr3
    = (ClassExamples.sf3, ClassExamples.logs3, None) /\
  map (fun lg => (map (fun a => (a_ops a, a_prio a, a_pool a)) (tl_asgs lg),
                  map (fun r => (r_ops r, r_prio r, r_err r)) (tl_results lg))) ClassExamples.logs3
  = [ ([([0], Query, 0%Z); ([1; 2], Batch, 1%Z)], [([0], Query, false); ([1; 2], Batch, true)]);
      ([([3], Interactive, 0%Z); ([1; 2], Batch, 1%Z)], [([3], Interactive, false)]);
      ([], [([1; 2], Batch, false)]);
      ([], []);
      ([], []) ] /\
  map (op_class ClassExamples.C3) [0; 1; 2; 3] = [Query; Batch; Batch; Interactive] /\
  ops_belong ClassExamples.C3.
Proof.
  exact (conj ClassExamples.ex_run3 (conj (proj1 ClassExamples.ex_three_classes_and_a_retry)
          (conj (proj2 ClassExamples.ex_three_classes_and_a_retry) ClassExamples.C3_belong))).
Qed.

(* the gap the run-level theorem closes: per round, a failed result tagged Query that carries the operators of the
   Batch pipeline is retried on pool 0 (such a result never occurs in a run) *)
Example C16_per_round_tag_is_free :
  match priority_pool_step ClassExamples.C3 init_sstate ClassExamples.eF [ClassExamples.rBad] [] with
  | Ok (_, _, _, asgs) => map (fun a => (a_ops a, a_prio a, a_pool a)) asgs
  | Err _ => []
  end = [([1; 2], Query, 0%Z)] /\ op_class ClassExamples.C3 1 = Batch /\ ~ rtag ClassExamples.C3 ClassExamples.rBad.
Proof. exact ClassExamples.ex_per_round_tag_is_free. Qed.
