(* C06: theorem statements are added when the corresponding Proofs file is merged. *)
From Coq Require Import List ZArith QArith.
From Eudoxia Require Import Model.Simulator.
Example C06_placeholder : percentile99 nil = None.
Proof. reflexivity. Qed.
Print Assumptions C06_placeholder.
