(* C06 Completion, latency and returned statistics match an independent recount.
   Statements only; every proof is [exact <lemma of Proofs/StatsFacts.v>]. [sim_run] is the loop of
   run_simulator (Model/Simulator.v); the recount functions [rc_*] (Proofs/StatsFacts.v) read only the
   event log (per tick: arrivals, decisions, results, pipelines recorded as finished). *)
From Coq Require Import List ZArith QArith Permutation.
Import ListNotations.
From Eudoxia Require Import Proofs.PriorityPoolRunFacts Proofs.SimReachFacts Proofs.AuditExamplesA.
From Eudoxia Require Import Model.Types Model.Lifecycle Model.Container Model.Pool Model.Executor Model.Sched
  Model.Simulator Proofs.ContainerRunFacts Proofs.ExecLifeFacts Proofs.StatsFacts.
Close Scope Q_scope.
Close Scope Z_scope.

(* the statistics a run returns equal the recount of that run: every counter, throughput, and per class the
   arrivals, completions and the latency lists over which mean and p99 are taken *)
Theorem C06_stats_refine : forall C a np cpu ram arrivals s logs,
  sim_run C a 0%Z (init_sim C np cpu ram) arrivals = (s, logs, None) ->
  forall dur : Q,
  let st := final_stats C dur s in
  let tps := cf_tps C in
  length logs = length arrivals /\
  st_created st = rc_arrivals C logs None /\
  st_completed st = rc_completed_containers logs /\
  st_throughput st = (inject_Z (rc_completed_containers logs) / dur)%Q /\
  st_assignments st = rc_assignments logs /\
  st_suspensions st = rc_suspensions logs /\
  st_failures st = rc_failures logs /\
  st_all st = pipeline_stats tps (rc_arrivals C logs None)
                (rc_latencies C logs (Some Query) ++ rc_latencies C logs (Some Interactive)
                 ++ rc_latencies C logs (Some Batch)) /\
  st_query st = pipeline_stats tps (rc_arrivals C logs (Some Query)) (rc_latencies C logs (Some Query)) /\
  st_interactive st = pipeline_stats tps (rc_arrivals C logs (Some Interactive))
                        (rc_latencies C logs (Some Interactive)) /\
  st_batch st = pipeline_stats tps (rc_arrivals C logs (Some Batch)) (rc_latencies C logs (Some Batch)).
Proof. exact stats_refine. Qed.
Print Assumptions C06_stats_refine.

Theorem C06_stats_all_recount : forall C a np cpu ram arrivals s logs dur,
  sim_run C a 0%Z (init_sim C np cpu ram) arrivals = (s, logs, None) ->
  st_all (final_stats C dur s)
    = pipeline_stats (cf_tps C) (rc_arrivals C logs None) (rc_latencies C logs None).
Proof. exact stats_all_recount. Qed.
Print Assumptions C06_stats_all_recount.

(* arrivals and completions per priority partition the totals *)
Theorem C06_class_partition : forall C dur s,
  let st := final_stats C dur s in
  pst_arrivals (st_all st)
    = (pst_arrivals (st_query st) + pst_arrivals (st_interactive st) + pst_arrivals (st_batch st))%Z /\
  pst_completions (st_all st)
    = (pst_completions (st_query st) + pst_completions (st_interactive st)
       + pst_completions (st_batch st))%Z /\
  Permutation (lat_of s Query ++ lat_of s Interactive ++ lat_of s Batch) (map snd (sm_lat s)).
Proof. exact class_partition. Qed.
Print Assumptions C06_class_partition.

(* a pipeline is counted as completed at most once, at or after its arrival *)
Theorem C06_completed_once : forall C a np cpu ram arrivals s logs,
  sim_run C a 0%Z (init_sim C np cpu ram) arrivals = (s, logs, None) ->
  NoDup (concat (map tl_finished logs)) /\
  NoDup (rc_arrived logs) /\
  (forall p tf, In (p, tf) (rc_finished logs) ->
     In p (rc_arrived logs) /\ (0 <= rc_arrival_tick logs p <= tf)%Z).
Proof. exact completed_once. Qed.
Print Assumptions C06_completed_once.

(* ... only when it is successful, and then it leaves the outstanding set; nothing successful stays
   outstanding in a tick with results *)
Theorem C06_finished_is_successful : forall C a arrivals t s,
  Forall (fun sl =>
            (forall p, In p (tl_finished (snd sl)) ->
               is_successful (cf_static C) (e_world (sm_exec (fst sl))) p = true /\
               tl_results (snd sl) <> [] /\ ~ In p (sm_outstanding (fst sl))) /\
            (forall p, In p (sm_outstanding (fst sl)) -> tl_results (snd sl) <> [] ->
               is_successful (cf_static C) (e_world (sm_exec (fst sl))) p = false))
         (sim_trace C a t s arrivals).
Proof. exact finished_is_successful. Qed.
Print Assumptions C06_finished_is_successful.

(* never while any operator is unfinished (given that state_counts is the histogram of operator states) *)
Theorem C06_never_while_unfinished : forall S w k,
  counts_ok S w k ->
  (is_successful S w k = true <-> forall o, In o (pd_order (pipe_of S k)) -> st_of w o = Completed).
Proof. exact never_while_unfinished. Qed.
Print Assumptions C06_never_while_unfinished.

(* in the tick in which its last operator completes: if every live container holds operators of a single
   pipeline (true of all shipped schedulers), a pipeline that becomes successful in a tick is recorded by
   the sweep of that very tick (the `if executor_results:` guard never delays it). For containers that mix
   pipelines (custom schedulers only) this is refuted: StatsFacts.Examples.late_finish_refuted. *)
Theorem C06_finish_tick_has_result : forall C a t s newp s1 lg p ss' w',
  sim_tick C a t s newp = Ok (s1, lg) ->
  sched_step C a (sm_sched s) (sm_exec s) (sm_results s) newp = Ok (ss', w', tl_susp lg, tl_asgs lg) ->
  counts_ok (cf_static C) w' p -> counts_ok (cf_static C) (e_world (sm_exec s1)) p ->
  (forall q c, In q (e_pools (sm_exec s1)) -> In c (p_active q) -> mono_container (cf_static C) c) ->
  allbusy (e_world (sm_exec s1)) (sown (sm_exec s1)) ->
  is_successful (cf_static C) w' p = false ->
  is_successful (cf_static C) (e_world (sm_exec s1)) p = true ->
  In p (sm_outstanding s) \/ In p newp ->
  tl_results lg <> [] /\ In p (tl_finished lg).
Proof. exact finish_tick_has_result. Qed.
Print Assumptions C06_finish_tick_has_result.

(* an uncontended pipeline with enough memory finishes in exactly the ticks its operators need: a pool whose
   only container is fresh reports the success result in exactly the total-th tick and nothing before *)
Theorem C06_uncontended_latency : forall C id ops cpu ram pr w0 p0 next,
  (forall x, (cf_rnd C x == x)%Q) ->
  p_active p0 = [new_container id ops cpu ram pr] ->
  p_suspending p0 = [] ->
  (forall o, In o ops -> st_of w0 o = Assigned) ->
  NoDup ops ->
  (forall o, In o ops -> o < length (w_st w0)) ->
  (forall k, k < length ops -> forall p, In p (op_parents (cf_static C) (nth k ops 0)) ->
     st_of w0 p = Completed \/ exists i, i < k /\ nth i ops 0 = p) ->
  (forall k, k < length ops -> scr C ops cpu k <> []) ->
  all_fit C ops cpu ram ->
  0 < length ops ->
  (0 <= ram)%Q ->
  (p_consumed p0 + ram <= p_max_ram p0)%Q ->
  exists w p r,
    pool_quiet_run C (total C ops cpu) w0 next p0
      = Ok (w, next, p, repeat [] (total C ops cpu - 1) ++ [[r]]) /\
    r_err r = false /\ r_cid r = id /\ r_ops r = ops /\ r_cpu r = cpu /\ r_ram r = ram /\
    r_prio r = pr /\ r_pool r = p_id p0 /\
    p_active p = [] /\ p_suspending p = [] /\
    (forall i, i < length ops -> st_of w (nth i ops 0) = Completed).
Proof. exact uncontended_latency. Qed.
Print Assumptions C06_uncontended_latency.

(* The hypothesis [counts_ok] of C06_never_while_unfinished and C06_finish_tick_has_result is a theorem:
   [state_counts] is the histogram of the operator states in every executor state reachable under
   arbitrary in-range commands, for pipelines built from well-formed DAGs ... *)
Theorem C06_counts_ok_every_reachable : forall C l n cpu ram s k,
  cf_static C = mk_static l -> dags_wf l ->
  reach_exec_r C (init_estate C n cpu ram) s -> counts_ok (cf_static C) (e_world s) k.
Proof. exact AuditA.counts_ok_every_reachable. Qed.
Print Assumptions C06_counts_ok_every_reachable.

(* ... hence in every state of every simulation run under every shipped scheduler [a] ... *)
Theorem C06_counts_ok_sim : forall C a l np cpu ram t s k,
  cf_static C = mk_static l -> dags_wf l ->
  sim_reach C a 0%Z (init_sim C np cpu ram) t s ->
  counts_ok (cf_static C) (e_world (sm_exec s)) k.
Proof. exact AuditA.counts_ok_sim. Qed.
Print Assumptions C06_counts_ok_sim.

(* ... and in the world a scheduler hands to the executor (all its Assignment objects created) *)
Theorem C06_counts_ok_sched_world : forall C a l np cpu ram t s newp ss' w' susps asgs k,
  cf_static C = mk_static l -> dags_wf l ->
  sim_reach C a 0%Z (init_sim C np cpu ram) t s ->
  sched_step C a (sm_sched s) (sm_exec s) (sm_results s) newp = Ok (ss', w', susps, asgs) ->
  counts_ok (cf_static C) w' k.
Proof. exact AuditA.counts_ok_sched_world. Qed.
Print Assumptions C06_counts_ok_sched_world.

(* never while any operator is unfinished: in every state of every run, no side condition left *)
Theorem C06_never_while_unfinished_sim : forall C a l np cpu ram t s k,
  cf_static C = mk_static l -> dags_wf l ->
  sim_reach C a 0%Z (init_sim C np cpu ram) t s ->
  (is_successful (cf_static C) (e_world (sm_exec s)) k = true <->
   forall o, In o (pd_order (pipe_of (cf_static C) k)) -> st_of (e_world (sm_exec s)) o = Completed).
Proof. exact AuditA.never_while_unfinished_sim. Qed.
Print Assumptions C06_never_while_unfinished_sim.

(* C06_finish_tick_has_result for a tick of a run: the two histogram hypotheses and the busy-owner hypothesis
   are discharged; what is left is the single-pipeline shape of the live containers *)
Theorem C06_finish_tick_has_result_sim : forall C a l np cpu ram t s newp s1 lg p ss' w',
  cf_static C = mk_static l -> dags_wf l ->
  sim_reach C a 0%Z (init_sim C np cpu ram) t s ->
  sim_tick C a t s newp = Ok (s1, lg) ->
  sched_step C a (sm_sched s) (sm_exec s) (sm_results s) newp = Ok (ss', w', tl_susp lg, tl_asgs lg) ->
  (forall q c, In q (e_pools (sm_exec s1)) -> In c (p_active q) -> mono_container (cf_static C) c) ->
  is_successful (cf_static C) w' p = false ->
  is_successful (cf_static C) (e_world (sm_exec s1)) p = true ->
  In p (sm_outstanding s) \/ In p newp ->
  tl_results lg <> [] /\ In p (tl_finished lg).
Proof. exact AuditA.finish_tick_has_result_sim. Qed.
Print Assumptions C06_finish_tick_has_result_sim.

(* non-vacuity: the diamond of SimReachExamples under each scheduler, state after three ticks: the counts
   are the histogram, and the pipeline is not yet successful except under overbook *)
Example C06_sim_witness : forall a k,
  counts_ok (cf_static SimReachExamples.Cx) (e_world (sm_exec (SimReachExamples.mid a))) k.
Proof. exact AuditA.counts_ok_sim_applies. Qed.
Example C06_sim_witness_values :
  map (fun a => is_successful (cf_static SimReachExamples.Cx) (e_world (sm_exec (SimReachExamples.mid a))) 0)
      [ANaive; AStarter; AOverbook; APriority; APriorityPool] = [false; false; true; false; false].
Proof. vm_compute. reflexivity. Qed.

(* ------------------------------------------------------------------------------------------------------ *)
(* Audit A, C06: p99_latency, failure_error_counts, the uncontended pipeline at simulator level            *)
(* ------------------------------------------------------------------------------------------------------ *)
From Eudoxia Require Import Model.StatsExtra Proofs.StatsExtraFacts.

(* p99_latency (the overall one, [st_p99]: the 99th percentile of executor.container_tick_times() in seconds)
   is the percentile of the container run lengths RECOUNTED FROM THE EVENT LOG ALONE: [rc_run_lengths logs]
   (Model/StatsExtra.v) has one entry per reported result, successful or failed, namely
   (tick of the result) - (tick of the container's creation) + 1, where the creation tick of container id c is
   the tick whose assignments cover position c of the concatenated assignment lists (ids are handed out in
   order of creation). The recorded container_tick_times of the pools are a permutation of that recount.
   Holds for every scheduler and also for a run that stopped at an error ([e] arbitrary). *)
Theorem C06_p99_refines_recount : forall C a np cpu ram arrivals s logs e,
  sim_run C a 0%Z (init_sim C np cpu ram) arrivals = (s, logs, e) ->
  forall dur : Q,
  st_p99 (final_stats C dur s) = div_tps (cf_tps C) (percentile99 (rc_run_lengths logs)) /\
  Permutation (flat_map p_tick_times (e_pools (sm_exec s))) (rc_run_lengths logs) /\
  length (rc_run_lengths logs) = length (rc_results logs).
Proof. exact p99_refines_recount. Qed.
Print Assumptions C06_p99_refines_recount.

(* ... and for the entry point (scheduler construction refusals, the zero-RAM epilogue) *)
Theorem C06_p99_refines_recount_main : forall C a np cpu ram arrivals s logs e,
  sim_main C a np cpu ram arrivals = (s, logs, e) ->
  forall dur : Q,
  st_p99 (final_stats C dur s) = div_tps (cf_tps C) (percentile99 (rc_run_lengths logs)) /\
  Permutation (flat_map p_tick_times (e_pools (sm_exec s))) (rc_run_lengths logs) /\
  length (rc_run_lengths logs) = length (rc_results logs).
Proof. exact p99_refines_recount_main. Qed.
Print Assumptions C06_p99_refines_recount_main.

(* failure_error_counts (Model/StatsExtra.v: the dict error string -> count the loop fills from the failed
   results; the executor's only error string, "OOM", is coded 1) is empty when nothing failed and
   {OOM: failures} otherwise, [failures] being the failure counter of the returned statistics. This is the
   rule of the harness monitor (harness/props/C06.py): {'OOM': fail} if fail else {}. *)
Theorem C06_failure_counts : forall C a np cpu ram arrivals s logs e,
  sim_run C a 0%Z (init_sim C np cpu ram) arrivals = (s, logs, e) ->
  forall dur : Q,
  let failures := st_failures (final_stats C dur s) in
  failure_error_counts logs = if (failures =? 0)%Z then [] else [(1, failures)].
Proof. exact failure_counts. Qed.
Print Assumptions C06_failure_counts.

Theorem C06_failure_counts_main : forall C a np cpu ram arrivals s logs e,
  sim_main C a np cpu ram arrivals = (s, logs, e) ->
  forall dur : Q,
  let failures := st_failures (final_stats C dur s) in
  failure_error_counts logs = if (failures =? 0)%Z then [] else [(1, failures)].
Proof. exact failure_counts_main. Qed.
Print Assumptions C06_failure_counts_main.

(* ... and against the log directly *)
Theorem C06_failure_counts_recount : forall logs,
  failure_error_counts logs = if (rc_failures logs =? 0)%Z then [] else [(1, rc_failures logs)].
Proof. exact failure_counts_recount. Qed.
Print Assumptions C06_failure_counts_recount.

(* An uncontended pipeline with enough memory finishes in exactly the ticks its operators need, at the level
   of the simulator loop (arrival -> assignment -> execution -> completion sweep -> latency statistic):
   naive with multi-operator containers, one pool, exact arithmetic. The only pipeline [k] of the run arrives
   in tick t0; no demand of its operators (run with the pool's CPUs) exceeds the pool's RAM. Then the run
   reaches its last tick, the scheduler hands the whole pool to the pipeline in the arrival tick, the
   container runs from that same tick and reports success in tick t0 + total - 1 (total = sum of the script
   lengths); that is the only tick with a result, and the tick in which the pipeline is recorded as finished.
   Its latency is total - 1 ticks; mean and p99 latency of the returned statistics are (total - 1) / tps. *)
Theorem C06_uncontended_latency_sim : forall C l cpu ram k t0 n,
  cf_static C = mk_static l -> dags_wf l -> cf_multi C = true ->
  (forall x, (cf_rnd C x == x)%Q) ->
  (0 < cpu)%Z -> (0 < ram)%Q ->
  let ops := pd_order (pipe_of (cf_static C) k) in
  let pr := pd_prio (pipe_of (cf_static C) k) in
  let total := total C ops cpu in
  ops <> [] -> (forall i, i < length ops -> scr C ops cpu i <> []) -> all_fit C ops cpu ram ->
  total - 1 <= n ->
  let r := {| r_cid := 0; r_ops := ops; r_cpu := cpu; r_ram := ram; r_prio := pr; r_pool := 0;
              r_err := false |} in
  exists s logs,
    sim_run C ANaive 0%Z (init_sim C 1 cpu ram) (repeat [] t0 ++ [k] :: repeat [] n) = (s, logs, None) /\
    map tl_new logs = repeat [] t0 ++ [k] :: repeat [] n /\
    map tl_results logs = repeat [] (t0 + (total - 1)) ++ [r] :: repeat [] (n - (total - 1)) /\
    map tl_finished logs = repeat [] (t0 + (total - 1)) ++ [k] :: repeat [] (n - (total - 1)) /\
    sm_arrival s = [(k, Z.of_nat t0)] /\ sm_lat s = [(pr, Z.of_nat (total - 1))] /\
    forall dur : Q,
      let st := final_stats C dur s in
      st_all st = pipeline_stats (cf_tps C) 1 [Z.of_nat (total - 1)] /\
      (exists m p, pst_mean (st_all st) = Some m /\ pst_p99 (st_all st) = Some p /\
                   (m == inject_Z (Z.of_nat (total - 1)) / inject_Z (cf_tps C))%Q /\
                   (p == inject_Z (Z.of_nat (total - 1)) / inject_Z (cf_tps C))%Q).
Proof. exact uncontended_latency_sim. Qed.
Print Assumptions C06_uncontended_latency_sim.

(* non-vacuity. A run with one success (2 ticks) and one OOM failure (5 ticks): the recount, p99 = 0.497 s,
   failure_error_counts = {OOM: 1}; a prefix without failure has the empty dict *)
Example C06_p99_witness :
  sim_run StatsExtraExamples.xC ANaive 0%Z (init_sim StatsExtraExamples.xC 1 4%Z 8%Q)
          StatsExtraExamples.x_arrivals
    = (StatsExtraExamples.x_s, StatsExtraExamples.x_logs, None) /\
  rc_run_lengths StatsExtraExamples.x_logs = [2%Z; 5%Z] /\
  st_p99 (final_stats StatsExtraExamples.xC 1%Q StatsExtraExamples.x_s)
    = div_tps 10%Z (percentile99 [2%Z; 5%Z]) /\
  option_map Qred (st_p99 (final_stats StatsExtraExamples.xC 1%Q StatsExtraExamples.x_s))
    = Some (497 # 1000)%Q.
Proof.
  split; [exact StatsExtraExamples.x_run|].
  split; [exact (proj1 (proj2 (proj2 (proj2 StatsExtraExamples.x_recount))))|].
  exact StatsExtraExamples.x_p99.
Qed.
Example C06_failure_counts_witness :
  failure_error_counts StatsExtraExamples.x_logs
    = [(1, st_failures (final_stats StatsExtraExamples.xC 1%Q StatsExtraExamples.x_s))] /\
  st_failures (final_stats StatsExtraExamples.xC 1%Q StatsExtraExamples.x_s) = 1%Z /\
  failure_error_counts (firstn 5 StatsExtraExamples.x_logs) = [].
Proof.
  split; [exact StatsExtraExamples.x_failure_counts|].
  split; [exact (proj2 (proj2 (proj2 (proj2 (proj2 (proj2 StatsExtraExamples.x_recount))))))|].
  exact StatsExtraExamples.x_no_failure.
Qed.
(* the hypotheses of C06_uncontended_latency_sim hold for a two-operator chain (3 + 2 ticks, the last one at
   exactly the pool's 8 GB) arriving alone in tick 2: finished in tick 6, latency 4 ticks; and the same values
   computed directly *)
Example C06_uncontended_latency_sim_witness :
  exists s logs,
    sim_run StatsExtraExamples.uC ANaive 0%Z (init_sim StatsExtraExamples.uC 1 4%Z 8%Q)
            StatsExtraExamples.u_arrivals = (s, logs, None) /\
    map tl_finished logs = [[]; []; []; []; []; []; [1]; []; []] /\
    map (fun lg => map (fun r => (r_ops r, r_err r)) (tl_results lg)) logs
      = [[]; []; []; []; []; []; [([1; 2], false)]; []; []] /\
    sm_lat s = [(Batch, 4%Z)] /\
    st_all (final_stats StatsExtraExamples.uC 1%Q s) = pipeline_stats 10%Z 1%Z [4%Z].
Proof. exact StatsExtraExamples.u_applies. Qed.
Example C06_uncontended_latency_sim_computed :
  sim_run StatsExtraExamples.uC ANaive 0%Z (init_sim StatsExtraExamples.uC 1 4%Z 8%Q)
          StatsExtraExamples.u_arrivals = (StatsExtraExamples.u_s, StatsExtraExamples.u_logs, None) /\
  map tl_finished StatsExtraExamples.u_logs = [[]; []; []; []; []; []; [1]; []; []] /\
  sm_lat StatsExtraExamples.u_s = [(Batch, 4%Z)] /\
  option_map Qred (pst_mean (st_all (final_stats StatsExtraExamples.uC 1%Q StatsExtraExamples.u_s)))
    = Some (2 # 5)%Q.
Proof. exact StatsExtraExamples.u_computed. Qed.
