(* C14 Trace files round-trip: what is written is what is read, for any pipeline DAG.
   Statements only; every proof is [exact <lemma of Proofs/CsvFacts.v>].

   Cell level (Model/Csv.v): a file is its list of parsed rows [row]; a pipeline [pipeline_m] is its priority,
   the arrival time it is paired with, and its operators in insertion order, each with its parent list
   (insertion indices, in the order of the Python list), cpu seconds, scaling law, memory_gb as an [option]
   ([Some 0] is not [None]) and read size. [read_rows] is list(CSVWorkloadReader.batch_by_pipeline()) with every
   exception mapped to [Err EOther]; [read_rows_c] keeps the cause. [write_rows] is generate_rows /
   _pipeline_to_rows. [batches] is the grouping of consecutive rows with one pipeline_id.
   The csv module, float(str) and repr(float) are below the model. *)
From Coq Require Import List ZArith QArith Arith.
Import ListNotations.
From Eudoxia Require Import Model.Types Model.Timing Model.Csv Proofs.CsvFacts.
Close Scope Q_scope.
Close Scope Z_scope.

(* (a) write, then read: the very same pipelines - count, order, priority, arrival, operator count, parent
   lists (hence parent sets), cpu seconds, law, memory option, read size - for every list of pipelines that
   have at least one operator and whose operators' parents are earlier operators (any DAG the DAG class can
   hold, duplicated parent entries included). No canonicalisation is needed: the equality is Leibniz. *)
Theorem C14_read_write : forall ps, Forall wf_pipeline ps -> read_rows (write_rows ps) = Ok ps.
Proof. exact read_write. Qed.
Print Assumptions C14_read_write.

(* the pipeline ids of such a file are p1, p2, ... (tokens 0, 1, ...) in order *)
Theorem C14_written_ids : forall ps, Forall wf_pipeline ps -> batch_ids (write_rows ps) = seq 0 (length ps).
Proof. exact batch_ids_written. Qed.
Print Assumptions C14_written_ids.

(* (b) read, then write: a file that uses the writer's naming (k-th batch = pipeline token k, its i-th row =
   operator token i; parents may be listed in any order, the reader keeps it) is reproduced row by row,
   whatever arrival times the pipelines are paired with when they are written again (C13 is about those) ... *)
Theorem C14_write_read : forall rows ps,
  read_rows rows = Ok ps -> canonical_ids rows ->
  forall ps', same_except_arrival ps' ps -> rows_eq_except_arrival (write_rows ps') rows.
Proof. exact write_read. Qed.
Print Assumptions C14_write_read.

(* ... and exactly, arrival column included, when they keep the arrival times that were read *)
Theorem C14_write_read_exact : forall rows ps,
  read_rows rows = Ok ps -> canonical_ids rows -> write_rows ps = rows.
Proof. exact write_read_exact. Qed.
Print Assumptions C14_write_read_exact.

(* what [batches] is: a partition of the file into non-empty runs of one pipeline id *)
Theorem C14_batches_partition : forall rows,
  concat (batches rows) = rows /\
  forall b, In b (batches rows) -> b <> [] /\ exists k, Forall (fun r => r_pid r = k) b.
Proof. exact (fun rows => conj (batches_concat rows) (batches_uniform rows)). Qed.
Print Assumptions C14_batches_partition.

(* (c) a file that breaks a format rule is refused; [r0 :: t] is a batch of the file *)
Theorem C14_first_row_without_priority_refused : forall rows r0 t,
  In (r0 :: t) (batches rows) -> r_prio r0 = 0 -> read_rows rows = Err EOther.
Proof. exact first_row_without_priority_refused. Qed.
Print Assumptions C14_first_row_without_priority_refused.

Theorem C14_first_row_without_arrival_refused : forall rows r0 t,
  In (r0 :: t) (batches rows) -> r_arr r0 = None -> read_rows rows = Err EOther.
Proof. exact first_row_without_arrival_refused. Qed.
Print Assumptions C14_first_row_without_arrival_refused.

Theorem C14_later_row_with_priority_refused : forall rows r0 t r,
  In (r0 :: t) (batches rows) -> In r t -> r_prio r <> 0 -> read_rows rows = Err EOther.
Proof. exact later_row_with_priority_refused. Qed.
Print Assumptions C14_later_row_with_priority_refused.

Theorem C14_later_row_with_arrival_refused : forall rows r0 t r,
  In (r0 :: t) (batches rows) -> In r t -> r_arr r <> None -> read_rows rows = Err EOther.
Proof. exact later_row_with_arrival_refused. Qed.
Print Assumptions C14_later_row_with_arrival_refused.

(* priority code > 3: a text that is not QUERY, INTERACTIVE or BATCH_PIPELINE *)
Theorem C14_unknown_priority_refused : forall rows r0 t,
  In (r0 :: t) (batches rows) -> 3 < r_prio r0 -> read_rows rows = Err EOther.
Proof. exact unknown_priority_refused. Qed.
Print Assumptions C14_unknown_priority_refused.

(* law code >= 7: a text that is not one of the seven names *)
Theorem C14_unknown_law_refused : forall rows b r,
  In b (batches rows) -> In r b -> 7 <= r_law r -> read_rows rows = Err EOther.
Proof. exact unknown_law_refused. Qed.
Print Assumptions C14_unknown_law_refused.

(* a parent id that no earlier row of the same batch defines (later rows and other pipelines do not count) *)
Theorem C14_undefined_parent_refused : forall rows b n r x,
  In b (batches rows) -> nth_error b n = Some r -> In x (r_parents r) ->
  (forall m r', m < n -> nth_error b m = Some r' -> r_op r' <> x) ->
  read_rows rows = Err EOther.
Proof. exact undefined_parent_refused. Qed.
Print Assumptions C14_undefined_parent_refused.

(* an accepted file satisfies all the rules, and these rules are the only reason for a refusal *)
Theorem C14_read_rows_ok_implies_rules : forall rows ps, read_rows rows = Ok ps ->
  forall b, In b (batches rows) -> batch_rules b.
Proof. exact read_rows_ok_implies_rules. Qed.
Print Assumptions C14_read_rows_ok_implies_rules.

Theorem C14_rules_imply_read_rows_ok : forall rows,
  (forall b, In b (batches rows) -> batch_rules b) -> exists ps, read_rows rows = Ok ps.
Proof. exact rules_imply_read_rows_ok. Qed.
Print Assumptions C14_rules_imply_read_rows_ok.

(* non-vacuity. [Examples.file]: a five-operator DAG with two roots, two joins and a diamond (memory Some 0,
   None, Some 3/2; values 1e-9, 1e12, 0), a single-operator pipeline at the same arrival time, the DAG again:
   11 rows, well-formed, canonical, read back exactly. *)
Example C14_witness_wf : Forall wf_pipeline [Examples.diamond; Examples.single; Examples.diamond].
Proof. exact Examples.wf_examples. Qed.

Example C14_witness_read_write :
  read_rows Examples.file = Ok [Examples.diamond; Examples.single; Examples.diamond] /\
  length Examples.file = 11 /\ map r_mem (firstn 2 Examples.file) = [Some 0%Q; None].
Proof. exact Examples.ex_read_write. Qed.

Example C14_witness_canonical : canonical_ids Examples.file.
Proof. exact Examples.ex_canonical. Qed.

(* memory_gb "0" and memory_gb "" are loaded as different pipelines *)
Example C14_witness_memory_zero_vs_unset :
  read_rows [Examples.row0 (Some 0%Q)] =
    Ok [{| pm_prio := Batch; pm_arr := 0%Q;
           pm_ops := [{| om_parents := []; om_seg := Examples.sg 1%Q Const (Some 0%Q) 5%Q |}] |}] /\
  read_rows [Examples.row0 None] =
    Ok [{| pm_prio := Batch; pm_arr := 0%Q;
           pm_ops := [{| om_parents := []; om_seg := Examples.sg 1%Q Const None 5%Q |}] |}].
Proof. exact Examples.ex_memory_zero_vs_unset. Qed.

(* every malformation of that file is refused, for the expected reason (row 5 is the first row of the second
   pipeline, row 6 of the third; [upd n f] changes row n) *)
Example C14_witness_refusals :
  read_rows_c (Examples.upd 5 (Examples.set_prio 0) Examples.file) = inl RBlankPriority /\
  read_rows_c (Examples.upd 5 (Examples.set_prio 4) Examples.file) = inl RUnknownPriority /\
  read_rows_c (Examples.upd 6 (Examples.set_arr None) Examples.file) = inl RFirstNoArrival /\
  read_rows_c (Examples.upd 8 (Examples.set_prio 2) Examples.file) = inl RLaterPriority /\
  read_rows_c (Examples.upd 8 (Examples.set_arr (Some 0%Q)) Examples.file) = inl RLaterArrival /\
  read_rows_c (Examples.upd 3 (Examples.set_law 7) Examples.file) = inl RUnknownLaw /\
  read_rows_c (Examples.upd 2 (Examples.set_parents [1; 3]) Examples.file) = inl RUndefinedParent /\
  read_rows_c (Examples.upd 5 (Examples.set_parents [0]) Examples.file) = inl RUndefinedParent /\
  read_rows (Examples.upd 5 (Examples.set_parents [0]) Examples.file) = Err EOther.
Proof. exact Examples.ex_refusals. Qed.

(* outside the listed rules: a re-used operator id is accepted and shadows the earlier operator for the rows
   that follow; a pipeline without operators writes no row and is absent after the round trip (this is why
   [wf_pipeline] asks for one operator) *)
Example C14_witness_duplicate_operator_id :
  exists p q,
    read_rows (Examples.upd 1 (Examples.set_op 0) (Examples.upd 2 (Examples.set_parents [0]) Examples.file))
      = Ok [p; Examples.single; q] /\
    map om_parents (pm_ops p) = [[]; []; [1]; [1]; [2; 3]].
Proof. exact Examples.ex_duplicate_operator_id. Qed.

Example C14_witness_empty_pipeline_vanishes :
  read_rows (write_rows [Examples.single; {| pm_prio := Batch; pm_arr := 1%Q; pm_ops := [] |}; Examples.single])
    = Ok [Examples.single; Examples.single].
Proof. exact Examples.ex_empty_pipeline_vanishes. Qed.
