(* C14 Trace files round-trip: what is written is what is read, for any pipeline DAG.
   Statements only; every proof is [exact <lemma of Proofs/CsvFacts.v>].

   Cell level (Model/Csv.v): a file is its list of parsed rows [row]; a pipeline [pipeline_m] is its priority,
   the arrival time it is paired with, and its operators in insertion order, each with its parent list
   (insertion indices, in the order of the Python list), cpu seconds, scaling law, memory_gb as an [option]
   ([Some 0] is not [None]) and read size. [read_rows] is list(CSVWorkloadReader.batch_by_pipeline()) with every
   exception mapped to [Err EOther]; [read_rows_c] keeps the cause. [write_rows] is generate_rows /
   _pipeline_to_rows. [batches] is the grouping of consecutive rows with one pipeline_id.
   The csv module, float(str) and repr(float) are below the model. *)
From Coq Require Import List ZArith QArith Arith.
Import ListNotations.
From Eudoxia Require Import Model.Types Model.Timing Model.Csv Proofs.CsvFacts.
Close Scope Q_scope.
Close Scope Z_scope.

(* (a) write, then read: the very same pipelines - count, order, priority, arrival, operator count, parent
   lists (hence parent sets), cpu seconds, law, memory option, read size - for every list of pipelines that
   have at least one operator and whose operators' parents are earlier operators (any DAG the DAG class can
   hold, duplicated parent entries included). No canonicalisation is needed: the equality is Leibniz. *)
Theorem C14_read_write : forall ps, Forall wf_pipeline ps -> read_rows (write_rows ps) = Ok ps.
Proof. exact read_write. Qed.
Print Assumptions C14_read_write.

(* the pipeline ids of such a file are p1, p2, ... (tokens 0, 1, ...) in order *)
Theorem C14_written_ids : forall ps, Forall wf_pipeline ps -> batch_ids (write_rows ps) = seq 0 (length ps).
Proof. exact batch_ids_written. Qed.
Print Assumptions C14_written_ids.

(* (b) read, then write: a file that uses the writer's naming (k-th batch = pipeline token k, its i-th row =
   operator token i; parents may be listed in any order, the reader keeps it) is reproduced row by row,
   whatever arrival times the pipelines are paired with when they are written again (C13 is about those) ... *)
Theorem C14_write_read : forall rows ps,
  read_rows rows = Ok ps -> canonical_ids rows ->
  forall ps', same_except_arrival ps' ps -> rows_eq_except_arrival (write_rows ps') rows.
Proof. exact write_read. Qed.
Print Assumptions C14_write_read.

(* ... and exactly, arrival column included, when they keep the arrival times that were read *)
Theorem C14_write_read_exact : forall rows ps,
  read_rows rows = Ok ps -> canonical_ids rows -> write_rows ps = rows.
Proof. exact write_read_exact. Qed.
Print Assumptions C14_write_read_exact.

(* what [batches] is: a partition of the file into non-empty runs of one pipeline id *)
Theorem C14_batches_partition : forall rows,
  concat (batches rows) = rows /\
  forall b, In b (batches rows) -> b <> [] /\ exists k, Forall (fun r => r_pid r = k) b.
Proof. exact (fun rows => conj (batches_concat rows) (batches_uniform rows)). Qed.
Print Assumptions C14_batches_partition.

(* (c) a file that breaks a format rule is refused; [r0 :: t] is a batch of the file *)
Theorem C14_first_row_without_priority_refused : forall rows r0 t,
  In (r0 :: t) (batches rows) -> r_prio r0 = 0 -> read_rows rows = Err EOther.
Proof. exact first_row_without_priority_refused. Qed.
Print Assumptions C14_first_row_without_priority_refused.

Theorem C14_first_row_without_arrival_refused : forall rows r0 t,
  In (r0 :: t) (batches rows) -> r_arr r0 = None -> read_rows rows = Err EOther.
Proof. exact first_row_without_arrival_refused. Qed.
Print Assumptions C14_first_row_without_arrival_refused.

Theorem C14_later_row_with_priority_refused : forall rows r0 t r,
  In (r0 :: t) (batches rows) -> In r t -> r_prio r <> 0 -> read_rows rows = Err EOther.
Proof. exact later_row_with_priority_refused. Qed.
Print Assumptions C14_later_row_with_priority_refused.

Theorem C14_later_row_with_arrival_refused : forall rows r0 t r,
  In (r0 :: t) (batches rows) -> In r t -> r_arr r <> None -> read_rows rows = Err EOther.
Proof. exact later_row_with_arrival_refused. Qed.
Print Assumptions C14_later_row_with_arrival_refused.

(* priority code > 3: a text that is not QUERY, INTERACTIVE or BATCH_PIPELINE *)
Theorem C14_unknown_priority_refused : forall rows r0 t,
  In (r0 :: t) (batches rows) -> 3 < r_prio r0 -> read_rows rows = Err EOther.
Proof. exact unknown_priority_refused. Qed.
Print Assumptions C14_unknown_priority_refused.

(* law code >= 7: a text that is not one of the seven names *)
Theorem C14_unknown_law_refused : forall rows b r,
  In b (batches rows) -> In r b -> 7 <= r_law r -> read_rows rows = Err EOther.
Proof. exact unknown_law_refused. Qed.
Print Assumptions C14_unknown_law_refused.

(* a parent id that no earlier row of the same batch defines (later rows and other pipelines do not count) *)
Theorem C14_undefined_parent_refused : forall rows b n r x,
  In b (batches rows) -> nth_error b n = Some r -> In x (r_parents r) ->
  (forall m r', m < n -> nth_error b m = Some r' -> r_op r' <> x) ->
  read_rows rows = Err EOther.
Proof. exact undefined_parent_refused. Qed.
Print Assumptions C14_undefined_parent_refused.

(* an accepted file satisfies all the rules, and these rules are the only reason for a refusal *)
Theorem C14_read_rows_ok_implies_rules : forall rows ps, read_rows rows = Ok ps ->
  forall b, In b (batches rows) -> batch_rules b.
Proof. exact read_rows_ok_implies_rules. Qed.
Print Assumptions C14_read_rows_ok_implies_rules.

Theorem C14_rules_imply_read_rows_ok : forall rows,
  (forall b, In b (batches rows) -> batch_rules b) -> exists ps, read_rows rows = Ok ps.
Proof. exact rules_imply_read_rows_ok. Qed.
Print Assumptions C14_rules_imply_read_rows_ok.

(* non-vacuity. [Examples.file]: a five-operator DAG with two roots, two joins and a diamond (memory Some 0,
   None, Some 3/2; values 1e-9, 1e12, 0), a single-operator pipeline at the same arrival time, the DAG again:
   11 rows, well-formed, canonical, read back exactly. *)
Example C14_witness_wf : Forall wf_pipeline [Examples.diamond; Examples.single; Examples.diamond].
Proof. exact Examples.wf_examples. Qed.

Example C14_witness_read_write :
  read_rows Examples.file = Ok [Examples.diamond; Examples.single; Examples.diamond] /\
  length Examples.file = 11 /\ map r_mem (firstn 2 Examples.file) = [Some 0%Q; None].
Proof. exact Examples.ex_read_write. Qed.

Example C14_witness_canonical : canonical_ids Examples.file.
Proof. exact Examples.ex_canonical. Qed.

(* memory_gb "0" and memory_gb "" are loaded as different pipelines *)
Example C14_witness_memory_zero_vs_unset :
  read_rows [Examples.row0 (Some 0%Q)] =
    Ok [{| pm_prio := Batch; pm_arr := 0%Q;
           pm_ops := [{| om_parents := []; om_seg := Examples.sg 1%Q Const (Some 0%Q) 5%Q |}] |}] /\
  read_rows [Examples.row0 None] =
    Ok [{| pm_prio := Batch; pm_arr := 0%Q;
           pm_ops := [{| om_parents := []; om_seg := Examples.sg 1%Q Const None 5%Q |}] |}].
Proof. exact Examples.ex_memory_zero_vs_unset. Qed.

(* every malformation of that file is refused, for the expected reason (row 5 is the first row of the second
   pipeline, row 6 of the third; [upd n f] changes row n) *)
Example C14_witness_refusals :
  read_rows_c (Examples.upd 5 (Examples.set_prio 0) Examples.file) = inl RBlankPriority /\
  read_rows_c (Examples.upd 5 (Examples.set_prio 4) Examples.file) = inl RUnknownPriority /\
  read_rows_c (Examples.upd 6 (Examples.set_arr None) Examples.file) = inl RFirstNoArrival /\
  read_rows_c (Examples.upd 8 (Examples.set_prio 2) Examples.file) = inl RLaterPriority /\
  read_rows_c (Examples.upd 8 (Examples.set_arr (Some 0%Q)) Examples.file) = inl RLaterArrival /\
  read_rows_c (Examples.upd 3 (Examples.set_law 7) Examples.file) = inl RUnknownLaw /\
  read_rows_c (Examples.upd 2 (Examples.set_parents [1; 3]) Examples.file) = inl RUndefinedParent /\
  read_rows_c (Examples.upd 5 (Examples.set_parents [0]) Examples.file) = inl RUndefinedParent /\
  read_rows (Examples.upd 5 (Examples.set_parents [0]) Examples.file) = Err EOther.
Proof. exact Examples.ex_refusals. Qed.

(* outside the listed rules: a re-used operator id is accepted and shadows the earlier operator for the rows
   that follow; a pipeline without operators writes no row and is absent after the round trip (this is why
   [wf_pipeline] asks for one operator) *)
Example C14_witness_duplicate_operator_id :
  exists p q,
    read_rows (Examples.upd 1 (Examples.set_op 0) (Examples.upd 2 (Examples.set_parents [0]) Examples.file))
      = Ok [p; Examples.single; q] /\
    map om_parents (pm_ops p) = [[]; []; [1]; [1]; [2; 3]].
Proof. exact Examples.ex_duplicate_operator_id. Qed.

Example C14_witness_empty_pipeline_vanishes :
  read_rows (write_rows [Examples.single; {| pm_prio := Batch; pm_arr := 1%Q; pm_ops := [] |}; Examples.single])
    = Ok [Examples.single; Examples.single].
Proof. exact Examples.ex_empty_pipeline_vanishes. Qed.

(* ---------------------------------------------------------------------------------------------------------
   The reader as the chain of LAZY generators it is (Model/CsvLazy.v; proofs in Proofs/CsvLazyFacts.v).
   [bp_next] is one next() on batch_by_pipeline (a state is a suspension point with its locals: the
   rows not yet pulled from the file, current_batch, current_pipeline_id), [ba_next] one next() on
   batch_by_arrival, which drives the former. [lazy_arrivals rows] = (the PipelineArrivals a consumer receives
   from batch_by_pipeline before it ends or raises, each as (pipeline_id token, pipeline); the refusal if it
   raised); [lazy_pipelines] forgets the ids; [lazy_batches rows] = the same for batch_by_arrival.
   [built b a]: a is the pipeline the eager reader builds from batch b, with b's pipeline_id. *)
From Eudoxia Require Import Model.CsvLazy Proofs.CsvLazyFacts.

(* an accepted file: the lazy reader delivers exactly the eager reader's pipelines and ends normally; and the lazy
   reader ends normally on no other file *)
Theorem C14_lazy_eager_ok : forall rows ps,
  read_rows_c rows = inr ps <-> lazy_pipelines rows = (ps, None).
Proof. exact CsvLazyFacts.lazy_eager_ok. Qed.
Print Assumptions C14_lazy_eager_ok.

(* a refused file: batch number k is the FIRST malformed one (the k batches before it are built without error),
   the lazy reader delivers exactly the pipelines of those k batches and then raises the refusal of batch k,
   which is the refusal the eager reader reports *)
Theorem C14_lazy_prefix : forall rows e, read_rows_c rows = inl e ->
  exists k bad l,
    nth_error (batches rows) k = Some bad /\ create_pipeline bad = inl e /\
    Forall2 built (firstn k (batches rows)) l /\ length l = k /\
    lazy_arrivals rows = (l, Some e) /\ lazy_pipelines rows = (map snd l, Some e).
Proof. exact CsvLazyFacts.lazy_prefix. Qed.
Print Assumptions C14_lazy_prefix.

(* conversely, whatever the lazy reader raises is the eager reader's refusal of the file *)
Theorem C14_lazy_raise_is_refusal : forall rows l e,
  lazy_arrivals rows = (l, Some e) -> read_rows_c rows = inl e.
Proof. exact CsvLazyFacts.lazy_raise_is_refusal. Qed.
Print Assumptions C14_lazy_raise_is_refusal.

(* a bad file is never "loaded differently": whatever the lazy reader delivers, on any file, is item by item the
   pipeline (and id) the eager reader builds from the batch at the same position; all batches if it ends
   normally, a strict prefix if it raises *)
Theorem C14_lazy_never_loads_differently : forall rows l oe, lazy_arrivals rows = (l, oe) ->
  Forall2 built (firstn (length l) (batches rows)) l /\
  (oe = None -> length l = length (batches rows)) /\
  (oe <> None -> length l < length (batches rows)).
Proof. exact CsvLazyFacts.lazy_never_loads_differently. Qed.
Print Assumptions C14_lazy_never_loads_differently.

Theorem C14_lazy_ids_prefix : forall rows, lazy_ids rows = firstn (length (lazy_ids rows)) (batch_ids rows).
Proof. exact CsvLazyFacts.lazy_ids_prefix. Qed.
Print Assumptions C14_lazy_ids_prefix.

(* WHEN the refusal surfaces. One next() on batch_by_pipeline, suspended with current batch [cur] of pipeline
   [id]: it pulls the remaining rows [same] of that pipeline and ONE row [r] of the next pipeline, then builds
   the batch [cur ++ same] alone: it yields it (the rows [tl] after r are still unread, r is the new current
   batch) or raises its refusal. So the refusal of batch k comes out of the call that follows the yield of
   pipeline k-1, and no row beyond the first row of batch k+1 has been read by then. *)
Theorem C14_lazy_next_step : forall id cur same r tl,
  cur <> [] -> Forall (fun x => r_pid x = id) same -> r_pid r <> id ->
  bp_next (BpRun (Some id) cur (same ++ r :: tl)) =
    match create_pipeline (cur ++ same) with
    | inl e => Raise e
    | inr p => Yield (batch_pid (cur ++ same), p) (BpRun (Some (r_pid r)) [r] tl)
    end.
Proof. exact CsvLazyFacts.lazy_next_step. Qed.
Print Assumptions C14_lazy_next_step.

(* ... at the end of the file the last batch is built once the file is exhausted *)
Theorem C14_lazy_next_last : forall id cur same,
  cur <> [] -> Forall (fun x => r_pid x = id) same ->
  bp_next (BpRun (Some id) cur same) =
    match create_pipeline (cur ++ same) with
    | inl e => Raise e
    | inr p => Yield (batch_pid (cur ++ same), p) BpEnd
    end.
Proof. exact CsvLazyFacts.lazy_next_last. Qed.
Print Assumptions C14_lazy_next_last.

(* ... and the first call starts with the first row as current batch; an empty file and a finished generator stop *)
Theorem C14_lazy_next_first : forall r rest,
  bp_next (bp_start (r :: rest)) = bp_next (BpRun (Some (r_pid r)) [r] rest) /\ bp_next (bp_start []) = Done /\
  bp_next BpEnd = Done.
Proof. exact CsvLazyFacts.lazy_next_first. Qed.
Print Assumptions C14_lazy_next_first.

(* batch_by_arrival on top of it. [arrival_groups l]: the maximal runs of consecutive arrivals with equal
   arrival time. It is a partition of l into non-empty runs of one arrival time, adjacent runs differ ... *)
Theorem C14_arrival_groups_partition : forall l,
  concat (arrival_groups l) = l /\
  (forall g, In g (arrival_groups l) -> g <> [] /\ exists t, forall x, In x g -> (pm_arr (snd x) == t)%Q) /\
  (forall j g g', nth_error (arrival_groups l) j = Some g -> nth_error (arrival_groups l) (S j) = Some g' ->
     forall x y, In x g -> In y g' -> ~ (pm_arr (snd x) == pm_arr (snd y))%Q).
Proof. exact CsvLazyFacts.arrival_groups_partition. Qed.
Print Assumptions C14_arrival_groups_partition.

(* ... an accepted file is delivered as the arrival groups of its pipelines ... *)
Theorem C14_lazy_batches_ok : forall rows l,
  lazy_arrivals rows = (l, None) -> lazy_batches rows = (arrival_groups l, None).
Proof. exact CsvLazyFacts.lazy_batches_ok. Qed.
Print Assumptions C14_lazy_batches_ok.

(* ... and of a refused file, whose well-formed leading pipelines are l: all their arrival groups but the last
   are delivered, then the same refusal surfaces ... *)
Theorem C14_lazy_batches_raise : forall rows l e,
  lazy_arrivals rows = (l, Some e) -> lazy_batches rows = (removelast (arrival_groups l), Some e).
Proof. exact CsvLazyFacts.lazy_batches_raise. Qed.
Print Assumptions C14_lazy_batches_raise.

(* ... the last group - the batch that was being accumulated when the refusal came through - is lost: the
   pipelines batch_by_pipeline delivered are those of the delivered batches followed by a NON-EMPTY lost batch *)
Theorem C14_lazy_batches_lost : forall rows l e, lazy_arrivals rows = (l, Some e) -> l <> [] ->
  exists lost, lost <> [] /\
    arrival_groups l = fst (lazy_batches rows) ++ [lost] /\
    l = concat (fst (lazy_batches rows)) ++ lost /\
    snd (lazy_batches rows) = Some e.
Proof. exact CsvLazyFacts.lazy_batches_lost. Qed.
Print Assumptions C14_lazy_batches_lost.

(* in every case: batch_by_arrival raises iff batch_by_pipeline does (the same refusal), and concatenating what it
   delivers gives what batch_by_pipeline delivers, up to the lost batch, which is empty when nothing is raised *)
Theorem C14_lazy_batches_concat : forall rows,
  snd (lazy_batches rows) = snd (lazy_arrivals rows) /\
  exists lost, fst (lazy_arrivals rows) = concat (fst (lazy_batches rows)) ++ lost /\
               (snd (lazy_arrivals rows) = None -> lost = []).
Proof. exact CsvLazyFacts.lazy_batches_concat. Qed.
Print Assumptions C14_lazy_batches_concat.

(* non-vacuity. [Examples.file] (diamond, single, diamond; rows 0-4, 5, 6-10; all arriving at 7/2) with the first
   row of its THIRD pipeline deprived of its arrival time: the first two pipelines are delivered, then the
   refusal; at the batch_by_arrival level nothing is delivered at all, both were still being accumulated *)
Example C14_witness_lazy_bad_third :
  read_rows_c LazyExamples.bad_third = inl RFirstNoArrival /\
  lazy_arrivals LazyExamples.bad_third = ([(0, Examples.diamond); (1, Examples.single)], Some RFirstNoArrival) /\
  lazy_pipelines LazyExamples.bad_third = ([Examples.diamond; Examples.single], Some RFirstNoArrival) /\
  lazy_batches LazyExamples.bad_third = ([], Some RFirstNoArrival) /\
  lazy_batches Examples.file = ([[(0, Examples.diamond); (1, Examples.single); (2, Examples.diamond)]], None).
Proof. exact LazyExamples.ex_bad_third. Qed.

(* the calls one by one: the first next() pulls rows 0-5 and yields the diamond, the second pulls row 6 and yields
   the single, the third pulls rows 7-10, reaches the end of the file and raises *)
Example C14_witness_lazy_bad_third_steps :
  exists s1 s2,
    bp_next (bp_start LazyExamples.bad_third) = Yield (0, Examples.diamond) s1 /\
    s1 = BpRun (Some 1) (firstn 1 (skipn 5 LazyExamples.bad_third)) (skipn 6 LazyExamples.bad_third) /\
    bp_next s1 = Yield (1, Examples.single) s2 /\
    s2 = BpRun (Some 2) (firstn 1 (skipn 6 LazyExamples.bad_third)) (skipn 7 LazyExamples.bad_third) /\
    bp_next s2 = Raise RFirstNoArrival.
Proof. exact LazyExamples.ex_bad_third_steps. Qed.

(* one-operator pipelines arriving at 1, 1, 2, 3, 3, the FOURTH with an unknown scaling law: three pipelines are
   delivered by batch_by_pipeline; batch_by_arrival delivers the batch of arrival 1 and loses the batch of arrival 2 *)
Example C14_witness_lazy_bad_fourth :
  lazy_batches LazyExamples.five =
    ([[(0, LazyExamples.at_ 1%Q); (1, LazyExamples.at_ 1%Q)]; [(2, LazyExamples.at_ 2%Q)];
      [(3, LazyExamples.at_ 3%Q); (4, LazyExamples.at_ 3%Q)]], None) /\
  read_rows_c LazyExamples.bad_fourth = inl RUnknownLaw /\
  lazy_arrivals LazyExamples.bad_fourth =
    ([(0, LazyExamples.at_ 1%Q); (1, LazyExamples.at_ 1%Q); (2, LazyExamples.at_ 2%Q)], Some RUnknownLaw) /\
  lazy_batches LazyExamples.bad_fourth = ([[(0, LazyExamples.at_ 1%Q); (1, LazyExamples.at_ 1%Q)]], Some RUnknownLaw).
Proof. exact LazyExamples.ex_bad_fourth. Qed.

(* The consumer, WorkloadTrace (workload.py), keeps ONE batch of look-ahead: the constructor and every hand-out call
   advance_to_next_batch(), which catches StopIteration only. [wt_replay readys rows]: the constructor, then one
   run_one_tick per element of [readys] (the test get_next_batch_tick() <= current_tick of that call, as an
   arbitrary predicate of next_batch: tick arithmetic is C13's subject); the pipelines each call returned, up to
   the call that raised. Whatever the tick pattern, the simulator has received the first m batches that
   batch_by_arrival delivers; if the constructor or a call raises, it is the refusal of the file and m is below
   the number of delivered batches: the last delivered batch had been appended to pipelines_to_return in the very
   call that raised and is dropped with it (on top of the batch lost inside batch_by_arrival) *)
Theorem C14_trace_lookahead_prefix : forall rows readys ticks oe', wt_replay readys rows = (ticks, oe') ->
  exists m, concat ticks = concat (firstn m (fst (lazy_batches rows))) /\
            forall e, oe' = Some e ->
              snd (lazy_batches rows) = Some e /\ m <= pred (length (fst (lazy_batches rows))).
Proof. exact CsvLazyFacts.wt_replay_prefix. Qed.
Print Assumptions C14_trace_lookahead_prefix.

(* an accepted file never makes WorkloadTrace raise *)
Theorem C14_trace_good_file_never_raises : forall rows readys,
  snd (lazy_batches rows) = None -> snd (wt_replay readys rows) = None.
Proof. exact CsvLazyFacts.wt_replay_good. Qed.
Print Assumptions C14_trace_good_file_never_raises.

(* a refused file all of whose batches are due at the first call: the simulator receives nothing at all *)
Theorem C14_trace_all_due_receives_nothing : forall rows e t, snd (lazy_batches rows) = Some e ->
  wt_replay ((fun _ => true) :: t) rows = ([], Some e).
Proof. exact CsvLazyFacts.wt_replay_all_ready. Qed.
Print Assumptions C14_trace_all_due_receives_nothing.

(* [bad_fourth] through WorkloadTrace ([due t] = the batch's arrival is <= t): the call at which the delivered batch
   of arrival 1 is due raises, pipelines 0 and 1 never reach the simulator; the good file is handed out in full *)
Example C14_witness_trace_bad_fourth :
  wt_replay [LazyExamples.due 0%Q; LazyExamples.due 1%Q; LazyExamples.due 5%Q] LazyExamples.bad_fourth
    = ([[]], Some RUnknownLaw) /\
  wt_replay [LazyExamples.due 0%Q; LazyExamples.due 1%Q; LazyExamples.due 5%Q] LazyExamples.five =
    ([[]; [(0, LazyExamples.at_ 1%Q); (1, LazyExamples.at_ 1%Q)];
      [(2, LazyExamples.at_ 2%Q); (3, LazyExamples.at_ 3%Q); (4, LazyExamples.at_ 3%Q)]], None).
Proof. exact LazyExamples.ex_trace_bad_fourth. Qed.

(* The readiness predicate made concrete (Model/TraceFile.v, property C13 part 5): [file_replay_with rnd tps n rows] is
   WorkloadTrace(CSVWorkloadReader(rows), tps) driven by n calls of run_one_tick, i.e. [wt_replay] with the test
   get_next_batch_tick() <= current_tick of call t computed by Model/Trace.v. It is an instance of the machine above, so
   the three theorems above hold of it; kind 44 of the correspondence check drives the real WorkloadTrace against it *)
From Eudoxia Require Import Model.TraceFile Proofs.TraceFileFacts.
Close Scope Q_scope.
Close Scope Z_scope.

Theorem C14_trace_file_replay_is_lookahead_machine : forall (rnd : Q -> Q) tps n rows,
  file_replay_with rnd tps n rows = wt_replay (file_readys rnd tps n) rows /\ length (file_readys rnd tps n) = n.
Proof. exact TraceFileFacts.file_replay_is_wt_replay. Qed.
Print Assumptions C14_trace_file_replay_is_lookahead_machine.

Theorem C14_trace_file_lookahead_prefix : forall (rnd : Q -> Q) tps n rows ticks oe',
  file_replay_with rnd tps n rows = (ticks, oe') ->
  exists m, concat ticks = concat (firstn m (fst (lazy_batches rows))) /\
            forall e, oe' = Some e ->
              snd (lazy_batches rows) = Some e /\ m <= pred (length (fst (lazy_batches rows))).
Proof. exact TraceFileFacts.file_lookahead_prefix. Qed.
Print Assumptions C14_trace_file_lookahead_prefix.
