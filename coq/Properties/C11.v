(* C11 Pool-level OOM kills take highest scorers first and stop once usage fits.
   Statements only; every proof is [exact <lemma of Proofs/OomFacts.v>]. The theorems are about
   ResourcePool._run_out_of_memory_killer as modelled in Model/Pool.v ([oom_killer]), for every list
   of containers, every capacity and every rounding function [cf_rnd] (the score is the one the code
   computes, [score C c] = usage * (usage / allocation) with its two float operations).
   Second half, [float]: in the float-faithful model (forall x, cf_rnd C x == rnd64 x) float near-ties cannot
   reorder candidates whose exact scores are clearly apart; explicit relative gaps (Proofs/FloatBoundFacts.v). *)
From Coq Require Import List ZArith QArith Sorting.Sorted Sorting.Permutation.
Import ListNotations.
From Eudoxia Require Import Model.Types Model.Lifecycle Model.Container Model.Pool Proofs.OomFacts
  Num.Rnd64 Proofs.FloatBoundFacts.

(* the candidate order: a stable, descending sort of exactly the unfinished containers that use memory *)
Theorem C11_order_sorted : forall l,
  StronglySorted (fun a b => (fst b <= fst a)%Q) (sort_desc l).
Proof. exact sort_desc_sorted. Qed.
Print Assumptions C11_order_sorted.

Theorem C11_order_perm : forall l, Permutation (sort_desc l) l.
Proof. exact sort_desc_perm. Qed.
Print Assumptions C11_order_perm.

Theorem C11_order_stable : forall l l1 l2 l3 x y,
  (fst x == fst y)%Q -> l = l1 ++ x :: l2 ++ y :: l3 ->
  exists m1 m2 m3, sort_desc l = m1 ++ x :: m2 ++ y :: m3.
Proof. exact sort_desc_stable. Qed.
Print Assumptions C11_order_stable.

(* "Containers that finished in that tick or use no memory are never chosen" *)
Theorem C11_candidates : forall C act id,
  In id (victims_order C act) <-> exists c, In c act /\ scorable c = true /\ c_id c = id.
Proof. exact victims_order_scorable. Qed.
Print Assumptions C11_candidates.

(* The whole killer: step 1 kills exactly the containers over their own limit; step 2 kills a prefix of
   the candidate order; no candidate with a strictly higher score survives a victim; every kill happened
   while the tracked usage still exceeded capacity; the loop stops as soon as it fits. *)
Theorem C11_oom_killer_spec : forall C max w cons act w' cons' act',
  NoDup (map c_id act) ->
  oom_killer C max w cons act = Ok (w', cons', act') ->
  exists w1 cons1 act1 k vs,
    kill_over_limit C w cons act = Ok (w1, cons1, act1) /\
    act1 = map (kill_when over_limit) act /\
    k <= length (victims_order C act1) /\
    map c_id vs = firstn k (victims_order C act1) /\
    act' = map (kill_if (firstn k (victims_order C act1))) act1 /\
    (forall id, In id (ids_killed act1 act') <-> In id (firstn k (victims_order C act1))) /\
    Forall (fun v => In v act1 /\ scorable v = true) vs /\
    (forall v s, In v vs -> In s act1 -> scorable s = true ->
                 ~ In (c_id s) (ids_killed act1 act') ->
                 (score C s <= score C v)%Q /\ ~ (score C v < score C s)%Q) /\
    cons' = fold_left (cons_after C) vs cons1 /\
    Forall (fun q => Qle_bool q max = false) (kill_trace C cons1 vs) /\
    (k = length (victims_order C act1) \/ Qle_bool cons' max = true).
Proof. exact oom_killer_spec. Qed.
Print Assumptions C11_oom_killer_spec.

(* V = [] when the usage already fits after step 1 *)
Theorem C11_no_pool_kill_when_fits : forall C max w cons act w1 cons1 act1,
  kill_over_limit C w cons act = Ok (w1, cons1, act1) ->
  Qle_bool cons1 max = true ->
  oom_killer C max w cons act = Ok (w1, cons1, act1).
Proof. exact no_pool_kill_when_fits. Qed.
Print Assumptions C11_no_pool_kill_when_fits.

(* with exact arithmetic: "no kill happens that was not needed" — before the j-th kill the usage that
   remained after the earlier victims still exceeded the pool *)
Theorem C11_kills_needed_exact : forall C,
  (forall x, (cf_rnd C x == x)%Q) ->
  forall vs cons max,
  Forall (fun q => Qle_bool q max = false) (kill_trace C cons vs) ->
  forall j, j < length vs -> (max < cons - sumQ (map c_mem (firstn j vs)))%Q.
Proof. exact kill_trace_exact. Qed.
Print Assumptions C11_kills_needed_exact.

(* non-vacuity: four candidates with a tie, pool over capacity: order [2;0;1], victims 2 then 0 *)
Example C11_witness_order : victims_order Examples.exC Examples.exAct = [2; 0; 1].
Proof. exact Examples.ex_order. Qed.

(* ====================================================================== *)
(* [float] the float-faithful model                                        *)
(* ====================================================================== *)
(* The score the code computes for usage m and allocation r is rnd64 (m * rnd64 (m / r))
   (consumption_percent = consumption_gb / ram; score = consumption_gb * consumption_percent);
   the exact score is m * (m / r) = m^2 / r. *)

(* [float] exact scores apart by the relative gap 2 / (2^53 - 1) are never reordered by the roundings ... *)
Theorem C11_float_score_order : forall m1 r1 m2 r2,
  (0 < m1)%Q -> (0 < r1)%Q -> (0 < m2)%Q -> (0 < r2)%Q ->
  (m1 * (m1 / r1) * (1 + (2 # 9007199254740991)) <= m2 * (m2 / r2))%Q ->
  (rnd64 (m1 * rnd64 (m1 / r1)) <= rnd64 (m2 * rnd64 (m2 / r2)))%Q.
Proof. exact score_order_weak. Qed.
Print Assumptions C11_float_score_order.

(* ... and apart by 5 * 2^-53 they stay strictly ordered (no float tie either) *)
Theorem C11_float_score_order_strict : forall m1 r1 m2 r2,
  (0 < m1)%Q -> (0 < r1)%Q -> (0 < m2)%Q -> (0 < r2)%Q ->
  (m1 * (m1 / r1) * (1 + (5 # 9007199254740992)) <= m2 * (m2 / r2))%Q ->
  (rnd64 (m1 * rnd64 (m1 / r1)) < rnd64 (m2 * rnd64 (m2 / r2)))%Q.
Proof. exact score_order_strict. Qed.
Print Assumptions C11_float_score_order_strict.

(* the computed score is within two roundings of the exact one *)
Theorem C11_float_score_error : forall m r, (0 < m)%Q -> (0 < r)%Q ->
  (m * (m / r) * ((1 - (1 # 9007199254740992)) * (1 - (1 # 9007199254740992))) <= rnd64 (m * rnd64 (m / r)))%Q /\
  (rnd64 (m * rnd64 (m / r)) <= m * (m / r) * ((1 + (1 # 9007199254740992)) * (1 + (1 # 9007199254740992))))%Q.
Proof. exact score_f_bounds. Qed.
Print Assumptions C11_float_score_error.

(* [float] monotonicity that holds without any gap: same allocation, more memory -> the score does not
   decrease; same memory, larger allocation -> it does not increase *)
Theorem C11_float_score_mono_mem : forall m1 m2 r,
  (0 <= m1)%Q -> (m1 <= m2)%Q -> (0 < r)%Q ->
  (rnd64 (m1 * rnd64 (m1 / r)) <= rnd64 (m2 * rnd64 (m2 / r)))%Q.
Proof. exact score_f_mono_mem. Qed.
Print Assumptions C11_float_score_mono_mem.

Theorem C11_float_score_anti_ram : forall m r1 r2,
  (0 <= m)%Q -> (0 < r1)%Q -> (r1 <= r2)%Q ->
  (rnd64 (m * rnd64 (m / r2)) <= rnd64 (m * rnd64 (m / r1)))%Q.
Proof. exact score_f_anti_ram. Qed.
Print Assumptions C11_float_score_anti_ram.

(* [float] the candidate order: a candidate whose exact score is larger by the gap comes first *)
Theorem C11_float_order_clearly_above_first : forall C act v s,
  (forall x, (cf_rnd C x == rnd64 x)%Q) ->
  In v act -> In s act -> scorable v = true -> scorable s = true ->
  (0 < c_ram v)%Q -> (0 < c_ram s)%Q ->
  (c_mem v * (c_mem v / c_ram v) * (1 + (5 # 9007199254740992)) <= c_mem s * (c_mem s / c_ram s))%Q ->
  exists l1 l2 l3, victims_order C act = l1 ++ c_id s :: l2 ++ c_id v :: l3.
Proof. exact float_order_clearly_above_first. Qed.
Print Assumptions C11_float_order_clearly_above_first.

(* [float] the killer: no container is killed by the pool-level loop while a surviving candidate has an
   exact score larger by more than the relative gap 5 * 2^-53 (act1 is the list after step 1) *)
Theorem C11_float_no_survivor_clearly_above : forall C max w cons act w' cons' act',
  (forall x, (cf_rnd C x == rnd64 x)%Q) ->
  NoDup (map c_id act) ->
  oom_killer C max w cons act = Ok (w', cons', act') ->
  exists w1 cons1 act1,
    kill_over_limit C w cons act = Ok (w1, cons1, act1) /\
    forall v s, In v act1 -> In s act1 -> scorable s = true ->
      In (c_id v) (ids_killed act1 act') -> ~ In (c_id s) (ids_killed act1 act') ->
      (0 < c_mem v * (c_mem v / c_ram v))%Q /\
      (c_mem s * (c_mem s / c_ram s) < c_mem v * (c_mem v / c_ram v) * (1 + (5 # 9007199254740992)))%Q.
Proof. exact float_no_survivor_clearly_above. Qed.
Print Assumptions C11_float_no_survivor_clearly_above.

(* the gap is needed: A uses 46.96208577139648 of 140 GB, B uses 17.75 of 20 GB; the exact score of B is
   larger (by a relative 0.76 * 2^-53), the float score of A is larger (15.753125 against
   15.753124999999999), and the float-faithful killer takes A before B although B stands first *)
Example C11_float_gap_needed :
  let mA := (6609325999393827 # 140737488355328)%Q in
  let mB := (71 # 4)%Q in
  (mA * (mA / 140) < mB * (mB / 20))%Q /\
  (rnd64 (mB * rnd64 (mB / 20)) < rnd64 (mA * rnd64 (mA / 140)))%Q /\
  (mB * (mB / 20) < mA * (mA / 140) * (1 + (2 # 9007199254740991)))%Q /\
  victims_order FloatExamples.exF
    [FloatExamples.mkc 1 20 mB; FloatExamples.mkc 0 140 mA] = [0; 1] /\
  victims_order Examples.exC
    [FloatExamples.mkc 1 20 mB; FloatExamples.mkc 0 140 mA] = [1; 0].
Proof.
  split; [exact (proj1 FloatExamples.ex_swap)|].
  split; [exact (proj1 (proj2 FloatExamples.ex_swap))|].
  split; [exact (proj2 (proj2 FloatExamples.ex_swap))|].
  exact FloatExamples.ex_swap_order.
Qed.

(* non-vacuity of the order theorem: scores 2 and 6 in the float-faithful configuration *)
Example C11_float_witness_order :
  exists l1 l2 l3,
    victims_order FloatExamples.exF
      [FloatExamples.mkc 0 8 4; FloatExamples.mkc 1 6 6] = l1 ++ 1 :: l2 ++ 0 :: l3.
Proof. exact FloatExamples.ex_clear_order. Qed.

(* ====================================================================== *)
(* Simulator level: the pool-level kills of every tick of a whole run      *)
(* ====================================================================== *)
(* [sim_reach C a 0 (init_sim C np cpu ram) t s]: [s] is the simulator state after [t] ticks of some run of
   the shipped scheduler [a] (in particular overbook with RAM overcommit, the only configuration in which the
   pool-level loop finds victims, C04_sim_kill_justified); every tick of [sim_run] is such a [sim_tick]
   (C04_sim_run_ticks). Any rounding function. For the pool at position [i] ([p] before the tick, [p']
   after it; same id and capacity), ticked with its share [ss], [asgs] of the commands of the tick and a
   container-id counter [next] not below the counter of the state. The containers the killer sees ARE the
   containers of the pool (the link, audit C P2):
     [kept] = the running containers of [p] that no command of [ss] names, in order;
     [act2] = [kept] followed by the containers the assignments create ([new_containers next asgs]: [new_container]
              with ids next, next+1, ..); they are ticked starting from the usage figure [cons3] = the usage of [p],
              recomputed over [kept] if the tick has a suspension;
     [act4] = [map (cstep C) act2]: each after its [ctick] of this tick ([cstep], Proofs/SimTimelineFacts.v) - the
              containers as they enter the killer (distinct ids), [cons4] the usage figure the pool has tracked;
     [act5] as they leave the killer; the running ones among [act5] are the pool's active list after the tick, the
   finished ones are its results of the tick; and the killer's run satisfies the conclusion of
   C11_oom_killer_spec with the capacity of the pool: own-limit kills first, then a prefix of the descending
   score order, no candidate with a strictly higher score survives a victim, every kill happened while the
   tracked usage exceeded the capacity, the loop stops as soon as it fits. *)
From Eudoxia Require Import Model.Executor Model.Sched Model.Simulator Proofs.PriorityPoolRunFacts
  Proofs.SimCorollaryFacts Proofs.LedgerFacts Proofs.SimTimelineFacts Proofs.AuditRepairFacts.

Theorem C11_sim_kills : forall C a np cpu ram t s newp s' lg i p,
  sim_reach C a 0%Z (init_sim C np cpu ram) t s ->
  sim_tick C a t s newp = Ok (s', lg) ->
  nth_error (e_pools (sm_exec s)) i = Some p ->
  exists p' res next act2 w3 cons3 w4 cons4 act4 w5 cons5 act5,
    let ss := filter (fun x => (su_pool x =? Z.of_nat (p_id p))%Z) (tl_susp lg) in
    let asgs := filter (fun x => (a_pool x =? Z.of_nat (p_id p))%Z) (tl_asgs lg) in
    let kept := filter (fun c => negb (memb (c_id c) (map su_cid ss))) (p_active p) in
    nth_error (e_pools (sm_exec s')) i = Some p' /\ p_id p' = p_id p /\ p_max_ram p' = p_max_ram p /\
    incl res (tl_results lg) /\
    (e_next (sm_exec s) <= next)%nat /\
    act2 = kept ++ new_containers next asgs /\
    cons3 = match ss with [] => p_consumed p | _ :: _ => reconcile C kept end /\
    tick_active C w3 cons3 act2 = Ok (w4, cons4, act4) /\
    act4 = map (cstep C) act2 /\
    NoDup (map c_id act4) /\
    oom_killer C (p_max_ram p) w4 cons4 act4 = Ok (w5, cons5, act5) /\
    p_active p' = filter (fun c => negb (c_completed c)) act5 /\
    res = map (result_of (p_id p)) (filter c_completed act5) /\
    exists w1 cons1 act1 k vs,
      kill_over_limit C w4 cons4 act4 = Ok (w1, cons1, act1) /\
      act1 = map (kill_when over_limit) act4 /\
      (k <= length (victims_order C act1))%nat /\
      map c_id vs = firstn k (victims_order C act1) /\
      act5 = map (kill_if (firstn k (victims_order C act1))) act1 /\
      (forall id, In id (ids_killed act1 act5) <-> In id (firstn k (victims_order C act1))) /\
      Forall (fun v => In v act1 /\ scorable v = true) vs /\
      (forall v x, In v vs -> In x act1 -> scorable x = true ->
                   ~ In (c_id x) (ids_killed act1 act5) ->
                   (score C x <= score C v)%Q /\ ~ (score C v < score C x)%Q) /\
      cons5 = fold_left (cons_after C) vs cons1 /\
      Forall (fun q => Qle_bool q (p_max_ram p) = false) (kill_trace C cons1 vs) /\
      (k = length (victims_order C act1) \/ Qle_bool cons5 (p_max_ram p) = true).
Proof. exact AuditRepairFacts.sim_kills_linked. Qed.
Print Assumptions C11_sim_kills.

(* the link is what fixes the victims. Tick 0, pool 0 of the witness run below: audit C satisfied the body WITHOUT
   the link with k = 0, vs = [] ("no pool-level victim") by a fabricated container 0
   (AuditExamplesC.C04.C11_sim_kills_body_accepts_no_pool_level_victim) although the run had one. Seven conjuncts of
   the body above (the link, the two kill equations, the running list of the pool after the tick) force a victim *)
Example C11_sim_kills_link_forces_victim :
  forall p' next act2 act4 act1 act5 k vs,
    nth_error (e_pools (sm_exec SimCorExamples.k1)) 0 = Some p' ->
    act2 = filter (fun c => negb (memb (c_id c) (map su_cid
                     (filter (fun x => (su_pool x =? Z.of_nat (p_id LinkExamples.kp))%Z)
                             (tl_susp SimCorExamples.klg0))))) (p_active LinkExamples.kp)
           ++ new_containers next
                (filter (fun x => (a_pool x =? Z.of_nat (p_id LinkExamples.kp))%Z) (tl_asgs SimCorExamples.klg0)) ->
    act4 = map (cstep SimCorExamples.Ck) act2 ->
    act1 = map (kill_when over_limit) act4 ->
    map c_id vs = firstn k (victims_order SimCorExamples.Ck act1) ->
    act5 = map (kill_if (firstn k (victims_order SimCorExamples.Ck act1))) act1 ->
    p_active p' = filter (fun c => negb (c_completed c)) act5 ->
    k <> 0%nat /\ vs <> [].
Proof. exact AuditRepairFacts.LinkExamples.link_forces_pool_level_victim. Qed.

(* ([LinkExamples.kp] is pool 0 of the state before that tick) *)
Example C11_sim_kills_link_pool :
  nth_error (e_pools (sm_exec SimCorExamples.k0)) 0 = Some LinkExamples.kp.
Proof. exact AuditRepairFacts.LinkExamples.k_pool0_is. Qed.

(* non-vacuity: the overbook run of C04_sim_witness (RAM overcommit, two containers of 6 GB with 10 GB
   allocations on a pool of 10 GB): the theorem applies to tick 0 and pool 0; container 0 (first of two equal
   scores) is the victim, container 1 survives and the pool fits again *)
Example C11_sim_witness :
  sim_reach SimCorExamples.Ck AOverbook 0%Z (init_sim SimCorExamples.Ck 1 10%Z 10%Q) 0%Z SimCorExamples.k0 /\
  sim_tick SimCorExamples.Ck AOverbook 0%Z SimCorExamples.k0 [0%nat; 1%nat]
    = Ok (SimCorExamples.k1, SimCorExamples.klg0) /\
  (exists p, nth_error (e_pools (sm_exec SimCorExamples.k0)) 0 = Some p) /\
  map (fun r => (r_cid r, r_err r, Qred (r_ram r))) (tl_results SimCorExamples.klg0) = [(0%nat, true, 10%Q)] /\
  map (fun p => map (fun c => (c_id c, Qred (c_mem c), Qred (c_ram c))) (p_active p))
      (e_pools (sm_exec SimCorExamples.k1)) = [[(1%nat, 6%Q, 10%Q)]] /\
  map (fun p => Qred (p_consumed p)) (e_pools (sm_exec SimCorExamples.k1)) = [6%Q].
Proof.
  split; [exact SimCorExamples.k_reach0|]. split; [exact SimCorExamples.k_tick0|].
  split; [exact SimCorExamples.k_pool0|]. exact (proj2 SimCorExamples.k_facts).
Qed.
