(* C11 Pool-level OOM kills take highest scorers first and stop once usage fits.
   Statements only; every proof is [exact <lemma of Proofs/OomFacts.v>]. The theorems are about
   ResourcePool._run_out_of_memory_killer as modelled in Model/Pool.v ([oom_killer]), for every list
   of containers, every capacity and every rounding function [cf_rnd] (the score is the one the code
   computes, [score C c] = usage * (usage / allocation) with its two float operations). *)
From Coq Require Import List ZArith QArith Sorting.Sorted Sorting.Permutation.
Import ListNotations.
From Eudoxia Require Import Model.Types Model.Lifecycle Model.Container Model.Pool Proofs.OomFacts.

(* the candidate order: a stable, descending sort of exactly the unfinished containers that use memory *)
Theorem C11_order_sorted : forall l,
  StronglySorted (fun a b => (fst b <= fst a)%Q) (sort_desc l).
Proof. exact sort_desc_sorted. Qed.
Print Assumptions C11_order_sorted.

Theorem C11_order_perm : forall l, Permutation (sort_desc l) l.
Proof. exact sort_desc_perm. Qed.
Print Assumptions C11_order_perm.

Theorem C11_order_stable : forall l l1 l2 l3 x y,
  (fst x == fst y)%Q -> l = l1 ++ x :: l2 ++ y :: l3 ->
  exists m1 m2 m3, sort_desc l = m1 ++ x :: m2 ++ y :: m3.
Proof. exact sort_desc_stable. Qed.
Print Assumptions C11_order_stable.

(* "Containers that finished in that tick or use no memory are never chosen" *)
Theorem C11_candidates : forall C act id,
  In id (victims_order C act) <-> exists c, In c act /\ scorable c = true /\ c_id c = id.
Proof. exact victims_order_scorable. Qed.
Print Assumptions C11_candidates.

(* The whole killer: step 1 kills exactly the containers over their own limit; step 2 kills a prefix of
   the candidate order; no candidate with a strictly higher score survives a victim; every kill happened
   while the tracked usage still exceeded capacity; the loop stops as soon as it fits. *)
Theorem C11_oom_killer_spec : forall C max w cons act w' cons' act',
  NoDup (map c_id act) ->
  oom_killer C max w cons act = Ok (w', cons', act') ->
  exists w1 cons1 act1 k vs,
    kill_over_limit C w cons act = Ok (w1, cons1, act1) /\
    act1 = map (kill_when over_limit) act /\
    k <= length (victims_order C act1) /\
    map c_id vs = firstn k (victims_order C act1) /\
    act' = map (kill_if (firstn k (victims_order C act1))) act1 /\
    (forall id, In id (ids_killed act1 act') <-> In id (firstn k (victims_order C act1))) /\
    Forall (fun v => In v act1 /\ scorable v = true) vs /\
    (forall v s, In v vs -> In s act1 -> scorable s = true ->
                 ~ In (c_id s) (ids_killed act1 act') ->
                 (score C s <= score C v)%Q /\ ~ (score C v < score C s)%Q) /\
    cons' = fold_left (cons_after C) vs cons1 /\
    Forall (fun q => Qle_bool q max = false) (kill_trace C cons1 vs) /\
    (k = length (victims_order C act1) \/ Qle_bool cons' max = true).
Proof. exact oom_killer_spec. Qed.
Print Assumptions C11_oom_killer_spec.

(* V = [] when the usage already fits after step 1 *)
Theorem C11_no_pool_kill_when_fits : forall C max w cons act w1 cons1 act1,
  kill_over_limit C w cons act = Ok (w1, cons1, act1) ->
  Qle_bool cons1 max = true ->
  oom_killer C max w cons act = Ok (w1, cons1, act1).
Proof. exact no_pool_kill_when_fits. Qed.
Print Assumptions C11_no_pool_kill_when_fits.

(* with exact arithmetic: "no kill happens that was not needed" — before the j-th kill the usage that
   remained after the earlier victims still exceeded the pool *)
Theorem C11_kills_needed_exact : forall C,
  (forall x, (cf_rnd C x == x)%Q) ->
  forall vs cons max,
  Forall (fun q => Qle_bool q max = false) (kill_trace C cons vs) ->
  forall j, j < length vs -> (max < cons - sumQ (map c_mem (firstn j vs)))%Q.
Proof. exact kill_trace_exact. Qed.
Print Assumptions C11_kills_needed_exact.

(* non-vacuity: four candidates with a tie, pool over capacity: order [2;0;1], victims 2 then 0 *)
Example C11_witness_order : victims_order Examples.exC Examples.exAct = [2; 0; 1].
Proof. exact Examples.ex_order. Qed.
