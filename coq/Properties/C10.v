(* C10: theorem statements are added when the corresponding Proofs file is merged. *)
From Coq Require Import List ZArith QArith.
From Eudoxia Require Import Num.Rnd64 Model.Types Model.Lifecycle Model.Container.
(* 10 GB at 1 tick/s: the write-out rounds to zero ticks and lasts one (fix 2d917f8) *)
Example C10_min_one_tick : forall S scr, suspend_ticks
  {| cf_static := S; cf_script := scr; cf_tps := 1; cf_overcommit := false; cf_multi := true; cf_rnd := rnd64 |} 10 = 1%Z.
Proof. intros. vm_compute. reflexivity. Qed.
Print Assumptions C10_min_one_tick.
