(* C10 Suspension only between operators, lasts RAM/20 s, returns work intact.
   Statements only; every proof is [exact <lemma of Proofs/SuspendFacts.v>]. *)
From Coq Require Import List ZArith QArith.
Import ListNotations.
From Eudoxia Require Import Num.Rnd64 Model.Types Model.Lifecycle Model.Container Model.Pool Model.Executor
  Proofs.LedgerFacts Proofs.SuspendFacts.
Close Scope Q_scope.
Close Scope Z_scope.

(* a batch of suspend commands passes the pool's check iff every command names a running container that
   can be suspended right now *)
Theorem C10_accept_iff : forall act ss,
  verify_suspends act ss = Ok tt <-> Forall (suspendable act) ss.
Proof. exact verify_suspends_iff. Qed.
Print Assumptions C10_accept_iff.

(* a request for a container that is not running (unknown, suspending, suspended, finished) or that is
   not at an operator boundary is rejected: the pool tick is the error *)
Theorem C10_rejected : forall C w next p ss asgs s,
  In s ss ->
  (forall c, find_container (su_cid s) (p_active p) = Some c -> c_can_suspend c = false) ->
  pool_tick C w next p ss asgs = Err EBadSuspend.
Proof. exact suspend_rejected. Qed.
Print Assumptions C10_rejected.

(* can_suspend holds only right after an operator finished while another remains: after every pool tick, a
   running container with can_suspend has just completed operator c_opidx-1 and has not started the next *)
Theorem C10_only_between_operators : forall C w next p ss asgs w' next' p' res,
  (forall c, In c (p_active p) -> c_completed c = false /\ c_frozen c = false) ->
  pool_tick C w next p ss asgs = Ok (w', next', p', res) ->
  forall c', In c' (p_active p') ->
    c_completed c' = false /\ c_frozen c' = false /\
    (c_can_suspend c' = true ->
     exists c, (In c (p_active p) \/ In c (new_containers next asgs)) /\
               c_id c = c_id c' /\ c_ops c = c_ops c' /\
               c_opidx c' = S (c_opidx c) /\ c_opidx c' < length (c_ops c') /\ c_rest c' = None).
Proof. exact suspendable_only_between_operators. Qed.
Print Assumptions C10_only_between_operators.

(* duration: at least one tick; floor(ram/20 * tps) in exact arithmetic *)
Theorem C10_at_least_one_tick : forall C ram, (1 <= suspend_ticks C ram)%Z.
Proof. exact suspend_ticks_ge_1. Qed.
Print Assumptions C10_at_least_one_tick.

Theorem C10_duration_exact : forall C ram,
  (forall x, (cf_rnd C x == x)%Q) -> (0 <= ram)%Q -> (0 < cf_tps C)%Z ->
  suspend_ticks C ram = Z.max 1 (floorQ (ram / 20 * inject_Z (cf_tps C))%Q).
Proof. exact suspend_ticks_exact. Qed.
Print Assumptions C10_duration_exact.

(* it lasts exactly D ticks, during which the container makes no progress ([same_but_susp]: every field
   except the countdown is unchanged) and nothing in the world changes *)
Theorem C10_lasts_D_ticks : forall C w c w1 c1,
  csuspend C w c = Ok (w1, c1) ->
  let D := suspend_ticks C (c_ram c) in
  (forall k, (Z.of_nat k < D)%Z ->
     exists ck, susp_iter C w1 c1 k = Ok (w1, ck) /\ is_suspended ck = false /\ same_but_susp c ck) /\
  (forall k wk ck, Z.of_nat k = D -> susp_iter C w1 c1 k = Ok (wk, ck) ->
     is_suspended ck = true /\ same_but_susp c ck).
Proof. exact suspension_lasts. Qed.
Print Assumptions C10_lasts_D_ticks.

(* pool level: the accepted command's tick is the first of the D ticks *)
Theorem C10_accepted_tick : forall C w next p ss asgs w' next' p' res s,
  pool_tick C w next p ss asgs = Ok (w', next', p', res) -> In s ss ->
  exists c, find_container (su_cid s) (p_active p) = Some c /\ c_can_suspend c = true /\
    let D := suspend_ticks C (c_ram c) in
    (D = 1%Z -> In (with_susp c 0) (p_suspended p')) /\
    (D <> 1%Z -> In (with_susp c (D - 1)) (p_suspending p')) /\
    (forall x, In x (p_active p') -> c_id x = su_cid s -> next <= c_id x).
Proof. exact suspend_accepted_tick. Qed.
Print Assumptions C10_accepted_tick.

Theorem C10_countdown : forall C w next p ss asgs w' next' p' res c,
  pool_tick C w next p ss asgs = Ok (w', next', p', res) -> In c (p_suspending p) ->
  ((c_susp_left c = 1)%Z -> In (with_susp c 0) (p_suspended p')) /\
  ((c_susp_left c <> 1)%Z -> In (with_susp c (c_susp_left c - 1)) (p_suspending p')).
Proof. exact suspending_countdown. Qed.
Print Assumptions C10_countdown.

(* then its finished operators stay completed, its unfinished ones are pending and can be assigned again
   (the release of exactly its allocation is C03_returned_in_the_tick_it_leaves) *)
Theorem C10_returns_work_intact : forall C w c w1 c1 w2 c2,
  NoDup (c_ops c) -> (forall o, In o (c_ops c) -> o < length (w_st w)) ->
  (forall o, In o (firstn (c_opidx c) (c_ops c)) -> st_of w o = Completed) ->
  (forall o, In o (skipn (c_opidx c) (c_ops c)) -> st_of w o = Assigned) ->
  csuspend C w c = Ok (w1, c1) ->
  susp_iter C w1 c1 (Z.to_nat (suspend_ticks C (c_ram c))) = Ok (w2, c2) ->
  is_suspended c2 = true /\ same_but_susp c c2 /\
  (forall o, In o (skipn (c_opidx c) (c_ops c)) -> st_of w2 o = Pending) /\
  (forall o, In o (firstn (c_opidx c) (c_ops c)) -> st_of w2 o = Completed) /\
  (forall o, ~ In o (skipn (c_opidx c) (c_ops c)) -> st_of w2 o = st_of w o) /\
  (forall cpu ram pr pl, c_opidx c < length (c_ops c) -> (0 < cpu)%Z -> (0 < ram)%Q ->
     exists w3, mk_assignment C w2 {| a_ops := skipn (c_opidx c) (c_ops c); a_cpu := cpu;
                                      a_ram := ram; a_prio := pr; a_pool := pl |} = Ok w3).
Proof. exact suspend_release_states. Qed.
Print Assumptions C10_returns_work_intact.

(* the float-faithful count: 10 GB at 1 tick/s rounds to zero ticks and lasts one (fix 2d917f8);
   40 GB at 1 tick/s lasts 2; 64 GB at 10 ticks/s lasts 32 *)
Example C10_durations : forall S scr,
  let C tps := {| cf_static := S; cf_script := scr; cf_tps := tps; cf_overcommit := false;
                  cf_multi := true; cf_rnd := rnd64 |} in
  suspend_ticks (C 1%Z) 10 = 1%Z /\ suspend_ticks (C 1%Z) 40 = 2%Z /\ suspend_ticks (C 10%Z) 64 = 32%Z.
Proof. intros. repeat split; vm_compute; reflexivity. Qed.
