(* C10 Suspension only between operators, lasts RAM/20 s, returns work intact.
   Statements only; every proof is [exact <lemma of Proofs/SuspendFacts.v>]. *)
From Coq Require Import List ZArith QArith.
Import ListNotations.
From Eudoxia Require Import Num.Rnd64 Model.Types Model.Lifecycle Model.Container Model.Pool Model.Executor
  Proofs.LedgerFacts Proofs.SuspendFacts.
Close Scope Q_scope.
Close Scope Z_scope.

(* a batch of suspend commands passes the pool's check iff every command names a running container that
   can be suspended right now *)
Theorem C10_accept_iff : forall act ss,
  verify_suspends act ss = Ok tt <-> Forall (suspendable act) ss.
Proof. exact verify_suspends_iff. Qed.
Print Assumptions C10_accept_iff.

(* a request for a container that is not running (unknown, suspending, suspended, finished) or that is
   not at an operator boundary is rejected: the pool tick is the error *)
Theorem C10_rejected : forall C w next p ss asgs s,
  In s ss ->
  (forall c, find_container (su_cid s) (p_active p) = Some c -> c_can_suspend c = false) ->
  pool_tick C w next p ss asgs = Err EBadSuspend.
Proof. exact suspend_rejected. Qed.
Print Assumptions C10_rejected.

(* can_suspend holds only right after an operator finished while another remains: after every pool tick, a
   running container with can_suspend has just completed operator c_opidx-1 and has not started the next *)
Theorem C10_only_between_operators : forall C w next p ss asgs w' next' p' res,
  (forall c, In c (p_active p) -> c_completed c = false /\ c_frozen c = false) ->
  pool_tick C w next p ss asgs = Ok (w', next', p', res) ->
  forall c', In c' (p_active p') ->
    c_completed c' = false /\ c_frozen c' = false /\
    (c_can_suspend c' = true ->
     exists c, (In c (p_active p) \/ In c (new_containers next asgs)) /\
               c_id c = c_id c' /\ c_ops c = c_ops c' /\
               c_opidx c' = S (c_opidx c) /\ c_opidx c' < length (c_ops c') /\ c_rest c' = None).
Proof. exact suspendable_only_between_operators. Qed.
Print Assumptions C10_only_between_operators.

(* duration: at least one tick; floor(ram/20 * tps) in exact arithmetic *)
Theorem C10_at_least_one_tick : forall C ram, (1 <= suspend_ticks C ram)%Z.
Proof. exact suspend_ticks_ge_1. Qed.
Print Assumptions C10_at_least_one_tick.

Theorem C10_duration_exact : forall C ram,
  (forall x, (cf_rnd C x == x)%Q) -> (0 <= ram)%Q -> (0 < cf_tps C)%Z ->
  suspend_ticks C ram = Z.max 1 (floorQ (ram / 20 * inject_Z (cf_tps C))%Q).
Proof. exact suspend_ticks_exact. Qed.
Print Assumptions C10_duration_exact.

(* it lasts exactly D ticks, during which the container makes no progress ([same_but_susp]: every field
   except the countdown is unchanged) and nothing in the world changes *)
Theorem C10_lasts_D_ticks : forall C w c w1 c1,
  csuspend C w c = Ok (w1, c1) ->
  let D := suspend_ticks C (c_ram c) in
  (forall k, (Z.of_nat k < D)%Z ->
     exists ck, susp_iter C w1 c1 k = Ok (w1, ck) /\ is_suspended ck = false /\ same_but_susp c ck) /\
  (forall k wk ck, Z.of_nat k = D -> susp_iter C w1 c1 k = Ok (wk, ck) ->
     is_suspended ck = true /\ same_but_susp c ck).
Proof. exact suspension_lasts. Qed.
Print Assumptions C10_lasts_D_ticks.

(* pool level: the accepted command's tick is the first of the D ticks *)
Theorem C10_accepted_tick : forall C w next p ss asgs w' next' p' res s,
  pool_tick C w next p ss asgs = Ok (w', next', p', res) -> In s ss ->
  exists c, find_container (su_cid s) (p_active p) = Some c /\ c_can_suspend c = true /\
    let D := suspend_ticks C (c_ram c) in
    (D = 1%Z -> In (with_susp c 0) (p_suspended p')) /\
    (D <> 1%Z -> In (with_susp c (D - 1)) (p_suspending p')) /\
    (forall x, In x (p_active p') -> c_id x = su_cid s -> next <= c_id x).
Proof. exact suspend_accepted_tick. Qed.
Print Assumptions C10_accepted_tick.

Theorem C10_countdown : forall C w next p ss asgs w' next' p' res c,
  pool_tick C w next p ss asgs = Ok (w', next', p', res) -> In c (p_suspending p) ->
  ((c_susp_left c = 1)%Z -> In (with_susp c 0) (p_suspended p')) /\
  ((c_susp_left c <> 1)%Z -> In (with_susp c (c_susp_left c - 1)) (p_suspending p')).
Proof. exact suspending_countdown. Qed.
Print Assumptions C10_countdown.

(* then its finished operators stay completed, its unfinished ones are pending and can be assigned again
   (the release of exactly its allocation is C03_returned_in_the_tick_it_leaves) *)
Theorem C10_returns_work_intact : forall C w c w1 c1 w2 c2,
  NoDup (c_ops c) -> (forall o, In o (c_ops c) -> o < length (w_st w)) ->
  (forall o, In o (firstn (c_opidx c) (c_ops c)) -> st_of w o = Completed) ->
  (forall o, In o (skipn (c_opidx c) (c_ops c)) -> st_of w o = Assigned) ->
  csuspend C w c = Ok (w1, c1) ->
  susp_iter C w1 c1 (Z.to_nat (suspend_ticks C (c_ram c))) = Ok (w2, c2) ->
  is_suspended c2 = true /\ same_but_susp c c2 /\
  (forall o, In o (skipn (c_opidx c) (c_ops c)) -> st_of w2 o = Pending) /\
  (forall o, In o (firstn (c_opidx c) (c_ops c)) -> st_of w2 o = Completed) /\
  (forall o, ~ In o (skipn (c_opidx c) (c_ops c)) -> st_of w2 o = st_of w o) /\
  (forall cpu ram pr pl, c_opidx c < length (c_ops c) -> (0 < cpu)%Z -> (0 < ram)%Q ->
     exists w3, mk_assignment C w2 {| a_ops := skipn (c_opidx c) (c_ops c); a_cpu := cpu;
                                      a_ram := ram; a_prio := pr; a_pool := pl |} = Ok w3).
Proof. exact suspend_release_states. Qed.
Print Assumptions C10_returns_work_intact.

(* the float-faithful count: 10 GB at 1 tick/s rounds to zero ticks and lasts one (fix 2d917f8);
   40 GB at 1 tick/s lasts 2; 64 GB at 10 ticks/s lasts 32 *)
Example C10_durations : forall S scr,
  let C tps := {| cf_static := S; cf_script := scr; cf_tps := tps; cf_overcommit := false;
                  cf_multi := true; cf_rnd := rnd64 |} in
  suspend_ticks (C 1%Z) 10 = 1%Z /\ suspend_ticks (C 1%Z) 40 = 2%Z /\ suspend_ticks (C 10%Z) 64 = 32%Z.
Proof. intros. repeat split; vm_compute; reflexivity. Qed.

(* ------------------------------------------------------------------------------------------ *)
(* Simulator level: suspensions over whole runs (Proofs/SimCorollaryFacts.v).                   *)
(* [sim_reach C a 0 (init_sim C np cpu ram) t s]: [s] is the simulator state after [t] ticks of some run of  *)
(* the shipped scheduler [a]; [sim_reach C a t s t' s']: the run continues from [s] (tick t) to [s'] (tick    *)
(* t'), whatever the scheduler orders in between. Of the shipped schedulers only priority issues             *)
(* suspensions; the theorems hold for every algorithm. [pipes_in_range]: the pipelines name known operators  *)
(* (true of [mk_static l] for well-formed DAGs, C10_sim_range_mk_static).                                      *)
(* ------------------------------------------------------------------------------------------ *)
From Eudoxia Require Import Model.Dag Model.Sched Model.Simulator Proofs.PriorityPoolRunFacts
  Proofs.ExecLifeFacts Proofs.PriorityRunFacts Proofs.SimCorollaryFacts.

(* the priority scheduler never has a suspension rejected: no run of it stops with EBadSuspend (this is a
   clause of C12_run_commands_admissible) ... *)
Theorem C10_sim_priority_never_rejected : forall C l np cpu ram arrivals sf logs er,
  cf_static C = mk_static l -> dags_wf l -> (0 <= cpu)%Z -> (0 <= ram)%Q ->
  sim_run C APriority 0%Z (init_sim C np cpu ram) arrivals = (sf, logs, Some er) ->
  er <> EBadSuspend.
Proof. exact SimCorollaryFacts.C10_sim_priority_never_rejected. Qed.
Print Assumptions C10_sim_priority_never_rejected.

Theorem C10_sim_range_mk_static : forall l, dags_wf l -> pipes_in_range (mk_static l).
Proof. exact mk_static_pipes_in_range. Qed.
Print Assumptions C10_sim_range_mk_static.

(* ... and every suspension command of a tick that went through names a container running in the pool it
   names, with can_suspend set; after the tick the container is one tick into its suspension of
   D = suspend_ticks ticks (already over, with its unfinished operators PENDING, when D = 1), and whoever is
   active under its id is a new container *)
Theorem C10_sim_accepted : forall C, pipes_in_range (cf_static C) ->
  forall a np cpu ram t s newp s' lg su,
  sim_reach C a 0%Z (init_sim C np cpu ram) t s ->
  sim_tick C a t s newp = Ok (s', lg) -> In su (tl_susp lg) ->
  exists i p p' c,
    su_pool su = Z.of_nat i /\ nth_error (e_pools (sm_exec s)) i = Some p /\ p_id p = i /\
    nth_error (e_pools (sm_exec s')) i = Some p' /\
    find_container (su_cid su) (p_active p) = Some c /\ c_can_suspend c = true /\
    let D := suspend_ticks C (c_ram c) in
    (D = 1%Z -> In (with_susp c 0) (p_suspended p') /\
                forall o, In o (skipn (c_opidx c) (c_ops c)) -> st_of (e_world (sm_exec s')) o = Pending) /\
    (D <> 1%Z -> In (with_susp c (D - 1)) (p_suspending p')) /\
    (forall x, In x (p_active p') -> c_id x = su_cid su -> e_next (sm_exec s) <= c_id x).
Proof. exact SimCorollaryFacts.C10_sim_accepted. Qed.
Print Assumptions C10_sim_accepted.

(* one simulator tick (any state, any commands of the scheduler): a suspending container loses one tick of
   its countdown, nothing else in it changes ([with_susp] touches the counter only), and it moves to the
   suspended list when the countdown ends *)
Theorem C10_sim_countdown : forall C a t s newp s' lg i p c,
  sim_tick C a t s newp = Ok (s', lg) ->
  nth_error (e_pools (sm_exec s)) i = Some p -> In c (p_suspending p) ->
  exists p', nth_error (e_pools (sm_exec s')) i = Some p' /\
    ((c_susp_left c = 1)%Z -> In (with_susp c 0) (p_suspended p')) /\
    ((c_susp_left c <> 1)%Z -> In (with_susp c (c_susp_left c - 1)) (p_suspending p')).
Proof. exact SimCorollaryFacts.C10_sim_countdown. Qed.
Print Assumptions C10_sim_countdown.

(* the tick in which the countdown ends returns the unfinished operators to PENDING (assignable again) *)
Theorem C10_sim_release : forall C, pipes_in_range (cf_static C) ->
  forall a np cpu ram t s newp s' lg i p c,
  sim_reach C a 0%Z (init_sim C np cpu ram) t s ->
  sim_tick C a t s newp = Ok (s', lg) ->
  nth_error (e_pools (sm_exec s)) i = Some p -> In c (p_suspending p) -> (c_susp_left c = 1)%Z ->
  forall o, In o (skipn (c_opidx c) (c_ops c)) -> st_of (e_world (sm_exec s')) o = Pending.
Proof. exact SimCorollaryFacts.C10_sim_release. Qed.
Print Assumptions C10_sim_release.

(* a container in the suspending list of a state of a run with k ticks left: t' - t < k ticks later it is
   still there, unchanged but for the counter k - (t' - t) (no progress); from k ticks on it is in the
   suspended list; in the state after exactly k ticks its unfinished operators are PENDING *)
Theorem C10_sim_countdown_run : forall C, pipes_in_range (cf_static C) ->
  forall a np cpu ram t s t' s' i p c,
  sim_reach C a 0%Z (init_sim C np cpu ram) t s ->
  sim_reach C a t s t' s' ->
  nth_error (e_pools (sm_exec s)) i = Some p -> In c (p_suspending p) -> (1 <= c_susp_left c)%Z ->
  exists p', nth_error (e_pools (sm_exec s')) i = Some p' /\
    ((t' - t < c_susp_left c)%Z -> In (with_susp c (c_susp_left c - (t' - t))) (p_suspending p')) /\
    ((c_susp_left c <= t' - t)%Z -> In (with_susp c 0) (p_suspended p')) /\
    ((t' - t = c_susp_left c)%Z ->
     forall o, In o (skipn (c_opidx c) (c_ops c)) -> st_of (e_world (sm_exec s')) o = Pending).
Proof. exact SimCorollaryFacts.C10_sim_countdown_run. Qed.
Print Assumptions C10_sim_countdown_run.

(* the whole suspension in a run. The command [su] is issued (and accepted) in tick t; [s'] is the state
   after tick t' - 1, i.e. t' - t ticks later counting the accepting tick, which is the first of the D ticks:
   while t' - t < D the container [c] sits in the suspending list of its pool with D - (t' - t) ticks left and
   is otherwise exactly as it was when suspended; from D ticks on it is in the suspended list; in the state
   after exactly D ticks its unfinished operators are PENDING (its finished ones stay COMPLETED by
   C02_sim_finality) *)
Theorem C10_sim_suspension_lasts : forall C, pipes_in_range (cf_static C) ->
  forall a np cpu ram t s newp s1 lg su t' s',
  sim_reach C a 0%Z (init_sim C np cpu ram) t s ->
  sim_tick C a t s newp = Ok (s1, lg) -> In su (tl_susp lg) ->
  sim_reach C a (t + 1)%Z s1 t' s' ->
  exists i p c p',
    su_pool su = Z.of_nat i /\ nth_error (e_pools (sm_exec s)) i = Some p /\ p_id p = i /\
    find_container (su_cid su) (p_active p) = Some c /\ c_can_suspend c = true /\
    nth_error (e_pools (sm_exec s')) i = Some p' /\
    let D := suspend_ticks C (c_ram c) in
    ((t' - t < D)%Z -> In (with_susp c (D - (t' - t))) (p_suspending p')) /\
    ((D <= t' - t)%Z -> In (with_susp c 0) (p_suspended p')) /\
    ((t' - t = D)%Z ->
     forall o, In o (skipn (c_opidx c) (c_ops c)) -> st_of (e_world (sm_exec s')) o = Pending).
Proof. exact SimCorollaryFacts.C10_sim_suspension_lasts. Qed.
Print Assumptions C10_sim_suspension_lasts.

(* non-vacuity: the priority scheduler preempts batch container 0 (operators [0; 1], operator 0 finished,
   4 GB, D = 2 at 10 ticks/s) for a query pipeline in tick 2 of a run: the hypotheses of
   C10_sim_suspension_lasts hold with t = 2, t' = 4; after tick 2 it is suspending with 1 tick left and
   operator 1 is SUSPENDING, after tick 3 it is suspended and operator 1 is PENDING again *)
Example C10_sim_witness :
  pipes_in_range (cf_static SimCorExamples.Cp) /\
  sim_reach SimCorExamples.Cp APriority 0%Z (init_sim SimCorExamples.Cp 1 2%Z 40%Q) 2%Z SimCorExamples.p2 /\
  sim_tick SimCorExamples.Cp APriority 2%Z SimCorExamples.p2 [2] = Ok (SimCorExamples.p3, SimCorExamples.plg2) /\
  (exists su, In su (tl_susp SimCorExamples.plg2) /\ su_cid su = 0) /\
  sim_reach SimCorExamples.Cp APriority 3%Z SimCorExamples.p3 4%Z SimCorExamples.p4 /\
  suspend_ticks SimCorExamples.Cp 4%Q = 2%Z /\
  map (fun p => map (fun c => (c_id c, c_susp_left c)) (p_suspending p)) (e_pools (sm_exec SimCorExamples.p3))
    = [[(0, 1%Z)]] /\
  map (fun p => map (fun c => (c_id c, c_susp_left c)) (p_suspended p)) (e_pools (sm_exec SimCorExamples.p4))
    = [[(0, 0%Z)]] /\
  w_st (e_world (sm_exec SimCorExamples.p3)) = [Completed; Suspending; Completed; Running; Pending] /\
  w_st (e_world (sm_exec SimCorExamples.p4)) = [Completed; Pending; Completed; Completed; Pending].
Proof.
  split; [exact SimCorExamples.Cp_range|]. split; [exact SimCorExamples.p_reach2|].
  split; [exact SimCorExamples.p_tick2|]. split; [exact SimCorExamples.p_susp|].
  split; [exact SimCorExamples.p_reach34|].
  exact (proj2 (proj2 SimCorExamples.p_facts)).
Qed.
