(* C13 Trace replay delivers each pipeline once, at the first tick >= its arrival; a trace written by
   gentrace replays every pipeline in the tick in which the generator produced it.
   Statements only; every proof is [exact <lemma of Proofs/TraceFacts.v>].

   [replay rnd tps arrivals n] (Model/Trace.v) is WorkloadTrace over the batches of
   CSVWorkloadReader.batch_by_arrival: for each of n successive run_one_tick calls, the file positions
   of the pipelines returned. [rnd] is applied at every float operation of the source:
   [rnd := rnd64] is the code as it is, [rnd := exact] (the identity) the specification the property text
   states. [arrivals] is the arrival_seconds column; [nth i arrivals 0] the arrival of pipeline i.
   [gen_arrival rnd tps t] is the arrival_seconds WorkloadTraceGenerator.generate_rows writes in tick t.

   What holds of the code (rnd64): exactly once / file order / nobody skipped (part 1); the delivery
   tick is the first one at or after the float quotient, which is ceil(a*tps) up to one tick, with
   deviations only when an integer lies within 4*2^-53 (relative) of a*tps (part 3); the gentrace round
   trip is never early and at most one tick late (part 3).
   What is REFUTED of the code (finding F7, part 4): the tick ceil(d*tps) for the decimal d of the CSV
   cell, and the gentrace round trip; both hold of the exact specification (part 2). *)
From Coq Require Import List ZArith QArith Qabs Sorting.Sorted.
Import ListNotations.
From Eudoxia Require Import Num.Rnd64 Model.Trace Proofs.TraceFacts.
Close Scope Q_scope.
Close Scope Z_scope.

(* ------------------------------------------------------------------------------------------------
   Part 1. Every rounding function (in particular the code): each pipeline is delivered at most once,
   in file order, and none is skipped: the deliveries, concatenated, are 0, 1, .., m-1. *)
Theorem C13_once_in_file_order : forall (rnd : Q -> Q) tps arrivals n,
  exists m, m <= length arrivals /\ concat (replay rnd tps arrivals n) = seq 0 m.
Proof. exact replay_prefix. Qed.
Print Assumptions C13_once_in_file_order.

Theorem C13_one_answer_per_tick : forall (rnd : Q -> Q) tps arrivals n,
  length (replay rnd tps arrivals n) = n.
Proof. exact replay_length. Qed.
Print Assumptions C13_one_answer_per_tick.

(* the case runners of the correspondence check execute [replay_at_fast] (get_next_batch_tick computed
   once per batch); it is the same function as the transcription [replay_at] the theorems are about *)
Theorem C13_runner_is_the_model : forall (rnd : Q -> Q) tps start arrivals n,
  replay_at_fast rnd tps start arrivals n = replay_at rnd tps start arrivals n.
Proof. exact replay_at_fast_eq. Qed.
Print Assumptions C13_runner_is_the_model.

(* ------------------------------------------------------------------------------------------------
   Part 2. The exact specification. Rows in arrival order, arrivals >= 0, tps > 0:
   pipeline i is returned by call number t (t < n)  iff  t = ceil(a_i * tps). *)
Theorem C13_replay_spec : forall tps arrivals n,
  (0 < tps)%Z -> StronglySorted Qle arrivals -> Forall (Qle 0) arrivals ->
  forall t i, In i (nth t (replay exact tps arrivals n) []) <->
              (t < n /\ i < length arrivals /\ Z.of_nat t = ceilQ (nth i arrivals 0%Q * inject_Z tps)).
Proof. exact replay_exact_spec. Qed.
Print Assumptions C13_replay_spec.

(* ceil(a * tps) is the first tick whose start t/tps is at or after a *)
Theorem C13_exact_tick_is_first : forall tps a t, (0 < tps)%Z ->
  ((ceilQ (a * inject_Z tps) <= t)%Z <-> (a <= inject_Z t / inject_Z tps)%Q).
Proof. exact exact_tick_is_first. Qed.
Print Assumptions C13_exact_tick_is_first.

(* delivered exactly once, in that tick, when the tick is before the end of the run; never otherwise *)
Theorem C13_once_or_never : forall tps arrivals n i,
  (0 < tps)%Z -> StronglySorted Qle arrivals -> Forall (Qle 0) arrivals -> i < length arrivals ->
  ((ceilQ (nth i arrivals 0%Q * inject_Z tps) < Z.of_nat n)%Z ->
     exists t, t < n /\ Z.of_nat t = ceilQ (nth i arrivals 0%Q * inject_Z tps) /\
               In i (nth t (replay exact tps arrivals n) []) /\
               forall t', In i (nth t' (replay exact tps arrivals n) []) -> t' = t) /\
  ((Z.of_nat n <= ceilQ (nth i arrivals 0%Q * inject_Z tps))%Z ->
     forall t', ~ In i (nth t' (replay exact tps arrivals n) [])).
Proof. exact replay_exact_once. Qed.
Print Assumptions C13_once_or_never.

(* without the sign condition: arrivals before time 0 come out in tick 0 *)
Theorem C13_replay_spec_any_sign : forall tps arrivals n,
  (0 < tps)%Z -> StronglySorted Qle arrivals ->
  forall t i, In i (nth t (replay exact tps arrivals n) []) <->
              (t < n /\ i < length arrivals /\
               Z.of_nat t = Z.max 0 (ceilQ (nth i arrivals 0%Q * inject_Z tps))).
Proof. exact replay_exact_first_tick. Qed.
Print Assumptions C13_replay_spec_any_sign.

(* gentrace + run -w, exact: the pipeline generated in tick g is replayed in tick g *)
Theorem C13_gentrace_roundtrip : forall tps ticks n,
  (0 < tps)%Z -> StronglySorted Z.le ticks -> Forall (Z.le 0) ticks ->
  forall t i, In i (nth t (replay exact tps (map (gen_arrival exact tps) ticks) n) []) <->
              (t < n /\ i < length ticks /\ Z.of_nat t = nth i ticks 0%Z).
Proof. exact gentrace_roundtrip_exact. Qed.
Print Assumptions C13_gentrace_roundtrip.

(* ------------------------------------------------------------------------------------------------
   Part 3. The code (binary64). q_i = rnd64 (a_i / rnd64 (1 / tps)) is what get_next_batch_tick
   computes; x_i = a_i * tps the exact quantity. *)

(* the code exactly: pipeline i is returned by call t iff t is the first tick >= 0 with q_i <= t *)
Theorem C13_float_tick : forall tps arrivals n,
  (0 < tps)%Z -> StronglySorted Qle arrivals ->
  forall t i, In i (nth t (replay rnd64 tps arrivals n) []) <->
              (t < n /\ i < length arrivals /\
               Z.of_nat t = Z.max 0 (ceilQ (rnd64 (nth i arrivals 0%Q / rnd64 (1 / inject_Z tps))))).
Proof. exact replay_rnd64_first_tick. Qed.
Print Assumptions C13_float_tick.

(* never earlier than ceil(x (1 - 4*2^-53)), never later than ceil(x (1 + 4*2^-53)) *)
Theorem C13_float_window : forall tps a, (0 < tps)%Z -> (0 <= a)%Q ->
  (ceilQ (a * inject_Z tps * (1 - (4 # 9007199254740992)))
   <= Z.max 0 (ceilQ (rnd64 (a / rnd64 (1 / inject_Z tps))))
   <= ceilQ (a * inject_Z tps * (1 + (4 # 9007199254740992))))%Z.
Proof. exact rnd64_tick_window. Qed.
Print Assumptions C13_float_window.

(* exactly the specified tick unless an integer lies within 4*2^-53 (relative) of x *)
Theorem C13_float_exact_away : forall tps a, (0 < tps)%Z -> (0 <= a)%Q ->
  (forall k : Z, ~ (Qabs (inject_Z k - a * inject_Z tps) <= a * inject_Z tps * (4 # 9007199254740992))%Q) ->
  Z.max 0 (ceilQ (rnd64 (a / rnd64 (1 / inject_Z tps)))) = ceilQ (a * inject_Z tps).
Proof. exact rnd64_tick_exact_away. Qed.
Print Assumptions C13_float_exact_away.

(* replay_float_spec: the delivered tick is ceil(x), or ceil(x)+1 - only when the rounded quotient
   overshoots the integer ceil(x) that x does not exceed - or ceil(x)-1 - only when the rounded quotient
   does not exceed the integer ceil(x)-1 that x does exceed (x < 2^51) *)
Theorem C13_float_replay_spec : forall tps arrivals n,
  (0 < tps)%Z -> StronglySorted Qle arrivals -> Forall (Qle 0) arrivals ->
  forall t i, In i (nth t (replay rnd64 tps arrivals n) []) ->
    let x := (nth i arrivals 0 * inject_Z tps)%Q in
    let q := rnd64 (nth i arrivals 0 / rnd64 (1 / inject_Z tps))%Q in
    (x * (4 # 9007199254740992) <= 1)%Q ->
    t < n /\ i < length arrivals /\
    (Z.of_nat t = ceilQ x \/
     (Z.of_nat t = (ceilQ x + 1)%Z /\ (x <= inject_Z (ceilQ x))%Q /\ (inject_Z (ceilQ x) < q)%Q) \/
     (Z.of_nat t = (ceilQ x - 1)%Z /\ (q <= inject_Z (ceilQ x - 1))%Q /\ (inject_Z (ceilQ x - 1) < x)%Q)).
Proof. exact replay_rnd64_spec. Qed.
Print Assumptions C13_float_replay_spec.

(* the same for every rounding function that is monotone with relative error 2^-53 *)
Theorem C13_float_replay_spec_any_rounding : forall (rnd : Q -> Q),
  (forall x y, (x <= y)%Q -> (rnd x <= rnd y)%Q) ->
  (forall x, (Qabs (rnd x - x) <= Qabs x * (1 # 9007199254740992))%Q) ->
  forall tps, (0 < tps)%Z -> forall arrivals n,
  StronglySorted Qle arrivals -> Forall (Qle 0) arrivals ->
  forall t i, In i (nth t (replay rnd tps arrivals n) []) ->
    let x := (nth i arrivals 0 * inject_Z tps)%Q in
    let q := rnd (nth i arrivals 0 / rnd (1 / inject_Z tps))%Q in
    (x * (4 # 9007199254740992) <= 1)%Q ->
    t < n /\ i < length arrivals /\
    (Z.of_nat t = ceilQ x \/
     (Z.of_nat t = (ceilQ x + 1)%Z /\ (x <= inject_Z (ceilQ x))%Q /\ (inject_Z (ceilQ x) < q)%Q) \/
     (Z.of_nat t = (ceilQ x - 1)%Z /\ (q <= inject_Z (ceilQ x - 1))%Q /\ (inject_Z (ceilQ x - 1) < x)%Q)).
Proof. exact replay_float_spec. Qed.
Print Assumptions C13_float_replay_spec_any_rounding.

(* gentrace + run -w as computed (partial: the exact statement is refuted below): the pipeline generated
   in tick g < 2^51 is replayed in tick g or g+1, never earlier, and in g+1 only when the quotient of
   the two float operations overshoots g *)
Theorem C13_gentrace_roundtrip_partial : forall tps ticks n,
  (0 < tps)%Z -> StronglySorted Z.le ticks ->
  Forall (fun g => (0 <= g)%Z /\ (inject_Z g * (4 # 9007199254740992) <= 1)%Q) ticks ->
  forall t i, In i (nth t (replay rnd64 tps (map (gen_arrival rnd64 tps) ticks) n) []) ->
    i < length ticks /\
    (Z.of_nat t = nth i ticks 0%Z \/
     (Z.of_nat t = (nth i ticks 0 + 1)%Z /\
      (inject_Z (nth i ticks 0%Z) <
       rnd64 (gen_arrival rnd64 tps (nth i ticks 0%Z) / rnd64 (1 / inject_Z tps)))%Q)).
Proof. exact gentrace_roundtrip_rnd64. Qed.
Print Assumptions C13_gentrace_roundtrip_partial.

(* ------------------------------------------------------------------------------------------------
   Part 4. Refuted of the code (F7). [at_tick t n]: n answers, pipeline 0 returned by call t only. *)

(* the CSV cell 0.07 at 100 ticks/s: first tick at or after the arrival is 7 (and the exact replay
   delivers there); the code, on the float parsed from the cell, delivers in tick 8 *)
Theorem C13_late_by_one_refuted :
  exists (tps : Z) (d : Q),
    (0 < tps)%Z /\ ceilQ (d * inject_Z tps) = 7%Z /\
    replay exact tps [d] 10 = at_tick 7 10 /\
    replay rnd64 tps [rnd64 d] 10 = at_tick 8 10.
Proof. exact late_by_one_witness. Qed.
Print Assumptions C13_late_by_one_refuted.

(* a pipeline generated in tick 7 at 100 ticks/s is replayed in tick 8 *)
Theorem C13_gentrace_roundtrip_refuted :
  exists (tps g : Z),
    (0 < tps)%Z /\ g = 7%Z /\
    replay exact tps [gen_arrival exact tps g] 10 = at_tick 7 10 /\
    replay rnd64 tps [gen_arrival rnd64 tps g] 10 = at_tick 8 10.
Proof. exact gentrace_roundtrip_witness. Qed.
Print Assumptions C13_gentrace_roundtrip_refuted.

(* hence C13_gentrace_roundtrip does not hold with rnd64 in place of exact *)
Theorem C13_gentrace_roundtrip_rnd64_refuted :
  ~ (forall tps ticks n, (0 < tps)%Z -> StronglySorted Z.le ticks -> Forall (Z.le 0) ticks ->
       forall t i, In i (nth t (replay rnd64 tps (map (gen_arrival rnd64 tps) ticks) n) []) <->
                   (t < n /\ i < length ticks /\ Z.of_nat t = nth i ticks 0%Z)).
Proof. exact gentrace_roundtrip_rnd64_refuted. Qed.
Print Assumptions C13_gentrace_roundtrip_rnd64_refuted.

(* ------------------------------------------------------------------------------------------------
   Non-vacuity. *)
(* equal arrivals in file order, a gap, an arrival after the end *)
Example C13_example_exact :
  replay exact 10 [0; 1 # 10; 1 # 10; 3 # 10; 31 # 100; 5]%Q 7 = [[0]; [1; 2]; []; [3]; [4]; []; []].
Proof. vm_compute. reflexivity. Qed.

(* the same file through the code: 0.3 (parsed) still lands in tick 3 *)
Example C13_example_code :
  replay rnd64 10 (map rnd64 [0; 1 # 10; 1 # 10; 3 # 10; 31 # 100; 5]%Q) 7 = [[0]; [1; 2]; []; [3]; [4]; []; []].
Proof. vm_compute. reflexivity. Qed.

(* the hypotheses of C13_replay_spec are satisfiable and its conclusion picks the right tick *)
Example C13_example_spec :
  (0 < 100)%Z /\ StronglySorted Qle [7 # 100; 71 # 1000]%Q /\ Forall (Qle 0) [7 # 100; 71 # 1000]%Q /\
  ceilQ ((7 # 100) * inject_Z 100) = 7%Z /\ ceilQ ((71 # 1000) * inject_Z 100) = 8%Z /\
  replay exact 100 [7 # 100; 71 # 1000]%Q 9 = [[]; []; []; []; []; []; []; [0]; [1]].
Proof.
  split; [reflexivity|]. split; [repeat constructor; discriminate|]. split; [repeat constructor; discriminate|].
  vm_compute. repeat split; reflexivity.
Qed.

(* gentrace at 10 ticks/s: ticks 0, 3, 3, 5 come back as 0, 4, 4, 5 *)
Example C13_example_gentrace_10 :
  replay rnd64 10 (map (gen_arrival rnd64 10) [0; 3; 3; 5]%Z) 7 = [[0]; []; []; []; [1; 2]; [3]; []].
Proof. exact gentrace_roundtrip_witness_10. Qed.

(* The other direction of the float window (the [ceil x - 1] disjunct of C13_float_replay_spec is inhabited):
   the binary64 value nearest to 5/7 lies 1.6e-17 s ABOVE 5/7; at 7 ticks/s the code delivers it in tick 5 (whose
   float time is that very value), exact arithmetic on the same rational says tick 6. The monitor accepts this
   one-tick-early delivery only inside the rounding window of C13_float_window (found by the audit of the theorems) *)
From Eudoxia Require Import Proofs.AuditExamplesB.
Example C13_early_within_rounding :
  (rnd64 (5 # 7) == AuditExamplesB.C13.a57 /\ 5 # 7 < AuditExamplesB.C13.a57 /\
   ceilQ (AuditExamplesB.C13.a57 * inject_Z 7) = 6%Z)%Q /\
  replay rnd64 7 [AuditExamplesB.C13.a57] 8 = at_tick 5 8 /\
  replay exact 7 [AuditExamplesB.C13.a57] 8 = at_tick 6 8.
Proof. destruct AuditExamplesB.C13.early_by_one as (A & B & C & D & E). repeat split; assumption. Qed.

(* ------------------------------------------------------------------------------------------------
   Part 5. Replaying a FILE:  eudoxia run -w trace.csv.
   [file_replay_with rnd tps n rows] (Model/TraceFile.v) is WorkloadTrace(CSVWorkloadReader(rows), tps) driven by n
   calls of run_one_tick: the lazy generators and the one-batch look-ahead of Model/CsvLazy.v ([wt_replay], C14) with
   the abstract readiness predicate instantiated by the real test get_next_batch_tick() <= current_tick, computed
   with the very definitions of Model/Trace.v ([tick_length], [next_batch_tick], [batch_arrival]); [file_replay] is
   [rnd := rnd64]. The answer is (what each call that returned returned, each pipeline with its pipeline_id token;
   the exception if the constructor or a call raised); [file_refusal_at] says where it came out.
   [read_rows_c rows] is the eager reader of C14 (inr ps: accepted, the pipelines; inl e: refused);
   [file_pipelines rows ps] pairs ps with their pipeline_id tokens; [select l is] = the elements of l at the
   positions is; [good_prefix rows] = the rows of the pipelines before the first refused one;
   [file_tick rnd tps a] = max 0 (ceil (rnd (arrival / rnd (1 / tps)))), the tick of C13_float_tick.
   Every theorem of this part carries 0 < tps, the domain of the constructor (WorkloadTrace.__init__ divides by
   ticks_per_second; for tps = 0 the model is totalised - tick length rnd (1/0) = 0, everything in call 0 - and says
   nothing about the code, audit C P5); the runner of kind 44 refuses tps <= 0
   (C13_file_runner_refuses_nonpositive_tps: a domain restriction of the runner - Python raises for tps = 0 only, not
   for tps < 0 - and kind 44 is driven with tps >= 1 only). *)
From Eudoxia Require Import Model.Types Model.Timing Model.Codec Model.Csv Model.CsvLazy Model.TraceFile Model.RunTraceFile
  Proofs.CsvLazyFacts Proofs.TraceFileFacts Proofs.AuditRepairFacts.
Close Scope Q_scope.
Close Scope Z_scope.

(* (a) an accepted file, rows in any order, any rounding: the replay of the file IS the replay of part 1-4 on the
   arrival column the eager reader returns, call by call, read as positions in the file; and no call raises *)
Theorem C13_file_replay_is_replay : forall (rnd : Q -> Q) tps n rows ps, (0 < tps)%Z -> read_rows_c rows = inr ps ->
  file_replay_with rnd tps n rows =
    (map (select (file_pipelines rows ps)) (replay rnd tps (map pm_arr ps) n), None).
Proof. exact AuditRepairFacts.FilePos.file_replay_is_replay. Qed.
Print Assumptions C13_file_replay_is_replay.

(* hence the theorems of parts 1-4, for files. C13_once_in_file_order / C13_one_answer_per_tick: every pipeline
   at most once, in file order, nobody skipped, one answer per call, never an exception *)
Theorem C13_file_once_in_file_order : forall (rnd : Q -> Q) tps n rows ps, (0 < tps)%Z -> read_rows_c rows = inr ps ->
  exists m, m <= length ps /\
    concat (fst (file_replay_with rnd tps n rows)) = firstn m (file_pipelines rows ps) /\
    snd (file_replay_with rnd tps n rows) = None /\
    length (fst (file_replay_with rnd tps n rows)) = n.
Proof. exact AuditRepairFacts.FilePos.file_once_in_file_order. Qed.
Print Assumptions C13_file_once_in_file_order.

(* C13_float_tick: rows in arrival order; call t returns EXACTLY the pipelines of the file whose tick is t, in file
   order - so each pipeline is returned by exactly one call if the run is long enough, never before the first tick
   t with rnd64 (a / rnd64 (1 / tps)) <= t, in that very tick, and pipelines with equal arrival keep their file order *)
Theorem C13_file_float_tick : forall tps n rows ps, (0 < tps)%Z ->
  read_rows_c rows = inr ps -> StronglySorted Qle (map pm_arr ps) ->
  forall t, t < n ->
    nth t (fst (file_replay tps n rows)) [] =
      filter (fun a => file_tick rnd64 tps a =? Z.of_nat t)%Z (file_pipelines rows ps).
Proof. exact TraceFileFacts.file_float_tick. Qed.
Print Assumptions C13_file_float_tick.

Theorem C13_file_float_tick_any_rounding : forall (rnd : Q -> Q),
  (forall x y, (x <= y)%Q -> (rnd x <= rnd y)%Q) ->
  (forall x, (Qabs (rnd x - x) <= Qabs x * (1 # 9007199254740992))%Q) ->
  forall tps, (0 < tps)%Z -> forall n rows ps,
  read_rows_c rows = inr ps -> StronglySorted Qle (map pm_arr ps) ->
  forall t, t < n ->
    nth t (fst (file_replay_with rnd tps n rows)) [] =
      filter (fun a => file_tick rnd tps a =? Z.of_nat t)%Z (file_pipelines rows ps).
Proof. exact TraceFileFacts.file_float_tick_any_rounding. Qed.
Print Assumptions C13_file_float_tick_any_rounding.

(* C13_replay_spec_any_sign: the exact specification delivers in tick ceil(a * tps) (tick 0 before time 0) *)
Theorem C13_file_spec_tick : forall tps n rows ps, (0 < tps)%Z ->
  read_rows_c rows = inr ps -> StronglySorted Qle (map pm_arr ps) ->
  forall t, t < n ->
    nth t (fst (file_replay_with exact tps n rows)) [] =
      filter (fun a => Z.max 0 (ceilQ (pm_arr (snd a) * inject_Z tps)) =? Z.of_nat t)%Z (file_pipelines rows ps).
Proof. exact TraceFileFacts.file_spec_tick. Qed.
Print Assumptions C13_file_spec_tick.

(* C13_float_window: the code never delivers before ceil(a tps (1 - 4*2^-53)) nor after ceil(a tps (1 + 4*2^-53)) *)
Theorem C13_file_float_window : forall tps n rows ps, (0 < tps)%Z ->
  read_rows_c rows = inr ps -> StronglySorted Qle (map pm_arr ps) ->
  forall t a, In a (nth t (fst (file_replay tps n rows)) []) -> (0 <= pm_arr (snd a))%Q ->
    (ceilQ (pm_arr (snd a) * inject_Z tps * (1 - (4 # 9007199254740992))) <= Z.of_nat t
     <= ceilQ (pm_arr (snd a) * inject_Z tps * (1 + (4 # 9007199254740992))))%Z.
Proof. exact TraceFileFacts.file_float_window. Qed.
Print Assumptions C13_file_float_window.

(* (b) a refused file. Its longest well-formed prefix [good_prefix rows] is an accepted file; the next pipeline of
   the file, [bad], is the first one create_pipeline_from_batch refuses; batch_by_pipeline delivers exactly the
   pipelines of the prefix before it raises, and batch_by_arrival all their arrival batches but the last one (C14) *)
Theorem C13_file_malformed_prefix : forall rows e, read_rows_c rows = inl e ->
  exists ps rest bad,
    rows = good_prefix rows ++ rest /\
    read_rows_c (good_prefix rows) = inr ps /\
    nth_error (batches rows) (length ps) = Some bad /\ create_pipeline bad = inl e /\
    (forall b t, rest = b :: t -> exists t', bad = b :: t') /\
    lazy_arrivals rows = (file_pipelines (good_prefix rows) ps, Some e) /\
    lazy_batches rows = (removelast (arrival_groups (file_pipelines (good_prefix rows) ps)), Some e).
Proof. exact TraceFileFacts.file_malformed_prefix. Qed.
Print Assumptions C13_file_malformed_prefix.

(* the replay of a refused file, any row order, any rounding. [delivered] = the arrival batches WorkloadTrace receives.
   None: the constructor raises. Otherwise the calls 0..T-1 return exactly what they return on the well-formed prefix
   alone, and call T - the call in which the prefix alone hands out the LAST delivered batch - raises the refusal of
   the file (the look-ahead reaches the lost batch); if no call of the run hands that batch out (T = n) the run ends
   without an exception *)
Theorem C13_file_malformed_replay : forall (rnd : Q -> Q) tps n rows e, (0 < tps)%Z -> read_rows_c rows = inl e ->
  let good := fst (file_replay_with rnd tps n (good_prefix rows)) in
  let delivered := fst (lazy_batches rows) in
  match delivered with
  | [] => file_replay_with rnd tps n rows = ([], Some e) /\ file_refusal_at rnd tps n rows = Some AtConstruction
  | _ :: _ =>
      exists T, T <= n /\ fst (file_replay_with rnd tps n rows) = firstn T good /\
        (T = n -> snd (file_replay_with rnd tps n rows) = None /\ file_refusal_at rnd tps n rows = None) /\
        (T < n -> snd (file_replay_with rnd tps n rows) = Some e /\
                  file_refusal_at rnd tps n rows = Some (AtTick T) /\
                  forall x, In x (last delivered []) -> In x (nth T good []))
  end.
Proof. exact AuditRepairFacts.FilePos.file_malformed_replay. Qed.
Print Assumptions C13_file_malformed_replay.

(* rows of the prefix in arrival order: the call that raises is the tick (C13_float_tick) of the last batch before the
   lost one *)
Theorem C13_file_malformed_tick : forall tps n rows e ps, (0 < tps)%Z ->
  read_rows_c rows = inl e -> read_rows_c (good_prefix rows) = inr ps -> StronglySorted Qle (map pm_arr ps) ->
  forall T, file_refusal_at rnd64 tps n rows = Some (AtTick T) ->
    T < n /\ forall x, In x (last (fst (lazy_batches rows)) []) -> file_tick rnd64 tps x = Z.of_nat T.
Proof. exact TraceFileFacts.file_malformed_tick. Qed.
Print Assumptions C13_file_malformed_tick.

Theorem C13_file_malformed_tick_any_rounding : forall (rnd : Q -> Q),
  (forall x y, (x <= y)%Q -> (rnd x <= rnd y)%Q) ->
  (forall x, (Qabs (rnd x - x) <= Qabs x * (1 # 9007199254740992))%Q) ->
  forall tps, (0 < tps)%Z -> forall n rows e ps,
  read_rows_c rows = inl e -> read_rows_c (good_prefix rows) = inr ps -> StronglySorted Qle (map pm_arr ps) ->
  forall T, file_refusal_at rnd tps n rows = Some (AtTick T) ->
    T < n /\ forall x, In x (last (fst (lazy_batches rows)) []) -> file_tick rnd tps x = Z.of_nat T.
Proof. exact TraceFileFacts.file_malformed_tick_any_rounding. Qed.
Print Assumptions C13_file_malformed_tick_any_rounding.

(* never silently: as soon as the prefix alone would have handed out more than the batches before the last
   delivered one, the replay of the file has raised *)
Theorem C13_file_malformed_never_silent : forall (rnd : Q -> Q) tps n rows e, (0 < tps)%Z ->
  read_rows_c rows = inl e ->
  fst (lazy_batches rows) <> [] ->
  length (concat (removelast (fst (lazy_batches rows)))) <
    length (concat (fst (file_replay_with rnd tps n (good_prefix rows)))) ->
  snd (file_replay_with rnd tps n rows) = Some e.
Proof. exact AuditRepairFacts.FilePos.file_malformed_never_silent. Qed.
Print Assumptions C13_file_malformed_never_silent.

(* (c) what never reaches the simulator, however long the run: the well-formed pipelines of the file are, in file
   order, what the calls returned, then [mid] (not yet due, or dropped with the frame of the raising call), then the
   last batch WorkloadTrace received, then the batch lost inside batch_by_arrival *)
Theorem C13_file_malformed_never_delivered : forall (rnd : Q -> Q) tps n rows e, (0 < tps)%Z ->
  read_rows_c rows = inl e ->
  exists ps mid, read_rows_c (good_prefix rows) = inr ps /\
    let l := file_pipelines (good_prefix rows) ps in
    l = concat (fst (file_replay_with rnd tps n rows)) ++ mid ++
        last (fst (lazy_batches rows)) [] ++ last (arrival_groups l) [].
Proof. exact AuditRepairFacts.FilePos.file_malformed_never_delivered. Qed.
Print Assumptions C13_file_malformed_never_delivered.

(* (d) outside that domain: a case of kind 44 is ticks_per_second, the number of calls, the rows; the runner answers
   [-1] for tps <= 0 whatever follows, and for 0 < tps its answer is the [file_replay] the theorems above speak
   about (with where the refusal came out). The refusal is a DOMAIN RESTRICTION OF THE RUNNER, not a behaviour of
   the code: Python raises only for tps = 0 (WorkloadTrace.__init__, workload.py:230, [1.0 / ticks_per_second]:
   ZeroDivisionError); for tps < 0 it does NOT raise (the constructor returns with a negative tick length). The
   correspondence check drives kind 44 with tps >= 1 only, so the [-1] of this theorem is never compared with the
   implementation, and nothing is claimed here about what the code does for tps <= 0 (audit D, MINOR) *)
Theorem C13_file_runner_refuses_nonpositive_tps : forall tps rest,
  (tps <= 0)%Z -> run_trace_file (tps :: rest) = bad_input.
Proof. exact AuditRepairFacts.FilePos.run_trace_file_refuses_nonpositive_tps. Qed.
Print Assumptions C13_file_runner_refuses_nonpositive_tps.

Theorem C13_file_runner_answer : forall tps n rows l,
  run_dec (dlet tps <- dZ; dlet n <- dnat; dlet rows <- dlist RunCsv.drow; dret (tps, n, rows)) l = Some (tps, n, rows) ->
  (0 < tps)%Z ->
  run_trace_file l =
    eL (eL edelivered) (fst (file_replay tps n rows)) ++ esurfaced (surfaced_in rows (file_replay tps n rows)).
Proof. exact AuditRepairFacts.FilePos.run_trace_file_answer. Qed.
Print Assumptions C13_file_runner_answer.

Example C13_file_runner_refuses_zero :
  run_trace_file [0; 2; 0]%Z = bad_input /\ run_trace_file [-3; 2; 0]%Z = bad_input.
Proof. exact AuditRepairFacts.FilePos.refuses_zero. Qed.

(* Non-vacuity. [six]: one-operator pipelines p0..p5 arriving at 0, 0.07, 0.07, 0.3, 1, 1 (the doubles), 100 ticks/s,
   32 calls: p0 in tick 0, p1 and p2 in tick 8 (F7: the decimal 0.07 asks for tick 7), p3 in tick 30; it is
   C13's replay of the arrival column *)
Example C13_file_example_good :
  FileExamples.good32 =
    (repeat [] 0 ++ [[(0, LazyExamples.at_ 0%Q)]] ++ repeat [] 7 ++
     [[(1, LazyExamples.at_ FileExamples.a007); (2, LazyExamples.at_ FileExamples.a007)]] ++ repeat [] 21 ++
     [[(3, LazyExamples.at_ FileExamples.a03)]] ++ repeat [] 1, None) /\
  map (select (file_pipelines FileExamples.six
         [LazyExamples.at_ 0%Q; LazyExamples.at_ FileExamples.a007; LazyExamples.at_ FileExamples.a007;
          LazyExamples.at_ FileExamples.a03; LazyExamples.at_ 1%Q; LazyExamples.at_ 1%Q]))
      (replay rnd64 100 [0%Q; FileExamples.a007; FileExamples.a007; FileExamples.a03; 1%Q; 1%Q] 32)
    = fst FileExamples.good32 /\
  file_refusal_at rnd64 100 32 FileExamples.six = None.
Proof. exact FileExamples.ex_good. Qed.

(* [six_bad]: p5 has an unknown scaling law. The batch of arrival 1 (p4) is lost inside batch_by_arrival, the batch of
   arrival 0.3 (p3) is the last one WorkloadTrace receives: calls 0..29 return what the good file returns, call 30 -
   the tick of p3 - raises, p3 is never returned; a run of 20 calls ends without an exception *)
Example C13_file_example_bad :
  read_rows_c FileExamples.six_bad = inl RUnknownLaw /\
  good_prefix FileExamples.six_bad = firstn 5 FileExamples.six /\
  fst (lazy_batches FileExamples.six_bad) =
    [[(0, LazyExamples.at_ 0%Q)];
     [(1, LazyExamples.at_ FileExamples.a007); (2, LazyExamples.at_ FileExamples.a007)];
     [(3, LazyExamples.at_ FileExamples.a03)]] /\
  FileExamples.bad32 = (firstn 30 (fst FileExamples.good32), Some RUnknownLaw) /\
  file_refusal_at rnd64 100 32 FileExamples.six_bad = Some (AtTick 30) /\
  file_tick rnd64 100 (3, LazyExamples.at_ FileExamples.a03) = 30%Z /\
  FileExamples.bad20 = (firstn 20 (fst FileExamples.good32), None) /\
  file_refusal_at rnd64 100 20 FileExamples.six_bad = None.
Proof. exact FileExamples.ex_bad. Qed.

(* the first pipeline malformed: the constructor raises *)
Example C13_file_example_bad_first :
  file_replay 100 32 FileExamples.six_bad0 = ([], Some RUnknownLaw) /\
  file_refusal_at rnd64 100 32 FileExamples.six_bad0 = Some AtConstruction /\
  good_prefix FileExamples.six_bad0 = [].
Proof. exact FileExamples.ex_bad0. Qed.

(* the hypotheses of the file theorems hold of [six] *)
Example C13_file_example_hyps :
  read_rows_c FileExamples.six =
    inr [LazyExamples.at_ 0%Q; LazyExamples.at_ FileExamples.a007; LazyExamples.at_ FileExamples.a007;
         LazyExamples.at_ FileExamples.a03; LazyExamples.at_ 1%Q; LazyExamples.at_ 1%Q] /\
  StronglySorted Qle (map pm_arr
        [LazyExamples.at_ 0%Q; LazyExamples.at_ FileExamples.a007; LazyExamples.at_ FileExamples.a007;
         LazyExamples.at_ FileExamples.a03; LazyExamples.at_ 1%Q; LazyExamples.at_ 1%Q]).
Proof. exact FileExamples.ex_hyps. Qed.
