(* C13 Trace replay delivers each pipeline once, at the first tick >= its arrival; a trace written by
   gentrace replays every pipeline in the tick in which the generator produced it.
   Statements only; every proof is [exact <lemma of Proofs/TraceFacts.v>].

   [replay rnd tps arrivals n] (Model/Trace.v) is WorkloadTrace over the batches of
   CSVWorkloadReader.batch_by_arrival: for each of n successive run_one_tick calls, the file positions
   of the pipelines returned. [rnd] is applied at every float operation of the source:
   [rnd := rnd64] is the code as it is, [rnd := exact] (the identity) the specification the property text
   states. [arrivals] is the arrival_seconds column; [nth i arrivals 0] the arrival of pipeline i.
   [gen_arrival rnd tps t] is the arrival_seconds WorkloadTraceGenerator.generate_rows writes in tick t.

   What holds of the code (rnd64): exactly once / file order / nobody skipped (part 1); the delivery
   tick is the first one at or after the float quotient, which is ceil(a*tps) up to one tick, with
   deviations only when an integer lies within 4*2^-53 (relative) of a*tps (part 3); the gentrace round
   trip is never early and at most one tick late (part 3).
   What is REFUTED of the code (finding F7, part 4): the tick ceil(d*tps) for the decimal d of the CSV
   cell, and the gentrace round trip; both hold of the exact specification (part 2). *)
From Coq Require Import List ZArith QArith Qabs Sorting.Sorted.
Import ListNotations.
From Eudoxia Require Import Num.Rnd64 Model.Trace Proofs.TraceFacts.
Close Scope Q_scope.
Close Scope Z_scope.

(* ------------------------------------------------------------------------------------------------
   Part 1. Every rounding function (in particular the code): each pipeline is delivered at most once,
   in file order, and none is skipped: the deliveries, concatenated, are 0, 1, .., m-1. *)
Theorem C13_once_in_file_order : forall (rnd : Q -> Q) tps arrivals n,
  exists m, m <= length arrivals /\ concat (replay rnd tps arrivals n) = seq 0 m.
Proof. exact replay_prefix. Qed.
Print Assumptions C13_once_in_file_order.

Theorem C13_one_answer_per_tick : forall (rnd : Q -> Q) tps arrivals n,
  length (replay rnd tps arrivals n) = n.
Proof. exact replay_length. Qed.
Print Assumptions C13_one_answer_per_tick.

(* the case runners of the correspondence check execute [replay_at_fast] (get_next_batch_tick computed
   once per batch); it is the same function as the transcription [replay_at] the theorems are about *)
Theorem C13_runner_is_the_model : forall (rnd : Q -> Q) tps start arrivals n,
  replay_at_fast rnd tps start arrivals n = replay_at rnd tps start arrivals n.
Proof. exact replay_at_fast_eq. Qed.
Print Assumptions C13_runner_is_the_model.

(* ------------------------------------------------------------------------------------------------
   Part 2. The exact specification. Rows in arrival order, arrivals >= 0, tps > 0:
   pipeline i is returned by call number t (t < n)  iff  t = ceil(a_i * tps). *)
Theorem C13_replay_spec : forall tps arrivals n,
  (0 < tps)%Z -> StronglySorted Qle arrivals -> Forall (Qle 0) arrivals ->
  forall t i, In i (nth t (replay exact tps arrivals n) []) <->
              (t < n /\ i < length arrivals /\ Z.of_nat t = ceilQ (nth i arrivals 0%Q * inject_Z tps)).
Proof. exact replay_exact_spec. Qed.
Print Assumptions C13_replay_spec.

(* ceil(a * tps) is the first tick whose start t/tps is at or after a *)
Theorem C13_exact_tick_is_first : forall tps a t, (0 < tps)%Z ->
  ((ceilQ (a * inject_Z tps) <= t)%Z <-> (a <= inject_Z t / inject_Z tps)%Q).
Proof. exact exact_tick_is_first. Qed.
Print Assumptions C13_exact_tick_is_first.

(* delivered exactly once, in that tick, when the tick is before the end of the run; never otherwise *)
Theorem C13_once_or_never : forall tps arrivals n i,
  (0 < tps)%Z -> StronglySorted Qle arrivals -> Forall (Qle 0) arrivals -> i < length arrivals ->
  ((ceilQ (nth i arrivals 0%Q * inject_Z tps) < Z.of_nat n)%Z ->
     exists t, t < n /\ Z.of_nat t = ceilQ (nth i arrivals 0%Q * inject_Z tps) /\
               In i (nth t (replay exact tps arrivals n) []) /\
               forall t', In i (nth t' (replay exact tps arrivals n) []) -> t' = t) /\
  ((Z.of_nat n <= ceilQ (nth i arrivals 0%Q * inject_Z tps))%Z ->
     forall t', ~ In i (nth t' (replay exact tps arrivals n) [])).
Proof. exact replay_exact_once. Qed.
Print Assumptions C13_once_or_never.

(* without the sign condition: arrivals before time 0 come out in tick 0 *)
Theorem C13_replay_spec_any_sign : forall tps arrivals n,
  (0 < tps)%Z -> StronglySorted Qle arrivals ->
  forall t i, In i (nth t (replay exact tps arrivals n) []) <->
              (t < n /\ i < length arrivals /\
               Z.of_nat t = Z.max 0 (ceilQ (nth i arrivals 0%Q * inject_Z tps))).
Proof. exact replay_exact_first_tick. Qed.
Print Assumptions C13_replay_spec_any_sign.

(* gentrace + run -w, exact: the pipeline generated in tick g is replayed in tick g *)
Theorem C13_gentrace_roundtrip : forall tps ticks n,
  (0 < tps)%Z -> StronglySorted Z.le ticks -> Forall (Z.le 0) ticks ->
  forall t i, In i (nth t (replay exact tps (map (gen_arrival exact tps) ticks) n) []) <->
              (t < n /\ i < length ticks /\ Z.of_nat t = nth i ticks 0%Z).
Proof. exact gentrace_roundtrip_exact. Qed.
Print Assumptions C13_gentrace_roundtrip.

(* ------------------------------------------------------------------------------------------------
   Part 3. The code (binary64). q_i = rnd64 (a_i / rnd64 (1 / tps)) is what get_next_batch_tick
   computes; x_i = a_i * tps the exact quantity. *)

(* the code exactly: pipeline i is returned by call t iff t is the first tick >= 0 with q_i <= t *)
Theorem C13_float_tick : forall tps arrivals n,
  (0 < tps)%Z -> StronglySorted Qle arrivals ->
  forall t i, In i (nth t (replay rnd64 tps arrivals n) []) <->
              (t < n /\ i < length arrivals /\
               Z.of_nat t = Z.max 0 (ceilQ (rnd64 (nth i arrivals 0%Q / rnd64 (1 / inject_Z tps))))).
Proof. exact replay_rnd64_first_tick. Qed.
Print Assumptions C13_float_tick.

(* never earlier than ceil(x (1 - 4*2^-53)), never later than ceil(x (1 + 4*2^-53)) *)
Theorem C13_float_window : forall tps a, (0 < tps)%Z -> (0 <= a)%Q ->
  (ceilQ (a * inject_Z tps * (1 - (4 # 9007199254740992)))
   <= Z.max 0 (ceilQ (rnd64 (a / rnd64 (1 / inject_Z tps))))
   <= ceilQ (a * inject_Z tps * (1 + (4 # 9007199254740992))))%Z.
Proof. exact rnd64_tick_window. Qed.
Print Assumptions C13_float_window.

(* exactly the specified tick unless an integer lies within 4*2^-53 (relative) of x *)
Theorem C13_float_exact_away : forall tps a, (0 < tps)%Z -> (0 <= a)%Q ->
  (forall k : Z, ~ (Qabs (inject_Z k - a * inject_Z tps) <= a * inject_Z tps * (4 # 9007199254740992))%Q) ->
  Z.max 0 (ceilQ (rnd64 (a / rnd64 (1 / inject_Z tps)))) = ceilQ (a * inject_Z tps).
Proof. exact rnd64_tick_exact_away. Qed.
Print Assumptions C13_float_exact_away.

(* replay_float_spec: the delivered tick is ceil(x), or ceil(x)+1 - only when the rounded quotient
   overshoots the integer ceil(x) that x does not exceed - or ceil(x)-1 - only when the rounded quotient
   does not exceed the integer ceil(x)-1 that x does exceed (x < 2^51) *)
Theorem C13_float_replay_spec : forall tps arrivals n,
  (0 < tps)%Z -> StronglySorted Qle arrivals -> Forall (Qle 0) arrivals ->
  forall t i, In i (nth t (replay rnd64 tps arrivals n) []) ->
    let x := (nth i arrivals 0 * inject_Z tps)%Q in
    let q := rnd64 (nth i arrivals 0 / rnd64 (1 / inject_Z tps))%Q in
    (x * (4 # 9007199254740992) <= 1)%Q ->
    t < n /\ i < length arrivals /\
    (Z.of_nat t = ceilQ x \/
     (Z.of_nat t = (ceilQ x + 1)%Z /\ (x <= inject_Z (ceilQ x))%Q /\ (inject_Z (ceilQ x) < q)%Q) \/
     (Z.of_nat t = (ceilQ x - 1)%Z /\ (q <= inject_Z (ceilQ x - 1))%Q /\ (inject_Z (ceilQ x - 1) < x)%Q)).
Proof. exact replay_rnd64_spec. Qed.
Print Assumptions C13_float_replay_spec.

(* the same for every rounding function that is monotone with relative error 2^-53 *)
Theorem C13_float_replay_spec_any_rounding : forall (rnd : Q -> Q),
  (forall x y, (x <= y)%Q -> (rnd x <= rnd y)%Q) ->
  (forall x, (Qabs (rnd x - x) <= Qabs x * (1 # 9007199254740992))%Q) ->
  forall tps, (0 < tps)%Z -> forall arrivals n,
  StronglySorted Qle arrivals -> Forall (Qle 0) arrivals ->
  forall t i, In i (nth t (replay rnd tps arrivals n) []) ->
    let x := (nth i arrivals 0 * inject_Z tps)%Q in
    let q := rnd (nth i arrivals 0 / rnd (1 / inject_Z tps))%Q in
    (x * (4 # 9007199254740992) <= 1)%Q ->
    t < n /\ i < length arrivals /\
    (Z.of_nat t = ceilQ x \/
     (Z.of_nat t = (ceilQ x + 1)%Z /\ (x <= inject_Z (ceilQ x))%Q /\ (inject_Z (ceilQ x) < q)%Q) \/
     (Z.of_nat t = (ceilQ x - 1)%Z /\ (q <= inject_Z (ceilQ x - 1))%Q /\ (inject_Z (ceilQ x - 1) < x)%Q)).
Proof. exact replay_float_spec. Qed.
Print Assumptions C13_float_replay_spec_any_rounding.

(* gentrace + run -w as computed (partial: the exact statement is refuted below): the pipeline generated
   in tick g < 2^51 is replayed in tick g or g+1, never earlier, and in g+1 only when the quotient of
   the two float operations overshoots g *)
Theorem C13_gentrace_roundtrip_partial : forall tps ticks n,
  (0 < tps)%Z -> StronglySorted Z.le ticks ->
  Forall (fun g => (0 <= g)%Z /\ (inject_Z g * (4 # 9007199254740992) <= 1)%Q) ticks ->
  forall t i, In i (nth t (replay rnd64 tps (map (gen_arrival rnd64 tps) ticks) n) []) ->
    i < length ticks /\
    (Z.of_nat t = nth i ticks 0%Z \/
     (Z.of_nat t = (nth i ticks 0 + 1)%Z /\
      (inject_Z (nth i ticks 0%Z) <
       rnd64 (gen_arrival rnd64 tps (nth i ticks 0%Z) / rnd64 (1 / inject_Z tps)))%Q)).
Proof. exact gentrace_roundtrip_rnd64. Qed.
Print Assumptions C13_gentrace_roundtrip_partial.

(* ------------------------------------------------------------------------------------------------
   Part 4. Refuted of the code (F7). [at_tick t n]: n answers, pipeline 0 returned by call t only. *)

(* the CSV cell 0.07 at 100 ticks/s: first tick at or after the arrival is 7 (and the exact replay
   delivers there); the code, on the float parsed from the cell, delivers in tick 8 *)
Theorem C13_late_by_one_refuted :
  exists (tps : Z) (d : Q),
    (0 < tps)%Z /\ ceilQ (d * inject_Z tps) = 7%Z /\
    replay exact tps [d] 10 = at_tick 7 10 /\
    replay rnd64 tps [rnd64 d] 10 = at_tick 8 10.
Proof. exact late_by_one_witness. Qed.
Print Assumptions C13_late_by_one_refuted.

(* a pipeline generated in tick 7 at 100 ticks/s is replayed in tick 8 *)
Theorem C13_gentrace_roundtrip_refuted :
  exists (tps g : Z),
    (0 < tps)%Z /\ g = 7%Z /\
    replay exact tps [gen_arrival exact tps g] 10 = at_tick 7 10 /\
    replay rnd64 tps [gen_arrival rnd64 tps g] 10 = at_tick 8 10.
Proof. exact gentrace_roundtrip_witness. Qed.
Print Assumptions C13_gentrace_roundtrip_refuted.

(* hence C13_gentrace_roundtrip does not hold with rnd64 in place of exact *)
Theorem C13_gentrace_roundtrip_rnd64_refuted :
  ~ (forall tps ticks n, (0 < tps)%Z -> StronglySorted Z.le ticks -> Forall (Z.le 0) ticks ->
       forall t i, In i (nth t (replay rnd64 tps (map (gen_arrival rnd64 tps) ticks) n) []) <->
                   (t < n /\ i < length ticks /\ Z.of_nat t = nth i ticks 0%Z)).
Proof. exact gentrace_roundtrip_rnd64_refuted. Qed.
Print Assumptions C13_gentrace_roundtrip_rnd64_refuted.

(* ------------------------------------------------------------------------------------------------
   Non-vacuity. *)
(* equal arrivals in file order, a gap, an arrival after the end *)
Example C13_example_exact :
  replay exact 10 [0; 1 # 10; 1 # 10; 3 # 10; 31 # 100; 5]%Q 7 = [[0]; [1; 2]; []; [3]; [4]; []; []].
Proof. vm_compute. reflexivity. Qed.

(* the same file through the code: 0.3 (parsed) still lands in tick 3 *)
Example C13_example_code :
  replay rnd64 10 (map rnd64 [0; 1 # 10; 1 # 10; 3 # 10; 31 # 100; 5]%Q) 7 = [[0]; [1; 2]; []; [3]; [4]; []; []].
Proof. vm_compute. reflexivity. Qed.

(* the hypotheses of C13_replay_spec are satisfiable and its conclusion picks the right tick *)
Example C13_example_spec :
  (0 < 100)%Z /\ StronglySorted Qle [7 # 100; 71 # 1000]%Q /\ Forall (Qle 0) [7 # 100; 71 # 1000]%Q /\
  ceilQ ((7 # 100) * inject_Z 100) = 7%Z /\ ceilQ ((71 # 1000) * inject_Z 100) = 8%Z /\
  replay exact 100 [7 # 100; 71 # 1000]%Q 9 = [[]; []; []; []; []; []; []; [0]; [1]].
Proof.
  split; [reflexivity|]. split; [repeat constructor; discriminate|]. split; [repeat constructor; discriminate|].
  vm_compute. repeat split; reflexivity.
Qed.

(* gentrace at 10 ticks/s: ticks 0, 3, 3, 5 come back as 0, 4, 4, 5 *)
Example C13_example_gentrace_10 :
  replay rnd64 10 (map (gen_arrival rnd64 10) [0; 3; 3; 5]%Z) 7 = [[0]; []; []; []; [1; 2]; [3]; []].
Proof. exact gentrace_roundtrip_witness_10. Qed.

(* The other direction of the float window (the [ceil x - 1] disjunct of C13_float_replay_spec is inhabited):
   the binary64 value nearest to 5/7 lies 1.6e-17 s ABOVE 5/7; at 7 ticks/s the code delivers it in tick 5 (whose
   float time is that very value), exact arithmetic on the same rational says tick 6. The monitor accepts this
   one-tick-early delivery only inside the rounding window of C13_float_window (found by the audit of the theorems) *)
From Eudoxia Require Import Proofs.AuditExamplesB.
Example C13_early_within_rounding :
  (rnd64 (5 # 7) == AuditExamplesB.C13.a57 /\ 5 # 7 < AuditExamplesB.C13.a57 /\
   ceilQ (AuditExamplesB.C13.a57 * inject_Z 7) = 6%Z)%Q /\
  replay rnd64 7 [AuditExamplesB.C13.a57] 8 = at_tick 5 8 /\
  replay exact 7 [AuditExamplesB.C13.a57] 8 = at_tick 6 8.
Proof. destruct AuditExamplesB.C13.early_by_one as (A & B & C & D & E). repeat split; assumption. Qed.
