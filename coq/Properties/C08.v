(* C08: theorem statements are added when the corresponding Proofs file is merged. *)
From Coq Require Import List ZArith QArith.
From Eudoxia Require Import Model.Simulator.
Example C08_placeholder : percentile99 nil = None.
Proof. reflexivity. Qed.
Print Assumptions C08_placeholder.
